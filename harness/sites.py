"""Site framework: a site is one named check taking a JSON-able case.
  kind 'corr'  — model (Lean driver) vs implementation on the same input
  kind 'prop'  — the property's own predicate evaluated on the implementation (failing-input search)
Both normal runs and replays go through the same functions."""
from __future__ import annotations

import json
import traceback

from .common import Ctx, Driver


class Site:
    def __init__(self, name, kind, check, lines=None):
        self.name, self.kind, self.check, self.lines = name, kind, check, lines


def run_cases(ctx: Ctx, sites: dict, cases, driver_ok=True):
    """cases: iterable of (site_name, case). Runs the driver once for all corr cases."""
    cases = list(cases)
    reqs = []
    spans = []
    for sname, case in cases:
        s = sites[sname]
        ls = s.lines(case) if (s.lines and driver_ok) else []
        spans.append((len(reqs), len(reqs) + len(ls)))
        reqs.extend(ls)
    outs = Driver(ctx).run(reqs) if reqs else []
    for (sname, case), (a, b) in zip(cases, spans):
        s = sites[sname]
        if s.lines and not driver_ok:
            continue
        try:
            res = s.check(ctx, case, outs[a:b])
        except Exception as e:  # an exception in the implementation is a disagreement, not a crash of the check
            res = f"exception {type(e).__name__}: {e} | " + traceback.format_exc(limit=3).replace("\n", " / ")[-400:]
        if res is not None:
            ctx.fail(sname, res, case, found_input=(s.kind == "prop"), kind=s.kind)


def load_replay(path):
    body = json.load(open(path))
    return body["site"], body["case"], body
