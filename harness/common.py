"""Shared machinery of the checks: context, Lean build/audit, driver, verdicts, evidence."""
from __future__ import annotations

import fcntl
import hashlib
import json
import os
import re
import shutil
import struct
import subprocess
import sys
import time

VERIF = os.path.dirname(os.path.dirname(os.path.abspath(__file__)))
LEAN = os.path.join(VERIF, "lean")
REPO = os.environ.get("VERIF_REPO", "/repo")
ALLOWED_AXIOMS = {"propext", "Classical.choice", "Quot.sound"}
TRUSTED_BASE = [
    "Lean 4.33 kernel; Mathlib v4.33 definitions",
    "axioms propext, Classical.choice, Quot.sound only (checked by #print axioms on every property theorem); "
    "no native_decide, no bv_decide, no own axioms, no sorry",
    "harness/extract (AST translator, table extraction): a wrong extraction can only fail an obligation "
    "or tie a proof to wrong data; the latter is cross-checked by running generated definitions in the driver",
    "correspondence check is differential testing of model vs implementation (bounds, does not prove, their agreement)",
    "IEEE-754 behaviour of numpy/numba vs Lean Float (both libm)",
]


# ---- float wire format ---------------------------------------------------------------
def f2h(x: float) -> str:
    return "%016x" % struct.unpack("<Q", struct.pack("<d", float(x)))[0]


def h2f(s: str) -> float:
    return struct.unpack("<d", struct.pack("<Q", int(s, 16)))[0]


LAYOUTS = ("C", "F", "strided", "readonly", "negstride")


def relayout(a, k):
    """the same array VALUES in another memory layout, chosen by `k` (any hashable / int): C-contiguous, Fortran order, a strided
    view into a larger buffer, a read-only array, a view with a negative stride.  The objects of orix are defined by the values
    they are given; which buffer holds them must not matter."""
    import numpy as np
    a = np.asarray(a)
    import zlib
    mode = LAYOUTS[(k if isinstance(k, int) else zlib.crc32(repr(k).encode())) % len(LAYOUTS)]   # stable across processes
    if mode == "C" or a.size == 0 or a.ndim == 0:
        return np.ascontiguousarray(a)
    if mode == "F":
        return np.asfortranarray(a)
    if mode == "readonly":
        b = np.array(a, copy=True)
        b.setflags(write=False)
        return b
    if mode == "strided":
        big = np.empty(a.shape[:-1] + (2 * a.shape[-1],), dtype=a.dtype)
        big[...] = np.nan if a.dtype.kind == "f" else 0
        big[..., ::2] = a
        return big[..., ::2]
    rev = np.array(a[..., ::-1], copy=True)
    return rev[..., ::-1]


def numba_cache_dir():
    h = hashlib.blake2b(digest_size=10)
    for root, dirs, files in sorted(os.walk(os.path.join(REPO, "orix"))):
        dirs.sort()
        if "__pycache__" in root:
            continue
        for fn in sorted(files):
            if fn.endswith(".py"):
                p = os.path.join(root, fn)
                h.update(p.encode())
                with open(p, "rb") as f:
                    h.update(f.read())
    base = os.path.join(VERIF, ".run", "numba")
    d = os.path.join(base, h.hexdigest())
    os.makedirs(d, exist_ok=True)
    try:  # keep at most 6 caches
        olds = sorted((os.path.getmtime(os.path.join(base, x)), x) for x in os.listdir(base))
        for _, x in olds[:-6]:
            if x != h.hexdigest():
                shutil.rmtree(os.path.join(base, x), ignore_errors=True)
    except OSError:
        pass
    return d


class Failure:
    def __init__(self, site, what, case, found_input=True, kind="prop"):
        self.site, self.what, self.case, self.found_input, self.kind = site, what, case, found_input, kind


class Ctx:
    def __init__(self, prop, tier, seed, replay=None):
        self.prop, self.tier, self.seed, self.replay = prop, tier, seed, replay
        self.t0 = time.time()
        self.scratch = os.path.join(VERIF, ".run", f"{prop}-{os.getpid()}")
        os.makedirs(self.scratch, exist_ok=True)
        # numba's on-disk cache does not track cross-file dependencies: key it by a hash of the whole
        # orix source tree, so any edit to /repo gets a fresh cache and an unchanged tree reuses its own
        os.environ["NUMBA_CACHE_DIR"] = numba_cache_dir()
        import numpy as np
        self.rng = np.random.Generator(np.random.PCG64(seed))
        self.failures: list[Failure] = []
        self.notes: list[str] = []
        self.samples: list = []
        self.strata: dict = {}
        self.evaluations = 0
        self.distinct = set()
        self.obligations: dict = {}     # name -> bool discharged
        self.axioms: dict = {}
        self.extra: dict = {}
        self.known_hit: dict = {}
        self.checker_cmd = ""
        self.worst_dev = {}

    def cleanup(self):
        shutil.rmtree(self.scratch, ignore_errors=True)

    # counting ---------------------------------------------------------------------
    def count(self, stratum, case_key=None, nontrivial=True):
        self.evaluations += 1
        self.strata[stratum] = self.strata.get(stratum, 0) + 1
        if nontrivial and case_key is not None:
            self.distinct.add(hashlib.blake2b(repr(case_key).encode(), digest_size=8).digest())

    def sample(self, obj, cap=6):
        if len(self.samples) < cap:
            self.samples.append(obj)

    def dev(self, name, value):
        if value == value and value > self.worst_dev.get(name, 0.0):
            self.worst_dev[name] = float(value)

    def fail(self, site, what, case, found_input=True, kind="prop"):
        self.failures.append(Failure(site, what, case, found_input, kind))

    def note(self, s):
        if s not in self.notes:
            self.notes.append(s)


# ---- Lean side -----------------------------------------------------------------------
class LakeLock:
    def __enter__(self):
        os.makedirs(os.path.join(LEAN, ".lake"), exist_ok=True)
        self.f = open(os.path.join(LEAN, ".lake", "verif.lock"), "w")
        fcntl.flock(self.f, fcntl.LOCK_EX)
        return self

    def __exit__(self, *a):
        fcntl.flock(self.f, fcntl.LOCK_UN)
        self.f.close()


def write_if_changed(path, text):
    os.makedirs(os.path.dirname(path), exist_ok=True)
    try:
        if open(path).read() == text:
            return False
    except FileNotFoundError:
        pass
    with open(path, "w") as f:
        f.write(text)
    return True


def lake_build(targets, timeout=3000):
    """returns (ok, {module: [error lines]}, raw output)"""
    with LakeLock():
        p = subprocess.run(["lake", "build"] + list(targets), cwd=LEAN, capture_output=True, text=True,
                           timeout=timeout)
    out = p.stdout + p.stderr
    errs = {}
    for m in re.finditer(r"^error: (\S+?\.lean):(\d+):(\d+): (.*)$", out, re.M):
        mod = m.group(1)[:-5].replace("/", ".")
        errs.setdefault(mod, []).append(f"{m.group(1)}:{m.group(2)}: {m.group(4)[:200]}")
    if p.returncode != 0 and not errs:
        errs["<lake>"] = [out[-2000:]]
    return p.returncode == 0, errs, out


FORBIDDEN = re.compile(r"\bsorry\b|\badmit\b|^\s*axiom\s|native_decide|bv_decide|implemented_by|\bunsafe\s|maxHeartbeats\s+0\b")


def strip_comments(src: str) -> str:
    src = re.sub(r"/-.*?-/", lambda m: "\n" * m.group(0).count("\n"), src, flags=re.S)
    return re.sub(r"--.*", "", src)


def grep_forbidden():
    hits = []
    for root, _, files in os.walk(LEAN):
        if ".lake" in root:
            continue
        for fn in files:
            if fn.endswith(".lean"):
                p = os.path.join(root, fn)
                for n, line in enumerate(strip_comments(open(p).read()).split("\n"), 1):
                    if FORBIDDEN.search(line):
                        hits.append(f"{os.path.relpath(p, LEAN)}:{n}: {line.strip()[:120]}")
    return hits


def theorems_in(module_path):
    """names of theorems declared in a property file (namespace-qualified)"""
    src = strip_comments(open(module_path).read())
    ns = []
    names = []
    for line in src.split("\n"):
        m = re.match(r"\s*namespace\s+(\S+)", line)
        if m:
            ns.append(m.group(1))
            continue
        m = re.match(r"\s*end\s+(\S+)", line)
        if m and ns and ns[-1] == m.group(1):
            ns.pop()
            continue
        m = re.match(r"\s*(?:@\[[^\]]*\]\s*)?(?:private\s+|protected\s+)?theorem\s+([^\s:({\[]+)", line)
        if m:
            names.append(".".join(ns + [m.group(1)]))
    return names


def print_axioms(ctx, modules, theorems):
    """{theorem: [axioms]} via `#print axioms` in a scratch file importing `modules`"""
    if not theorems:
        return {}
    path = os.path.join(ctx.scratch, "Audit.lean")
    with open(path, "w") as f:
        for m in modules:
            f.write(f"import {m}\n")
        for t in theorems:
            f.write(f"#print axioms {t}\n")
    with LakeLock():
        p = subprocess.run(["lake", "env", "lean", path], cwd=LEAN, capture_output=True, text=True, timeout=1800)
    out = p.stdout + p.stderr
    res = {}
    for m in re.finditer(r"^'(\S+)' depends on axioms: \[([^\]]*)\]", out, re.S | re.M):
        res[m.group(1)] = [a.strip() for a in m.group(2).replace("\n", " ").split(",") if a.strip()]
    for m in re.finditer(r"^'(\S+)' does not depend on any axioms", out, re.M):
        res[m.group(1)] = []
    return res


class Driver:
    """batch line-protocol run of the Lean model"""

    def __init__(self, ctx):
        self.ctx = ctx
        self.total = 0

    def run(self, lines):
        if not lines:
            return []
        inp = os.path.join(self.ctx.scratch, f"ops-{self.total}.txt")
        with open(inp, "w") as f:
            f.write("\n".join(lines) + "\n")
        self.total += 1
        with open(inp) as fin, LakeLock():  # serialised with builds: the driver reads the .olean files
            p = subprocess.run(["lake", "env", "lean", "--run", "Driver/Main.lean"], cwd=LEAN, stdin=fin,
                               capture_output=True, text=True, timeout=3000)
        outs = p.stdout.split("\n")
        if outs and outs[-1] == "":
            outs.pop()
        if p.returncode != 0 or len(outs) != len(lines):
            raise RuntimeError(f"driver failed rc={p.returncode} got {len(outs)} lines for {len(lines)}: "
                               f"{p.stderr[-500:]}")
        os.remove(inp)
        return outs


# ---- known findings ------------------------------------------------------------------
def load_findings():
    p = os.path.join(VERIF, "known_findings.json")
    try:
        return json.load(open(p))
    except FileNotFoundError:
        return {"findings": []}


def match_finding(prop, failure, findings, predicates):
    for e in findings.get("findings", []):
        if e.get("property") != prop or e.get("status", "open") != "open":
            continue
        if e.get("site") != failure.site:
            continue
        if e.get("predicate") is None:
            return e  # site-wide finding
        pred = predicates.get(e.get("predicate"))
        try:
            if pred is not None:
                # a predicate may also look at the failure text (narrower than the input alone): pred(case, what)
                import inspect
                two = len(inspect.signature(pred).parameters) >= 2
                if (pred(failure.case, failure.what) if two else pred(failure.case)):
                    return e
        except Exception:
            continue
    return None


# ---- verdict + evidence --------------------------------------------------------------
def jsonable(o):
    import numpy as np
    if isinstance(o, dict):
        return {str(k): jsonable(v) for k, v in o.items()}
    if isinstance(o, (list, tuple)):
        return [jsonable(v) for v in o]
    if isinstance(o, np.ndarray):
        return jsonable(o.tolist())
    if isinstance(o, (np.integer,)):
        return int(o)
    if isinstance(o, (np.floating,)):
        return float(o)
    if isinstance(o, (np.bool_,)):
        return bool(o)
    if isinstance(o, float) and (o != o or o in (float("inf"), float("-inf"))):
        return repr(o)
    if isinstance(o, (str, int, float, bool)) or o is None:
        return o
    return repr(o)


def finish(ctx: Ctx, level, predicates, rule, assumptions=(), explanation=None):
    findings = load_findings()
    violations = []
    known = {}
    for f in ctx.failures:
        e = match_finding(ctx.prop, f, findings, predicates)
        if e is not None:
            known.setdefault(e["id"], (e, f))
        else:
            violations.append(f)
    # open entries not reproduced: a note, not an alarm
    for e in findings.get("findings", []):
        if e.get("property") == ctx.prop and e.get("status", "open") == "open" and e["id"] not in known \
                and not ctx.replay:
            ctx.note(f"known finding {e['id']} not reproduced in this run")
    for eid, (e, f) in sorted(known.items()):
        print(f"KNOWN-FINDING: property={ctx.prop} {e['site']}: {e['what']} ({eid})")
    os.makedirs(os.path.join(VERIF, "replays"), exist_ok=True)
    seen = set()
    # a failing input on the implementation outranks broken obligations / correspondences
    with_input = [f for f in violations if f.found_input]
    report = with_input if with_input else violations
    nviol = 0
    for f in report:
        key = (f.site, f.what.split(":")[0][:60])
        if key in seen:
            continue
        seen.add(key)
        nviol += 1
        if nviol > 8:
            break
        body = {"property": ctx.prop, "site": f.site, "kind": f.kind, "what": f.what, "case": jsonable(f.case),
                "seed": ctx.seed, "tier": ctx.tier, "found_failing_input": f.found_input,
                "replay_cmd": None}
        h = hashlib.blake2b(json.dumps(body, sort_keys=True).encode(), digest_size=6).hexdigest()
        rel = f"replays/{ctx.prop}-{h}.json"
        body["replay_cmd"] = f"./check {ctx.prop} --replay {rel}"
        if not f.found_input:
            body["no_longer_checks"] = f.what
        with open(os.path.join(VERIF, rel), "w") as fh:
            json.dump(body, fh, indent=1)
        tail = "" if f.found_input else " no-failing-input-found"
        print(f"VIOLATION property={ctx.prop} replay={rel}{tail}")
        print(f"  site={f.site}: {f.what[:300]}")
    nob = len(ctx.obligations)
    ndis = sum(1 for v in ctx.obligations.values() if v)
    cov = {
        "obligations": nob, "discharged": ndis,
        "checker_cmd": ctx.checker_cmd,
        "trusted_base": TRUSTED_BASE,
        "undischarged": sorted(k for k, v in ctx.obligations.items() if not v),
        "theorems": sorted(ctx.obligations),
        "axioms": ctx.axioms,
        "evaluations": ctx.evaluations, "distinct_nontrivial": len(ctx.distinct),
        "rule": rule, "samples": jsonable(ctx.samples) or ["(none)"],
        "strata": ctx.strata, "worst_model_impl_deviation": ctx.worst_dev,
        "known_findings_reproduced": sorted(known), "notes": ctx.notes,
    }
    if explanation:
        cov["explanation"] = explanation
    cov.update(jsonable(ctx.extra))
    ev = {"property_id": ctx.prop, "tier": ctx.tier, "seed": ctx.seed, "level": level, "coverage": cov,
          "assumptions": list(assumptions), "wall_s": round(time.time() - ctx.t0, 2), "violations": nviol}
    if not ctx.replay:
        os.makedirs(os.path.join(VERIF, "evidence"), exist_ok=True)
        with open(os.path.join(VERIF, "evidence", f"{ctx.prop}.json"), "w") as fh:
            json.dump(ev, fh, indent=1)
    ctx.cleanup()
    if nviol == 0:
        print(f"OK property={ctx.prop} tier={ctx.tier} seed={ctx.seed} obligations={ndis}/{nob} "
              f"evaluations={ctx.evaluations} distinct={len(ctx.distinct)} wall={ev['wall_s']}s")
    return 1 if nviol else 0
