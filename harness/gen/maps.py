"""Seeded generators and builders of crystal maps for the codec checks (C13, C14).

A *case* is a JSON-able dict from which `build(case)` constructs a CrystalMap through the public API only
(`CrystalMap(...)`, `Phase`, `PhaseList`, boolean-mask `__getitem__`).  Everything a check predicts is
computed from the case (full grid, mask, values), not from private attributes of the map."""
from __future__ import annotations

from decimal import ROUND_HALF_EVEN, Decimal

import numpy as np

GROUP_NAMES = ['1', '-1', '211', '121', '112', 'm11', '1m1', '11m', '2/m', '222', 'mm2', 'mmm', '4', '-4', '4/m',
               '422', '4mm', '-42m', '4/mmm', '3', '-3', '321', '312', '32', '3m', '-3m', '6', '-6', '6/m', '622',
               '6mm', '-6m2', '6/mmm', '23', 'm-3', '432', '-43m', 'm-3m']
PHASE_NAMES = ["austenite", "ferrite", "Al", "Ni3Al", "sigma", "Fe4Al13", "alpha_Ti", "b2", "TiO2", "ZrO2_t"]
ELEMENTS = ["Al", "Fe", "Ni", "Ti", "O", "C", "Zr", "Cu"]
COLORS = ["tab:blue", "tab:orange", "tab:green", "tab:red", "r", "lime", "xkcd:sky blue", "k"]
PROP_DTYPES = ["float64", "float32", "int64", "int32", "uint8", "bool", "int16", "float16"]


def q(x, nd):
    """the integer k such that `%.{nd}f` of the double x prints k / 10**nd (round-half-even on the exact value)"""
    d = Decimal(float(x)).quantize(Decimal(1).scaleb(-nd), rounding=ROUND_HALF_EVEN)
    return int(d.scaleb(nd))


def unit_quats(rng, n, strata=True):
    qs = rng.normal(size=(n, 4))
    qs /= np.linalg.norm(qs, axis=1)[:, None]
    if strata:
        for i in range(n):
            r = rng.random()
            if r < 0.06:      # Phi = 0 (rotation about z)
                w = rng.uniform(0, 2 * np.pi)
                qs[i] = [np.cos(w / 2), 0, 0, np.sin(w / 2)]
            elif r < 0.10:    # identity
                qs[i] = [1, 0, 0, 0]
            elif r < 0.14:    # negative scalar part
                qs[i, 0] = -abs(qs[i, 0])
    return qs


def phase(rng, pid, names, with_structure=True, pg_pool=None, allow_none=True):
    name = names.pop(int(rng.integers(len(names))))
    r = rng.random()
    sg = pg = None
    if r < 0.35:
        sg = int(rng.integers(1, 231))
    elif r < 0.9 or not allow_none:
        pool = pg_pool or GROUP_NAMES
        pg = pool[int(rng.integers(len(pool)))]
    lat = [round(float(rng.uniform(2, 9)), 3) for _ in range(3)]
    ang = [90.0, 90.0, 90.0]
    t = rng.random()
    if t < 0.25:
        ang = [90.0, 90.0, 120.0]
        lat[1] = lat[0]
    elif t < 0.4:
        ang = [round(float(rng.uniform(70, 110)), 2) for _ in range(3)]
    atoms = []
    if with_structure:
        for _ in range(int(rng.integers(0, 4))):
            atoms.append({"element": ELEMENTS[int(rng.integers(len(ELEMENTS)))],
                          "xyz": [round(float(rng.random()), 4) for _ in range(3)],
                          "occ": round(float(rng.uniform(0.1, 1.0)), 3),
                          "label": "" if rng.random() < 0.5 else f"s{int(rng.integers(9))}",
                          "uiso": 0.0 if rng.random() < 0.5 else round(float(rng.uniform(0.001, 0.05)), 4)})
    return {"id": int(pid), "name": name, "sg": sg, "pg": pg, "lattice": lat + ang, "atoms": atoms,
            "color": COLORS[int(rng.integers(len(COLORS)))]}


def grid_case(rng, shape, axis="x", steps_u=None, nphases=1, not_indexed=0.0, mask=None, k=1, props=(),
              ids=None, pg_pool=None, with_structure=True, allow_none=True):
    """case on the regular grid `shape` ([ny, nx] or [n]); steps in units of 1e-5"""
    n = int(np.prod(shape))
    if steps_u is None:
        steps_u = [int(rng.choice([100000, 50000, 150000, 10000, 25, 123456])) for _ in shape]
    names = list(PHASE_NAMES)
    ids = list(ids) if ids is not None else list(range(nphases))
    phases = [phase(rng, pid, names, with_structure, pg_pool, allow_none) for pid in ids]
    pid = np.array(ids)[rng.integers(len(ids), size=n)] if n else np.zeros(0, int)
    # every phase present at least once when possible
    for j, p in enumerate(ids[:n]):
        pid[j] = p
    rng.shuffle(pid)
    if not_indexed > 0 and n:
        pid = np.where(rng.random(n) < not_indexed, -1, pid)
    quats = unit_quats(rng, n * k)
    case = {"shape": [int(s) for s in shape], "axis": axis, "steps_u": [int(s) for s in steps_u],
            "phases": phases, "phase_id": [int(x) for x in pid], "k": int(k),
            "quats": [[float(c) for c in qq] for qq in quats], "improper": None,
            "props": [], "mask": None if mask is None else [bool(b) for b in mask], "scan_unit": "um"}
    for (name, dtype, pk) in props:
        case["props"].append(prop(rng, name, dtype, n, pk))
    return case


def prop(rng, name, dtype, n, pk=0, kind=None):
    tail = tuple(pk) if isinstance(pk, (list, tuple)) else ((int(pk),) if pk else ())
    m = n * int(np.prod(tail, dtype=int)) if tail else n
    kind = kind or ["unit", "large", "signed", "small"][int(rng.integers(4))]
    if dtype == "bool":
        vals = [bool(b) for b in rng.integers(0, 2, size=m)]
    elif dtype.startswith("uint"):
        vals = [int(v) for v in rng.integers(0, 250, size=m)]
    elif dtype.startswith("int"):
        vals = [int(v) for v in rng.integers(-3000, 3000, size=m)]
    else:
        if kind == "unit":
            v = rng.random(m)
        elif kind == "large":
            v = rng.uniform(1e2, 3e5, size=m)
        elif kind == "signed":
            v = rng.normal(scale=30.0, size=m)
        else:
            v = rng.uniform(0, 2e-4, size=m)
        if dtype == "float16":
            v = np.clip(v, -6e4, 6e4)
        vals = [float(x) for x in np.asarray(v, dtype=dtype).astype(float)]
    return {"name": name, "dtype": dtype, "k": [int(x) for x in pk] if isinstance(pk, (list, tuple)) else int(pk), "vals": vals}


def coords(case):
    """(y, x) coordinate arrays of the full grid, as the public helper builds them"""
    from orix.crystal_map import create_coordinate_arrays
    shape = tuple(case["shape"])
    su = case["steps_u"]

    def step(u):  # an int when the step is a whole number, like users write (1, 2) or (0.5, 0.5)
        return u // 100000 if u % 100000 == 0 else float(Decimal(u).scaleb(-5))

    if len(shape) == 2:
        d, n = create_coordinate_arrays(shape, (step(su[0]), step(su[1])))
        return d["y"], d["x"]
    d, n = create_coordinate_arrays(shape, (step(su[0]),))
    if case["axis"] == "x":
        return None, d["x"]
    return d["x"], None


def structure_of(p):
    from diffpy.structure import Atom, Lattice, Structure
    atoms = []
    for a in p["atoms"]:
        kw = {}
        if a.get("uiso"):
            kw["Uisoequiv"] = a["uiso"]
        atoms.append(Atom(a["element"], xyz=a["xyz"], occupancy=a["occ"], label=a["label"] or None, **kw))
    return Structure(atoms=atoms, lattice=Lattice(*p["lattice"]))


def build(case):
    """CrystalMap of the case (public API only)"""
    from orix.crystal_map import CrystalMap, Phase, PhaseList
    from orix.quaternion import Rotation
    n = int(np.prod(case["shape"]))
    k = case["k"]
    qs = np.array(case["quats"], float).reshape((n, 4) if k == 1 and not case.get("rot2d") else (n, k, 4))
    rot = Rotation(qs)
    if case.get("improper"):
        rot.improper = np.array(case["improper"], bool).reshape(rot.shape)
    y, x = coords(case)
    pl = {}
    for p in case["phases"]:
        pl[p["id"]] = Phase(name=p["name"], space_group=p["sg"], point_group=p["pg"], structure=structure_of(p),
                            color=p["color"])
    props = {}
    for pr in case["props"]:
        a = np.array(pr["vals"], dtype=pr["dtype"])
        tail = tuple(pr["k"]) if isinstance(pr["k"], (list, tuple)) else ((pr["k"],) if pr["k"] else ())
        props[pr["name"]] = a.reshape((n,) + tail) if tail else a
    kw = {}
    if "scan_unit" in case:
        kw["scan_unit"] = case["scan_unit"]
    xmap = CrystalMap(rotations=rot, phase_id=np.array(case["phase_id"], int), x=x, y=y,
                      phase_list=PhaseList(pl) if pl else None, prop=props, **kw)
    if case.get("mask") is not None:
        xmap = xmap[np.array(case["mask"], bool)]
    for p in case.get("extra_phases", []):   # a phase in the list without points (public API: PhaseList.add)
        xmap.phases.add(Phase(name=p["name"], space_group=p["sg"], point_group=p["pg"], structure=structure_of(p),
                              color=p["color"]))
    if case.get("add_not_indexed"):
        xmap.phases.add_not_indexed()
    if case.get("ni_color"):
        xmap.phases[-1].color = case["ni_color"]
    return xmap


def view(case):
    """row-major index list of the in-data extent the writers see: (oneD, nrows, ncols, [full-grid index])"""
    shape = case["shape"]
    n = int(np.prod(shape))
    mask = np.ones(n, bool) if case.get("mask") is None else np.array(case["mask"], bool)
    if len(shape) == 1:
        idx = np.nonzero(mask)[0]
        lo, hi = int(idx.min()), int(idx.max())
        return True, 1, hi - lo + 1, list(range(lo, hi + 1))
    ny, nx = shape
    rr, cc = np.nonzero(mask.reshape(ny, nx))
    r0, r1, c0, c1 = int(rr.min()), int(rr.max()), int(cc.min()), int(cc.max())
    degenerate_y = ny == 1
    degenerate_x = nx == 1
    rows = range(r0, r1 + 1)
    cols = range(c0, c1 + 1)
    full = [r * nx + c for r in rows for c in cols]
    if degenerate_y or degenerate_x:
        # CrystalMap reports a 1-D shape when one coordinate has a single value over the whole grid
        return True, 1, len(full), full
    return False, len(rows), len(cols), full
