"""Token wire format of the `codec` driver op (see lean/Driver/Ops/Codec.lean) and JSON helpers."""
from __future__ import annotations

import json


def t_str(s):
    cps = [ord(c) for c in s]
    return [len(cps)] + cps


def t_list(xs, f):
    out = [len(xs)]
    for x in xs:
        out.extend(f(x))
    return out


def t_opt(x, f):
    return [0] if x is None else [1] + list(f(x))


def t_int(x):
    return [int(x)]


def t_bool(b):
    return [1 if b else 0]


def line(sub, toks):
    return f"codec {sub} " + " ".join(str(int(t)) for t in toks)


def s_of(cps):
    """code points → str (None stays None)"""
    return None if cps is None else "".join(chr(c) for c in cps)


def parse(out):
    if out.startswith("!err"):
        return {"err": out}
    return json.loads(out)


def t_phaseinfo(p):
    """{id, name, pg, sg, lat (ints), atoms [(el, [xyz strs], occ)]}"""
    return (t_int(p["id"]) + t_str(p["name"]) + t_opt(p.get("pg"), t_str) + t_opt(p.get("sg"), t_int)
            + t_list(p.get("lat", []), t_int)
            + t_list(p.get("atoms", []), lambda a: t_str(a["el"]) + t_list(a["xyz"], t_str) + t_int(a["occ"])))
