"""Crystal-map cases for C11/C12: a tiny pure-Python set-semantics reference, seeded generators of grids,
masks, keys and histories, encoders for the Lean driver's `xmap` op and builders of the orix objects.

A case is a JSON-able dict.  Keys of `CrystalMap.__getitem__` are encoded as
  {"t": "idx", "k": [ix, ...], "bare": bool}   ix = int | [start, stop, step] (None allowed)
  {"t": "mask", "m": [0/1, ...]}
  {"t": "names", "k": [str, ...], "bare": bool}
"""
from __future__ import annotations

import numpy as np

NAMES = ["al", "fe", "cu", "ni", "zr"]
SYMS = ["m-3m", "432", "6/mmm", "mmm", "-1", "4/m", "3m"]


# ---------------------------------------------------------------------------------------------------
# reference: a map IS a finite set of original point ids on an ny x nx grid
# ---------------------------------------------------------------------------------------------------
class RefError(Exception):
    """the reference leaves the result undefined (bounding box of no points, index outside the map, …)"""


class Ref:
    def __init__(self, ny, nx, pid, phases, S):
        self.ny, self.nx, self.pid, self.phases = ny, nx, list(pid), [tuple(p) for p in phases]
        self.S = sorted(S)

    def axes(self):
        ax = []
        if self.ny > 1:
            ax.append(lambda p: p // self.nx)
        if self.nx > 1:
            ax.append(lambda p: p % self.nx)
        return ax

    def bbox(self):
        if not self.S:
            raise RefError("empty")
        return [(min(a(p) for p in self.S), max(a(p) for p in self.S) + 1) for a in self.axes()]

    def shape(self):
        return tuple(hi - lo for lo, hi in self.bbox())

    def rows(self):
        if not self.S:
            raise RefError("empty")
        r = [p // self.nx for p in self.S]
        return [x - min(r) for x in r]

    def cols(self):
        if not self.S:
            raise RefError("empty")
        c = [p % self.nx for p in self.S]
        return [x - min(c) for x in c]

    def select(self, key):
        """returns the new Ref; raises RefError where set semantics gives no answer"""
        t = key["t"]
        if t == "mask":
            m = key["m"]
            if len(m) == 1:
                m = m * len(self.S)
            if len(m) != len(self.S):
                raise RefError("mask length")
            T = [p for p, b in zip(self.S, m) if b]
        elif t == "names":
            T = []
            for p in self.S:
                hit = False
                for k in key["k"]:
                    for (i, name) in self.phases:
                        if k == name:
                            hit = hit or self.pid[p] == i
                        elif k.lower() == "indexed":
                            hit = hit or self.pid[p] != -1
                if hit:
                    T.append(p)
        else:
            ks = key["k"]
            box = self.bbox()
            if len(ks) > len(box):
                raise RefError("too many indices")
            picks = []
            for d, (lo, hi) in enumerate(box):
                k = ks[d] if d < len(ks) else [None, None, None]
                L = hi - lo
                try:
                    if isinstance(k, int):
                        picks.append({range(L)[k]})
                    else:
                        picks.append(set(range(L)[slice(*k)]))
                except (IndexError, ValueError) as e:
                    raise RefError(str(e))
            ax = self.axes()
            T = [p for p in self.S if all(ax[d](p) - box[d][0] in picks[d] for d in range(len(ax)))]
        return Ref(self.ny, self.nx, self.pid, self.phases, T)


# ---------------------------------------------------------------------------------------------------
# encoders for the driver
# ---------------------------------------------------------------------------------------------------
def ints(xs):
    xs = list(xs)
    return ",".join(str(int(x)) for x in xs) if xs else "-"


def bits(xs):
    xs = list(xs)
    return "".join("1" if x else "0" for x in xs) if xs else "-"


def enc_ix(k):
    if isinstance(k, int):
        return str(k)
    return ":".join("" if v is None else str(v) for v in k)


def enc_key(key):
    if key["t"] == "idx":
        return "I" + ";".join(enc_ix(k) for k in key["k"])
    if key["t"] == "mask":
        return "B" + "".join("1" if x else "0" for x in key["m"])
    return "N" + ";".join(key["k"])


def enc_phase(name, sym, tag):
    return f"{name}~{sym or ''}~{tag}"


def enc_entries(entries):
    """entries: [(id, name, sym, tag)]"""
    return "&".join(f"{i}~{enc_phase(n, s, t)}" for (i, n, s, t) in entries) if entries else "-"


def enc_props(props):
    return "&".join(f"{k}={ints(v)}" for k, v in props.items()) if props else "-"


def py_key(key):
    """the Python object passed to __getitem__"""
    if key["t"] == "mask":
        return np.array(key["m"], dtype=bool)
    if key["t"] == "names":
        return key["k"][0] if key.get("bare") and len(key["k"]) == 1 else tuple(key["k"])
    ks = tuple(k if isinstance(k, int) else slice(*k) for k in key["k"])
    return ks[0] if key.get("bare") and len(ks) == 1 else ks


def classify_exc(e):
    """map an exception raised by orix/numpy to the model's error enumeration"""
    s = str(e)
    if isinstance(e, IndexError):
        if "list assignment" in s:
            return "too-many-indices"
        if "out of bounds" in s:
            return "index-out-of-bounds"
        return "IndexError:" + s[:60]
    if isinstance(e, ValueError):
        if "zero-size array" in s:
            return "empty-reduction"
        if "slice step cannot be zero" in s:
            return "zero-step"
        if "shape mismatch" in s or "could not be broadcast" in s or "cannot assign" in s:
            return "shape-mismatch"
        if "not enough values to unpack" in s:
            return "degenerate"
        if "already in the phase list" in s:
            return "duplicate-name"
        if "only permits one phase" in s:
            return "not-one-phase"
        return "ValueError:" + s[:60]
    if isinstance(e, TypeError) and "expected a sequence of integers" in s:
        return "degenerate"
    if isinstance(e, KeyError):
        return "key-error"
    return type(e).__name__ + ":" + s[:60]


# ---------------------------------------------------------------------------------------------------
# orix builders
# ---------------------------------------------------------------------------------------------------
def coords(c):
    ny, nx = c["ny"], c["nx"]
    x = np.tile(c["ox"] + np.arange(nx) * c["dx"], ny)
    y = np.repeat(c["oy"] + np.arange(ny) * c["dy"], nx)
    return x, y


def rotations(c):
    from orix.quaternion import Rotation
    n = c["ny"] * c["nx"]
    k = c.get("nrot", 1)
    rng = np.random.default_rng(c.get("rot_seed", 0))
    d = rng.normal(size=(n, k, 4)) if k > 1 else rng.normal(size=(n, 4))
    d /= np.linalg.norm(d, axis=-1, keepdims=True)
    return Rotation(d)


def phase_list_exact(c):
    """PhaseList whose ids are exactly the non-negative ids of the data (C11: reconciliation is the identity)"""
    from orix.crystal_map import PhaseList
    ph = c["phases"]
    if not ph:
        return None
    return PhaseList(names=[p[1] for p in ph], point_groups=[p[2] for p in ph], ids=[p[0] for p in ph])


def build_map(c, phase_list="exact"):
    from orix.crystal_map import CrystalMap
    x, y = coords(c)
    if c.get("y_none") and c["ny"] == 1:
        y = None
    if c.get("x_none") and c["nx"] == 1:
        x = None
    if x is None and y is None:
        x = np.zeros(c["ny"] * c["nx"])
    pl = phase_list_exact(c) if phase_list == "exact" else phase_list
    kw = {}
    if not all(c["mask"]):
        kw["is_in_data"] = np.array(c["mask"], dtype=bool)
    elif c.get("mask_explicit"):
        kw["is_in_data"] = np.array(c["mask"], dtype=bool)
    return CrystalMap(rotations(c), phase_id=np.array(c["pid"]), x=x, y=y, phase_list=pl,
                      prop={k: np.array(v) for k, v in c["props"].items()}, **kw)


def c11_phase_entries(c):
    e = [(p[0], p[1], p[2], 0) for p in sorted(c["phases"])]
    if -1 in c["pid"]:
        e = [(-1, "not_indexed", None, 0)] + e
    return e


# ---------------------------------------------------------------------------------------------------
# generators
# ---------------------------------------------------------------------------------------------------
def gen_grid(rng, tier, kind=None):
    kinds = ["2d"] * 8 + ["row", "row", "col", "col", "1d", "1d", "thin", "thin", "one"]
    kind = kind or kinds[rng.integers(len(kinds))]
    big = 7 if tier == "quick" else 9
    if kind == "2d":
        ny, nx = int(rng.integers(2, big + 1)), int(rng.integers(2, big + 1))
    elif kind == "thin":
        ny, nx = (2, int(rng.integers(2, big + 3))) if rng.integers(2) else (int(rng.integers(2, big + 3)), 2)
    elif kind == "row":
        ny, nx = 1, int(rng.integers(2, 2 * big))
    elif kind == "col":
        ny, nx = int(rng.integers(2, 2 * big)), 1
    elif kind == "1d":
        ny, nx = 1, int(rng.integers(2, 2 * big))
    else:
        ny, nx = 1, 1
    g = {"ny": ny, "nx": nx, "kind": kind}
    if kind == "1d":
        g["y_none"] = True
    gk = ["unit", "origin", "dyadic", "decimal", "decimal", "big"][rng.integers(6)]
    if gk == "unit":
        geo = (0.0, 0.0, 1.0, 1.0)
    elif gk == "origin":
        geo = (float(rng.integers(-20, 50)), float(rng.integers(-20, 50)), 1.0, 1.0)
    elif gk == "dyadic":
        st = [0.25, 0.5, 1.5, 2.0, 3.0, 0.125]
        geo = (float(rng.integers(-8, 9)) / 4, float(rng.integers(-8, 9)) / 4, st[rng.integers(6)], st[rng.integers(6)])
    elif gk == "decimal":
        st = [0.1, 0.3, 0.7, 1.1, 0.05, 2.5e-3, 17.3]
        geo = (round(float(rng.uniform(-30, 30)), 2), round(float(rng.uniform(-30, 30)), 2), st[rng.integers(7)],
               st[rng.integers(7)])
    else:
        geo = (float(rng.integers(1000, 100000)) + 0.3, -float(rng.integers(1000, 100000)) - 0.7,
               [0.1, 1.0, 0.35][rng.integers(3)], [0.1, 1.0, 0.35][rng.integers(3)])
    g["oy"], g["ox"], g["dy"], g["dx"] = geo
    g["geom"] = gk
    return g


def gen_pid(rng, n):
    """phase-id pattern and the phases (id, name, sym) with ids exactly those of the data"""
    pat = ["single", "two", "three", "with-1", "all-1", "sparse", "blocks"][rng.integers(7)]
    if pat == "single":
        pid = [0] * n
    elif pat == "two":
        pid = [int(v) for v in rng.integers(0, 2, n)]
    elif pat == "three":
        pid = [int(v) for v in rng.integers(0, 3, n)]
    elif pat == "with-1":
        pid = [int(v) for v in rng.integers(-1, 3, n)]
    elif pat == "all-1":
        pid = [-1] * n
    elif pat == "sparse":
        pool = sorted(set(int(v) for v in rng.integers(0, 12, 3)))
        pid = [pool[rng.integers(len(pool))] for _ in range(n)]
    else:
        k = max(1, n // 3)
        pid = ([1] * k + [2] * k + [-1] * n)[:n]
    ids = sorted(set(pid) - {-1})
    names = list(rng.permutation(NAMES))[:len(ids)]
    if len(ids) and rng.integers(4) == 0:
        names[rng.integers(len(ids))] = ""           # a missing name
    phases = [[i, str(nm), (SYMS[rng.integers(len(SYMS))] if rng.integers(4) else None)] for i, nm in zip(ids, names)]
    return pid, phases, pat


def gen_mask(rng, n, p=None):
    p = rng.choice([0.3, 0.6, 0.85]) if p is None else p
    return [int(v) for v in (rng.random(n) < p)]


def gen_slice(rng, L, style=None):
    style = style or ["plain", "plain", "open", "neg", "step", "negstep", "wide", "empty"][rng.integers(8)]
    L = max(L, 1)
    if style == "plain":
        a = int(rng.integers(0, L))
        b = int(rng.integers(a, L + 1))
        return [a, b, None], style
    if style == "open":
        return [[None, int(rng.integers(0, L + 1)), None], [int(rng.integers(0, L)), None, None],
                [None, None, None]][rng.integers(3)], style
    if style == "neg":
        return [int(rng.integers(-L - 1, 0)), [None, int(rng.integers(-L, 1))][rng.integers(2)], None], style
    if style == "step":
        return [[None, int(rng.integers(0, L))][rng.integers(2)], None, int(rng.integers(2, 4))], style
    if style == "negstep":
        return [[None, int(rng.integers(-L, L))][rng.integers(2)], [None, int(rng.integers(-L - 2, L))][rng.integers(2)],
                -int(rng.integers(1, 3))], style
    if style == "wide":
        return [int(rng.integers(-3 * L, 0)), int(rng.integers(L, 3 * L + 1)), None], style
    a = int(rng.integers(0, L + 2))
    return [a, a, None], style


def gen_idx_key(rng, ref, err_ok=True):
    """a slice/int/tuple key for the current reference map; returns (key, stratum)"""
    try:
        shp = ref.shape()
    except RefError:
        shp = tuple(2 for _ in ref.axes())
    nd = len(shp)
    r = rng.integers(100)
    if err_ok and r < 4:
        return {"t": "idx", "k": [0] * (nd + 1), "bare": False}, "idx/too-many"
    if err_ok and r < 8 and nd:
        d = int(rng.integers(nd))
        ks = [[None, None, None] for _ in range(nd)]
        ks[d] = int(shp[d] + rng.integers(0, 3)) if rng.integers(2) else int(-shp[d] - 1 - rng.integers(0, 3))
        return {"t": "idx", "k": ks[:d + 1] if rng.integers(2) else ks, "bare": False}, "idx/out-of-bounds"
    if err_ok and r < 10 and nd:
        d = int(rng.integers(nd))
        ks = [[None, None, None] for _ in range(nd)]
        ks[d] = [None, None, 0]
        return {"t": "idx", "k": ks, "bare": False}, "idx/zero-step"
    nk = int(rng.integers(1, nd + 1)) if nd else 1
    ks, tags = [], []
    for d in range(nk):
        L = shp[d] if nd else 1
        if rng.integers(4) == 0:
            i = int(rng.integers(-L, L)) if L else 0
            ks.append(i)
            tags.append("negint" if i < 0 else "int")
        else:
            s, st = gen_slice(rng, L)
            ks.append(s)
            tags.append(st)
    bare = bool(nk == 1 and rng.integers(2))
    return {"t": "idx", "k": ks, "bare": bare}, "idx/" + "+".join(sorted(set(tags)))


def gen_mask_key(rng, ref, nxt=None, err_ok=True):
    n = len(ref.S)
    r = rng.integers(100)
    if err_ok and r < 5:
        return {"t": "mask", "m": gen_mask(rng, n + int(rng.integers(2, 4)))}, "mask/wrong-length"
    if r < 9:
        return {"t": "mask", "m": [int(rng.integers(2))]}, "mask/length-1"
    if r < 14:
        return {"t": "mask", "m": [0] * n}, "mask/none"
    if r < 40 and n:
        # knock out points *inside* the bounding box (so that a later slice would cover them)
        try:
            rows, cols = ref.rows(), ref.cols()
            m = [1] * n
            h, w = max(rows) + 1, max(cols) + 1
            for j in range(n):
                inside = (0 < rows[j] < h - 1 or h <= 2) and (0 < cols[j] < w - 1 or w <= 2)
                if inside and rng.random() < 0.5:
                    m[j] = 0
            return {"t": "mask", "m": m}, "mask/holes-inside"
        except RefError:
            pass
    if r < 55 and n:
        # keep only a sub-block / remove border points (bounding box shrinks)
        rows, cols = ref.rows(), ref.cols()
        h, w = max(rows) + 1, max(cols) + 1
        r0, c0 = int(rng.integers(0, h)), int(rng.integers(0, w))
        m = [int(rows[j] >= r0 and cols[j] >= c0 and rng.random() < 0.8) for j in range(n)]
        return {"t": "mask", "m": m}, "mask/shrinks-box"
    return {"t": "mask", "m": gen_mask(rng, n)}, "mask/random"


def gen_names_key(rng, ref):
    r = rng.integers(100)
    names = [nm for (_, nm) in ref.phases]
    if r < 25:
        return {"t": "names", "k": ["indexed"], "bare": bool(rng.integers(2))}, "names/indexed"
    if r < 35:
        return {"t": "names", "k": ["not_indexed"], "bare": bool(rng.integers(2))}, "names/not_indexed"
    if r < 42:
        return {"t": "names", "k": [["Indexed", "INDEXED"][rng.integers(2)]], "bare": True}, "names/indexed-case"
    if r < 50:
        return {"t": "names", "k": ["nosuchphase"], "bare": True}, "names/unknown"
    if names and r < 80:
        return {"t": "names", "k": [names[rng.integers(len(names))]], "bare": bool(rng.integers(2))}, "names/one"
    if names and rng.integers(4) == 0:
        # both keywords in either order, alone or around a phase name: the union must not depend on the order
        k = ["not_indexed", "indexed"] + ([names[rng.integers(len(names))]] if rng.integers(2) else [])
        k = [k[i] for i in rng.permutation(len(k))]
        return {"t": "names", "k": k, "bare": False}, "names/tuple-keywords"
    if names:
        k = [names[rng.integers(len(names))] for _ in range(int(rng.integers(2, 4)))]
        if rng.integers(3) == 0:
            k[rng.integers(len(k))] = ["indexed", "not_indexed", "nosuchphase"][rng.integers(3)]
        return {"t": "names", "k": k, "bare": False}, "names/tuple"
    return {"t": "names", "k": ["indexed", "not_indexed"], "bare": False}, "names/tuple"


def gen_history(rng, ref, length, err_ok=True):
    """keys applied one after the other, tracked with the reference (a failing step leaves the map as is)"""
    keys, strata = [], []
    cur = ref
    for _ in range(length):
        r = rng.integers(100)
        if r < 50:
            key, st = gen_idx_key(rng, cur, err_ok)
        elif r < 82:
            key, st = gen_mask_key(rng, cur, err_ok=err_ok)
        else:
            key, st = gen_names_key(rng, cur)
        keys.append(key)
        strata.append(st)
        try:
            cur = cur.select(key)
        except RefError:
            pass
    return keys, strata


def gen_c11_case(rng, tier, kind=None, length=None):
    g = gen_grid(rng, tier, kind)
    n = g["ny"] * g["nx"]
    pid, phases, pat = gen_pid(rng, n)
    mask = [1] * n if rng.integers(3) else gen_mask(rng, n, 0.8)
    if not any(mask):
        mask[int(rng.integers(n))] = 1
    props = {}
    for nm in ["iq", "dp", "ci"][:int(rng.integers(0, 4))]:
        props[nm] = [int(v) for v in rng.integers(-50, 50, n)]
    c = dict(g)
    c.update({"pid": pid, "phases": phases, "pid_pattern": pat, "mask": mask, "props": props,
              "nrot": int(rng.choice([1, 1, 2, 3])), "rot_seed": int(rng.integers(1 << 30))})
    maxlen = 6 if tier == "quick" else 12
    L = int(rng.integers(1, maxlen + 1)) if length is None else length
    ref = Ref(g["ny"], g["nx"], pid, [(e[0], e[1]) for e in c11_phase_entries(c)], [p for p in range(n) if mask[p]])
    c["keys"], strata = gen_history(rng, ref, L)
    return c, strata
