"""Seeded stratified generators for quaternions, vectors and shapes."""
from __future__ import annotations

import numpy as np

PYTH = [(1, 2, 2, 4, 5), (2, 3, 6, 0, 7), (1, 4, 8, 0, 9), (2, 4, 5, 6, 9), (1, 1, 1, 1, 2), (0, 3, 4, 0, 5),
        (2, 6, 9, 0, 11), (1, 2, 4, 10, 11), (3, 4, 12, 0, 13), (2, 2, 3, 8, 9)]


def unit_quat(rng, stratum=None):
    """returns (q as list of 4 floats, stratum name)"""
    strata = ["haar", "haar", "haar", "lower", "near0", "nearpi", "pi", "axis", "plane", "pyth", "identity"]
    s = stratum or strata[rng.integers(len(strata))]
    if s == "identity":
        q = np.array([1.0, 0, 0, 0]) * rng.choice([-1, 1])
    elif s == "pyth":
        p = PYTH[rng.integers(len(PYTH))]
        v = np.array(p[:4], float) * rng.choice([-1, 1], 4)
        rng.shuffle(v)
        q = v / p[4]
    else:
        q = rng.normal(size=4)
        if s == "lower":
            q[0] = -abs(q[0])
        elif s == "near0":
            e = 10.0 ** -rng.integers(3, 13)
            ax = rng.normal(size=3)
            ax /= np.linalg.norm(ax)
            q = np.concatenate([[np.cos(e / 2)], np.sin(e / 2) * ax]) * rng.choice([-1, 1])
        elif s == "nearpi":
            e = 10.0 ** -rng.integers(3, 13)
            ax = rng.normal(size=3)
            ax /= np.linalg.norm(ax)
            w = np.pi - e
            q = np.concatenate([[np.cos(w / 2)], np.sin(w / 2) * ax]) * rng.choice([-1, 1])
        elif s == "pi":
            q[0] = 0.0
            if rng.random() < 0.5:
                q[1 + rng.integers(3)] = 0.0
        elif s == "axis":
            w = rng.uniform(0, 2 * np.pi)
            ax = np.zeros(3)
            ax[rng.integers(3)] = rng.choice([-1, 1])
            q = np.concatenate([[np.cos(w / 2)], np.sin(w / 2) * ax])
        elif s == "plane":
            q[1 + rng.integers(3)] = 0.0
        q = q / np.linalg.norm(q)
    return [float(x) for x in q], s


def int_quat(rng, lo=-4, hi=5):
    while True:
        q = rng.integers(lo, hi, size=4)
        if np.any(q != 0):
            return [int(x) for x in q]


def vec(rng):
    s = rng.integers(5)
    if s == 0:
        v = np.zeros(3)
        v[rng.integers(3)] = rng.choice([-1.0, 1.0])
    elif s == 1:
        v = rng.integers(-5, 6, size=3).astype(float)
        if not np.any(v):
            v[0] = 1.0
    else:
        v = rng.normal(size=3) * 10.0 ** rng.integers(-2, 3)
    return [float(x) for x in v]


SHAPES = [(), (1,), (2,), (3,), (1, 1), (2, 1), (1, 3), (2, 3), (0,), (2, 0), (2, 1, 2)]


def shape(rng, allow_empty=True, allow_scalar=False):
    while True:
        s = SHAPES[rng.integers(len(SHAPES))]
        if s == () and not allow_scalar:
            continue
        if 0 in s and not allow_empty:
            continue
        return tuple(s)


def broadcast_pair(rng):
    """two shapes that broadcast against each other"""
    base = [int(x) for x in rng.integers(1, 4, size=rng.integers(1, 4))]
    a, b = list(base), list(base)
    for i in range(len(base)):
        r = rng.random()
        if r < 0.25:
            a[i] = 1
        elif r < 0.5:
            b[i] = 1
    if rng.random() < 0.3 and len(b) > 1:
        b = b[1:]
    elif rng.random() < 0.3 and len(a) > 1:
        a = a[1:]
    return tuple(a), tuple(b)
