"""Renderers of vendor files for C15: a *format record* (JSON from the Lean model's `encodeᵥ m`) is rendered
to a real file following the layouts documented in the reader docstrings / produced by the repository's own
fixtures (no test code is imported).  Whitespace, field order of free header lines and number formatting are
varied within what the format allows, driven by the case's `layout` seed.  Harness glue: listed in the
trusted base; a rendering mistake shows up as a disagreement with the model, never hides one."""
from __future__ import annotations

from decimal import Decimal

import numpy as np

from . import codecwire as W


def dec(k, nd, min_dec=None):
    """decimal text of the integer k in units of 10**-nd (trailing zeros optionally trimmed)"""
    s = f"{Decimal(int(k)).scaleb(-nd):f}"
    if "." not in s and nd:
        s += "." + "0" * nd
    if min_dec is not None and "." in s:
        head, tail = s.split(".")
        tail = tail.rstrip("0")
        tail = tail + "0" * max(0, min_dec - len(tail))
        s = head + ("." + tail if tail else "")
    return s


# ---------------- .ang ---------------------------------------------------------------------
ANG_OTHER = {
    "tsl": ["# TEM_PIXperUM          1.000000", "# x-star                0.413900", "# y-star                0.729100",
            "# z-star                0.514900", "# WorkingDistance       27.100000", "#", "# Info",
            "# NumberFamilies        69", "# hklFamilies   \t 1 -1 -1 1 8.469246 1",
            "# ElasticConstants \t-1.000000 -1.000000 -1.000000 -1.000000 -1.000000 -1.000000",
            "# Categories0 0 0 0 0 ", "#", "# GRID: SqrGrid", "# XSTEP: {dx}", "# YSTEP: {dy}", "# NCOLS_ODD: {nx}",
            "# NCOLS_EVEN: {nx}", "# NROWS: {ny}", "#", "# OPERATOR: \tsem", "#", "# SAMPLEID: \t", "#", "# SCANID: \t", "#"],
    "emsoft": ["# TEM_PIXperUM          1.000000", "# x-star                 0.446667", "# y-star                 0.586875",
               "# z-star                 0.713450", "# WorkingDistance        0.000000", "#",
               "# NumberFamilies        0", "# GRID: SqrGrid", "# XSTEP:  {dx}", "# YSTEP:  {dy}", "# NCOLS_ODD:   {nx}",
               "# NCOLS_EVEN:   {nx}", "# NROWS:   {ny}", "#", "# OPERATOR:   Hakon Wiik Anes", "#", "# SAMPLEID:", "#",
               "# SCANID:", "#"],
    "astar": ["# ni-dislocations.res", "#", "#", "# NumberFamilies    4", "# hklFamilies       1  1  1 1 0.000000",
              "# hklFamilies       2  0  0 1 0.000000", "#", "# GRID: SqrGrid#"],
}
ANG_MARK = {"emsoft": "# Info          patterns indexed using EMsoft::EMEBSDDI", "astar": "# File created from ACOM RES results"}


def render_ang(path, f, fmt, layout, grid):
    """f: AngFile JSON; fmt: tsl|tslwide|emsoft|astar; layout: dict(sep, ws, min_dec); grid: dict(nx, ny, dx, dy)"""
    fam = "tsl" if fmt.startswith("tsl") else fmt
    pool = [l.format(**grid) for l in ANG_OTHER[fam]]
    k = 0
    ws = layout.get("ws", "    ")
    out = []
    for l in f["header"]:
        t = l["t"]
        if t == "other":
            out.append(pool[k % len(pool)])
            k += 1
        elif t == "mark":
            out.append(ANG_MARK[l["v"]])
        elif t == "phase":
            out.append(f"# Phase{ws[:1] or ' '}{l['id']}")
        elif t == "name":
            out.append("# MaterialName" + ws + (layout.get("tok", " ")).join(W.s_of(x) for x in l["toks"]))
        elif t == "formula":
            toks = [W.s_of(x) for x in l["toks"]]
            out.append(("# Formula" + ws + " ".join(toks)) if toks else "# Formula")
        elif t == "sym":
            out.append("# Symmetry" + ws + W.s_of(l["s"]))
        elif t == "lat":
            out.append("# LatticeConstants" + ws + " ".join(dec(v, 3) for v in l["v"]))
        elif t == "cols":
            out.append("# Column names: " + ", ".join(W.s_of(x) for x in l["names"]))
        elif t == "grid":
            out.append(f"# {W.s_of(l['k'])}: {l['v']}")
    phase_col = layout["phase_col"]
    sep = layout.get("sep", "  ")
    lead = layout.get("lead", " ")
    for r in f["rows"]:
        cells = []
        for j, v in enumerate(r):
            cells.append(str(int(v)) if j == phase_col else dec(v, 5, layout.get("min_dec")))
        out.append(lead + sep.join(cells))
    with open(path, "w") as fh:
        fh.write("\n".join(out) + "\n")


# ---------------- .ctf ---------------------------------------------------------------------
def render_ctf(path, f, fmt, layout, nd):
    """f: CtfFile JSON; fmt: oxford|bruker|emsoft|astar|mtex; nd: decimals of the integer unit"""
    comma = fmt == "bruker"

    def num(k, min_dec=None):
        s = dec(k, nd, min_dec if min_dec is not None else 0)
        return s.replace(".", ",") if comma else s

    def lat_num(k):
        t = dec(k, 3, 1)
        return t.replace(".", ",") if comma else t

    prj = {"oxford": "Prj\tstandard steel sample", "bruker": "Prj unnamed", "astar": "Prj\tC:\\some\\where\\scan.res",
           "emsoft": "EMsoft v. 4_1_1_9d5269a; BANDS=pattern index, MAD=CI, BC=OSM, BS=IQ", "mtex": "Prj /some/where/mtex.ctf"}[fmt]
    author = {"oxford": "Author\t", "bruker": "Author\t[Unknown]", "astar": "Author\tFile created from ACOM RES results",
              "emsoft": "Author\tMe", "mtex": "Author\tMe Again"}[fmt]
    pad = "  " if fmt == "emsoft" else ""
    lines = ["Channel Text File", prj, author, "JobMode\tGrid",
             f"XCells\t{pad}{f['xcells']}", f"YCells\t{pad}{f['ycells']}",
             f"XStep\t{pad}{num(f['xstep'])}", f"YStep\t{pad}{num(f['ystep'])}",
             "AcqE1\t0", "AcqE2\t0", "AcqE3\t0",
             "Euler angles refer to Sample Coordinate system (CS0)!\tMag\t180.0000\tCoverage\t97\tDevice\t0\tKV\t20.0000"
             "\tTiltAngle\t70.0010\tTiltAxis\t0", f"Phases\t{f['nphases']}"]
    if layout.get("swap_free_lines"):
        lines[1], lines[2] = lines[2], lines[1]
    for p in f["phases"]:
        lat = p["lat"]
        a = ";".join(lat_num(v) for v in lat[:3])
        b = ";".join(lat_num(v) for v in lat[3:])
        tail = "\t\t\tCreated from mtex" if fmt == "mtex" else ("\t\t\tSome reference" if layout.get("refs") else "")
        lines.append(f"{a}\t{b}\t{W.s_of(p['name'])}\t{p['laue']}\t{p['sg']}{tail}")
    lines.append("Phase\tX\tY\tBands\tError\tEuler1\tEuler2\tEuler3\tMAD\tBC\tBS")
    unit = 10 ** nd
    sep = layout.get("sep", "\t")
    for r in f["rows"]:
        cells = []
        for j, v in enumerate(r):
            if j == 0:
                cells.append(str(int(v)))
            elif j in (3, 4, 9, 10) and v % unit == 0:
                cells.append(str(int(v) // unit))
            else:
                cells.append(dec(v, nd, 1))
        lines.append(sep.join(cells))
    with open(path, "w") as fh:
        fh.write("\n".join(lines) + "\n")


# ---------------- Bruker h5ebsd ----------------------------------------------------------------
BRUKER_DTYPES = {"DD": "float32", "MAD": "float32", "MADPhase": "int32", "NIndexedBands": "int32", "PCX": "float32",
                 "PCY": "float32", "RadonBandCount": "int32", "RadonQuality": "float32", "X BEAM": "int32",
                 "Y BEAM": "int32", "X SAMPLE": "float64", "Y SAMPLE": "float64", "Z SAMPLE": "float32"}


def render_bruker(path, f, layout, nd):
    import h5py
    u = 10.0 ** nd
    with h5py.File(path, "w") as h:
        h.create_dataset("Manufacturer", data=b"Bruker Nano")
        h.create_dataset("Version", data=b"Esprit 2.X")
        scan = layout.get("scan", "Scan 1")
        ebsd = h.create_group(scan + "/EBSD")
        data, header = ebsd.create_group("Data"), ebsd.create_group("Header")
        sem = (h[scan] if layout.get("sem_in_scan") else ebsd).create_group("SEM")
        header.create_dataset("Grid Type", data=W.s_of(f["grid"]).encode())
        header.create_dataset("NROWS", data=f["nrows"], dtype=np.int32)
        header.create_dataset("NCOLS", data=f["ncols"], dtype=np.int32)
        for nm in ("KV", "Magnification", "SampleTilt"):
            header.create_dataset(nm, data=np.float64(20.0))
        pg = header.create_group("Phases")
        for p in f["phases"]:
            g = pg.create_group(str(p["id"]))
            g.create_dataset("Formula", data=W.s_of(p["name"]))
            g.create_dataset("IT", data=int(p["it"]))
            g.create_dataset("LatticeConstants", data=np.array([v / 1e3 for v in p["lat"]]))
            g.create_dataset("Name", data=W.s_of(p["name"]))
            g.create_dataset("Setting", data=1)
            g.create_dataset("SpaceGroup", data=b"F m#ovl3m")
            ap = g.create_group("AtomPositions")
            for k, fields in enumerate(p["atoms"]):
                ap.create_dataset(str(k + 1 if layout.get("atoms_from_one") else k),
                                  data=",".join(W.s_of(x) for x in fields).encode())
        if f["iy"] is not None:
            names = ("SEM IY", "SEM IX") if layout.get("sem_prefix") else ("IY", "IX")
            sem.create_dataset(names[0], data=np.array(f["iy"], dtype=np.int32))
            sem.create_dataset(names[1], data=np.array(f["ix"], dtype=np.int32))
        sem.create_dataset("SEM ZOffset", data=np.float64(0.0))
        if layout.get("no_sem_group") and f["iy"] is None:
            del sem.parent["SEM"]                 # files written without any SEM group (only without a region of interest)
        data.create_dataset("Phase", data=np.array(f["phase"], dtype=np.int32))
        for name, vals in f["euler"]:
            data.create_dataset(W.s_of(name), data=np.array([v / u for v in vals], dtype=np.float32 if layout.get("f32") else np.float64))
        for name, vals in f["data"]:
            nm = W.s_of(name)
            data.create_dataset(nm, data=np.array([v / u for v in vals]).astype(BRUKER_DTYPES[nm]))
        data.create_dataset("RawPatterns", data=np.zeros((len(f["phase"]), 2, 2), dtype=np.uint8))


# ---------------- EMsoft h5ebsd -----------------------------------------------------------------
def render_emsoft(path, f, layout, nd):
    import h5py
    u = 10.0 ** nd
    n = len(f["x"])
    with h5py.File(path, "w") as h:
        h.create_dataset("Manufacturer", data="EMEBSDDictionaryIndexing.f90")
        h.create_dataset("Version", data="5.0")
        ebsd = h.create_group("Scan 1/EBSD")
        data, header = ebsd.create_group("Data"), ebsd.create_group("Header")
        ph = header.create_group("Phase/1")
        for name, v, dt in (("nRows", f["nrows"], np.int32), ("nColumns", f["ncols"], np.int32),
                            ("Step Y", f["stepy"] / u, np.float32), ("Step X", 1.0, np.float32)):
            header.create_dataset(name, data=np.array([v], dtype=dt))
        header.create_dataset("Grid Type", data=np.array([b"SqrGrid"], dtype=np.dtype("S")))
        data.create_dataset("X Position", data=np.array([v / u for v in f["x"]], dtype=np.float32 if layout.get("f32x") else np.float64))
        data.create_dataset("Y Position", data=np.zeros(n))
        data.create_dataset("Phase", data=np.array(f["phase"], dtype=np.uint8))
        data.create_dataset("FZcnt", data=np.array([f["fzcnt"]], dtype=np.int32))
        pad = layout.get("dict_pad", 0)   # EMsoft allocates more rows than FZcnt / more index rows than points
        dict_e = np.array([[v / u for v in e] for e in f["dict"]] + [[0.0, 0.0, 0.0]] * pad, dtype=np.float32).reshape(-1, 3)
        data.create_dataset("DictionaryEulerAngles", data=dict_e)
        idx = np.array(f["idx"], dtype=np.int32).reshape(n, -1) if f["idx"] else np.zeros((n, 1), np.int32)
        if layout.get("idx_pad"):
            idx = np.vstack([idx, np.ones((layout["idx_pad"], idx.shape[1]), np.int32)])
        data.create_dataset("TopMatchIndices", data=idx)
        if f["refined"] is not None:
            data.create_dataset("RefinedEulerAngles", data=np.array([[v / u for v in e] for e in f["refined"]], dtype=np.float32))
        for p in f["props"]:
            nm = W.s_of(p["name"])
            if nm == "TopMatchIndices":
                continue
            a = np.array([v / u for v in p["vals"]], dtype=np.int32 if nm == "AvDotProductMap" else np.float32)
            data.create_dataset(nm, data=a.reshape(p["shape"]))
        h.create_dataset("NMLparameters/EBSDIndexingNameListType/nnk", data=np.array([f["nnk"]], dtype=np.int32))
        for name, v in (("Point Group", W.s_of(f["pg"])), ("MaterialName", W.s_of(f["material"]))):
            ph.create_dataset(name, data=np.array([v.encode()], dtype=np.dtype("S")))
        for name, v in zip(["a", "b", "c", "alpha", "beta", "gamma"], f["lat"]):
            ph.create_dataset(f"Lattice Constant {name}", data=np.array([dec(v, 3, 1).encode()], dtype=np.dtype("S")))
