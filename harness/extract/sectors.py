"""T-gen for C07/C08/C20: fundamental sectors of every point-group object and of its Laue group as
integer covectors in lattice coordinates, with Dirichlet-cell certificates (or a witness that the sector is
not a fundamental domain).  The search below is untrusted: Lean's `checkSector` / `checkBad` re-check every
certificate in the kernel."""
from __future__ import annotations

import itertools
import warnings
from fractions import Fraction as F

import numpy as np

from . import groups as X

METRIC = {"cub": [1, 0, 0, 0, 1, 0, 0, 0, 1], "hex": [2, -1, 0, -1, 2, 0, 0, 0, 2]}
IDENT = [1, 0, 0, 0, 1, 0, 0, 0, 1]


def covector(n, B):
    """integer covector (h_i = n·a_i up to a positive factor) of a Cartesian wall normal, or None"""
    h = B @ np.asarray(n, float)
    nz = [abs(x) for x in h if abs(x) > 1e-9]
    if not nz:
        return None
    m = min(nz)
    for den in (m, m * 2**0.5, m * 3**0.5, m / 3**0.5, m / 2**0.5):
        r = h / den
        for k in (1, 2, 3, 4, 6, 12):
            rr = r * k
            if np.abs(rr - np.rint(rr)).max() < 1e-7:
                v = np.rint(rr).astype(int)
                g = int(np.gcd.reduce(np.abs(v)))
                return tuple(int(x) // g for x in v)
    return "irrational"


def act(M, x):
    return tuple(sum(M[3 * i + j] * x[j] for j in range(3)) for i in range(3))


def cov(h, M):
    return tuple(sum(h[i] * M[3 * i + j] for i in range(3)) for j in range(3))


def dot(a, b):
    return sum(x * y for x, y in zip(a, b))


def solve(cols, w):
    k = len(cols)
    A = [[F(cols[j][i]) for j in range(k)] + [F(w[i])] for i in range(3)]
    r = 0
    for c in range(k):
        p = next((i for i in range(r, 3) if A[i][c] != 0), None)
        if p is None:
            return None
        A[r], A[p] = A[p], A[r]
        A[r] = [x / A[r][c] for x in A[r]]
        for i in range(3):
            if i != r and A[i][c] != 0:
                A[i] = [x - A[i][c] * y for x, y in zip(A[i], A[r])]
        r += 1
    if any(A[i][k] != 0 for i in range(r, 3)):
        return None
    return [A[i][k] for i in range(k)]


def cone_cert(gens, w):
    """(mu, lambdas) with mu*w = sum lambdas[i]*gens[i], mu > 0, lambdas >= 0 integers; or None"""
    n = len(gens)
    if all(x == 0 for x in w):
        return (1, [0] * n)
    for k in (1, 2, 3):
        for idx in itertools.combinations(range(n), k):
            lam = solve([gens[i] for i in idx], w)
            if lam is not None and all(x >= 0 for x in lam):
                mu = 1
                for x in lam:
                    mu = mu * x.denominator // np.gcd(mu, x.denominator)
                mu = int(mu)
                out = [0] * n
                for i, x in zip(idx, lam):
                    out[i] = int(x * mu)
                return (mu, out)
    return None


def wall(G, M, c):
    d = tuple(ci - ii for ci, ii in zip(c, act(M, c)))
    return act(G, d)


def try_cell(H, W, G):
    """search an integer centre with certificates: cell of H for the centre == cone of walls W"""
    cands = [x for x in itertools.product(range(-4, 5), repeat=3) if any(x) and all(dot(h, x) > 0 for h in W)]
    cands.sort(key=lambda x: (sum(abs(t) for t in x), x))
    for c in cands[:300]:
        if sum(1 for M in H if act(M, c) == c) != 1:
            continue
        ws = [wall(G, M, c) for M in H]
        fwd = []
        ok = True
        for M, w in zip(H, ws):
            if M == IDENT:
                fwd.append((1, [0] * len(W)))
                continue
            ce = cone_cert(W, w)
            if ce is None or not any(ce[1]):
                ok = False
                break
            fwd.append(ce)
        if not ok:
            continue
        bwd = []
        for h in W:
            ce = cone_cert(ws, h)
            if ce is None:
                ok = False
                break
            bwd.append(ce)
        if ok:
            return {"centre": c, "fwd": fwd, "bwd": bwd}
    return None


def find_bad(ops, W):
    for x in sorted(itertools.product(range(-5, 6), repeat=3), key=lambda x: (sum(abs(t) for t in x), x)):
        if not any(x) or not all(dot(h, x) > 0 for h in W):
            continue
        if sum(1 for M in ops if act(M, x) == x) != 1:
            continue
        for M in ops:
            if M != IDENT and act(M, x) != x and all(dot(h, act(M, x)) > 0 for h in W):
                return {"v": x, "g": M}
    return None


def analyse(Gobj):
    """returns dict(basis, walls, status in {'domain','not_domain','undecided'}, half, cert | witness)"""
    for b in ("cub", "hex"):
        ops = X.lattice_mats(Gobj, X.BASES[b])
        if ops is not None:
            break
    else:
        return {"status": "undecided", "why": "operations not integer in either basis"}
    B = X.BASES[b]
    G = METRIC[b]
    with warnings.catch_warnings():
        warnings.simplefilter("ignore")
        fs = Gobj.fundamental_sector
    normals = fs.data.reshape(-1, 3)
    W = []
    for n in normals:
        h = covector(n, B)
        if h == "irrational":
            return {"status": "undecided", "basis": b, "why": f"wall normal {n.tolist()} is not a rational covector"}
        if h is not None and h not in W:
            W.append(h)
    res = {"basis": b, "walls": W, "n_ops": len(ops)}
    cert = try_cell(ops, W, G)
    if cert is not None:
        res.update(status="domain", half=None, cert=cert)
        return res
    for p in W:
        if not all(cov(p, M) in (p, tuple(-t for t in p)) for M in ops):
            continue
        if not any(cov(p, M) == tuple(-t for t in p) for M in ops):
            continue
        H = [M for M in ops if cov(p, M) == p]
        Wc = [h for h in W if h != p]
        cert = try_cell(H, Wc, G)
        if cert is not None:
            res.update(status="domain", half=p, cert=cert)
            return res
    wit = find_bad(ops, W)
    if wit is not None:
        res.update(status="not_domain", witness=wit)
        return res
    res.update(status="undecided", why="no certificate and no counter-example found")
    return res


def all_sectors():
    from orix.quaternion import symmetry as S
    out = []
    for k, Gobj in enumerate(S._groups):
        for role, H in (("self", Gobj), ("laue", Gobj.laue)):
            r = analyse(H)
            r.update(k=k, role=role, name=Gobj.name, label=Gobj.name if role == "self" else f"laue({Gobj.name})")
            out.append(r)
    return out


# ---- Lean emission -----------------------------------------------------------------------
def z3(v):
    return "⟨" + ", ".join(str(int(x)) for x in v) + "⟩"


def m3(m):
    return "⟨" + ", ".join(str(int(x)) for x in m) + "⟩"


def cert_list(cs):
    return "[" + ", ".join(f"({mu}, [{', '.join(str(int(x)) for x in lam)}])" for mu, lam in cs) + "]"


def ops_expr(r):
    acc = {"self": "ops", "laue": "laueOps"}[r["role"]]
    return f"((PG.g{r['k']}.{acc} .{r['basis']}).getD [])"


def lean_name(r):
    return f"s{r['k']}_{r['role']}"


def generate(secs):
    parts = ["import OrixModel.Sector\nimport OrixGen.PointGroups\n"
             "/- GENERATED by harness/extract/sectors.py from the live fundamental sectors of /repo. Do not edit. -/\n"
             "namespace Orix.Gen.SEC\nopen Orix.Grp Orix.Gen\n"]
    good, bad = [], []
    for r in secs:
        nm = lean_name(r)
        if r["status"] == "domain":
            c = r["cert"]
            half = "none" if r["half"] is None else f"some {z3(r['half'])}"
            parts.append(
                f"/-- sector of {r['label']} -/\ndef {nm} : SectorRec := {{\n  ops := {ops_expr(r)},\n"
                f"  metric := {m3(METRIC[r['basis']])},\n  walls := [{', '.join(z3(h) for h in r['walls'])}],\n"
                f"  half := {half},\n  cert := {{\n    centre := {z3(c['centre'])},\n"
                f"    fwd := {cert_list(c['fwd'])},\n    bwd := {cert_list(c['bwd'])} }} }}\n")
            good.append(nm)
        elif r["status"] == "not_domain":
            w = r["witness"]
            parts.append(
                f"/-- sector of {r['label']}: NOT a fundamental domain -/\n"
                f"def {nm}_ops : List M3 := {ops_expr(r)}\n"
                f"def {nm}_walls : List Z3 := [{', '.join(z3(h) for h in r['walls'])}]\n"
                f"def {nm}_wit : BadWitness := {{ v := {z3(w['v'])}, g := {m3(w['g'])} }}\n")
            bad.append(nm)
    parts.append("def good : List SectorRec := [" + ", ".join(good) + "]\n")
    parts.append("def bad : List (List M3 × List Z3 × BadWitness) := ["
                 + ", ".join(f"({n}_ops, {n}_walls, {n}_wit)" for n in bad) + "]\n")
    parts.append("end Orix.Gen.SEC\n")
    return "\n".join(parts), good, bad


if __name__ == "__main__":
    import json
    secs = all_sectors()
    for r in secs:
        print(r["label"], r["status"], r.get("half"), r.get("cert", {}).get("centre"), r.get("witness"), r.get("why"))
