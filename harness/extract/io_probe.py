"""Second, *semantic* source of the I/O tables (T-gen, used by tables_io.py): the plugin code of the tree under
test is **executed** on small synthetic inputs and the table is read off what the code does, independent of how
the source spells it:

* *frame*: the function is called under `sys.settrace`; the value of a local when it is first bound / when the
  function returns is read by name and, if the name is gone, by shape ("a dict vendor -> {int -> [str]}", …);
  module-level objects of the same name/shape are accepted too (a literal moved out of the function);
* *behaviour*: the function is probed (synthetic header / file per vendor, value grids for sentinels, spies
  that record which keys a reader asks for) and the table is reconstructed from its answers;
* where both exist the frame value is validated against the behaviour (`Inconsistent` otherwise).

Nothing here knows the expected tables.  The only format knowledge are the synthetic inputs themselves (file
layouts, the reference signature patterns of the .ctf vendors).  Every function raises `ProbeError` (source not
available) or `Inconsistent` (frame table contradicts behaviour); tables_io catches everything."""
from __future__ import annotations

import contextlib
import importlib
import importlib.util
import io
import os
import re
import shutil
import sys
import tempfile
import warnings

import numpy as np

PLUG = "orix/io/plugins"
VENDOR_NAMES = ("tsl", "emsoft", "astar", "orix", "unknown")


class ProbeError(Exception):
    pass


class Inconsistent(Exception):
    pass


# ---- loading the code under test ---------------------------------------------------------------
def load_plugin(repo, name):
    """the plugin module of the tree under test (VERIF_REPO); the `orix` package on sys.path is that tree when
    checks run against a scratch tree (PYTHONPATH), otherwise the file is loaded under a private name"""
    path = os.path.realpath(os.path.join(repo, PLUG, name + ".py"))
    try:
        m = importlib.import_module("orix.io.plugins." + name)
        if os.path.realpath(m.__file__) == path:
            return m
    except Exception:
        pass
    spec = importlib.util.spec_from_file_location("_verif_probe_" + name, path)
    m = importlib.util.module_from_spec(spec)
    m.__package__ = "orix.io.plugins"
    spec.loader.exec_module(m)
    return m


# ---- tracing -------------------------------------------------------------------------------------
_PLAIN = (str, int, float, bool, type(None), bytes, complex, re.Pattern)


def _snap(v, depth=0):
    """copy of plain data (so that later mutation by the code under test is not seen); other objects by reference"""
    if isinstance(v, _PLAIN) or depth > 6:
        return v
    if type(v) is dict:
        return {k: _snap(x, depth + 1) for k, x in v.items()}
    if type(v) in (list, tuple, set, frozenset):
        return type(v)(_snap(x, depth + 1) for x in v)
    if isinstance(v, np.ndarray) and v.size <= 100000:
        return v.copy()
    return v


class Trace:
    def __init__(self):
        self.calls = []      # [name, first, last] per call, in call order
        self.result = None
        self.error = None

    def first(self, func):
        out = {}
        for name, first, _ in self.calls:
            if name == func:
                for k, v in first.items():
                    out.setdefault(k, v)
        return out

    def last(self, func):
        out = {}
        for name, _, last in self.calls:
            if name == func:
                out.update(last)
        return out

    def called(self, func):
        return any(name == func for name, _, _ in self.calls)


def traced(files, fn, *args, on_call=None, **kwargs):
    """call fn(*args, **kwargs); record, for every frame whose code lives in `files`, each local's first value
    and the locals at return / propagation of an exception.  Never raises (the error is in `.error`)."""
    files = {os.path.realpath(f) for f in files}
    tr = Trace()
    known = {}

    def is_ours(code):
        fn_ = code.co_filename
        if fn_ not in known:
            known[fn_] = os.path.realpath(fn_) in files
        return known[fn_]

    def tracer(frame, event, arg):
        if event != "call" or not is_ours(frame.f_code):
            return None
        rec = [frame.f_code.co_name, {}, {}]
        tr.calls.append(rec)
        if on_call:
            on_call(rec[0], True)

        def local(frame, event, arg):
            if event == "line" or event == "return":
                first = rec[1]
                for k, v in frame.f_locals.items():
                    if k not in first:
                        first[k] = _snap(v)
                if event == "return":
                    rec[2] = {k: _snap(v) for k, v in frame.f_locals.items()}
                    if on_call:
                        on_call(rec[0], False)
            return local
        return local

    old = sys.gettrace()
    sys.settrace(tracer)
    try:
        with warnings.catch_warnings():
            warnings.simplefilter("ignore")
            tr.result = fn(*args, **kwargs)
    except BaseException as e:  # noqa: the code under test may raise anything
        if isinstance(e, (KeyboardInterrupt, SystemExit)):
            sys.settrace(old)
            raise
        tr.error = e
    finally:
        sys.settrace(old)
    return tr


def quiet(fn, *a, **k):
    with warnings.catch_warnings():
        warnings.simplefilter("ignore")
        return fn(*a, **k)


def _norm(name):
    return name.strip("_").lower()


def _same(a, b):
    try:
        return bool(a == b)
    except Exception:
        return False


def pick(scopes, names, pred):
    """value of the variable called like one of `names` (case/underscore-insensitive) in the first scope that has
    one of the right shape; failing that, the unique value of that shape in all scopes.
    scopes: [(label, mapping)]; returns (value, where)"""
    def ok(v):
        try:
            return bool(pred(v))
        except Exception:
            return False
    want = {_norm(n) for n in names}
    for label, sc in scopes:
        for k, v in sc.items():
            if isinstance(k, str) and _norm(k) in want and ok(v):
                return v, f"{label}:{k}"
    cands = []
    for label, sc in scopes:
        for k, v in sc.items():
            if ok(v) and not any(_same(v, c[0]) for c in cands):
                cands.append((v, f"{label}:{k} by shape"))
    if len(cands) == 1:
        return cands[0]
    raise ProbeError("no variable of the expected shape" if not cands
                     else "several candidates: " + ", ".join(c[1] for c in cands))


def is_str_list(v, n=1):
    return type(v) in (list, tuple) and len(v) >= n and all(type(x) is str for x in v)


class Spy(dict):
    """dict that logs the keys the code asks for (`[]`, `.pop`, `.get`), shared with nested dicts and deep copies"""
    def __init__(self, d, log=None, path=""):
        super().__init__()
        self.log = [] if log is None else log
        self.path = path
        for k, v in d.items():
            dict.__setitem__(self, k, Spy(v, self.log, f"{path}/{k}") if type(v) is dict else v)

    def _rec(self, k):
        if (self.path, k) not in self.log:
            self.log.append((self.path, k))

    def __getitem__(self, k):
        self._rec(k)
        return dict.__getitem__(self, k)

    def get(self, k, *a):
        self._rec(k)
        return dict.get(self, k, *a)

    def pop(self, k, *a):
        self._rec(k)
        return dict.pop(self, k, *a)

    def __deepcopy__(self, memo):
        import copy
        new = Spy({}, self.log, self.path)
        for k, v in dict.items(self):
            dict.__setitem__(new, k, copy.deepcopy(v, memo))
        return new

    def asked(self, path=""):
        return [k for p, k in self.log if p == path]


@contextlib.contextmanager
def workdir():
    base = os.path.join(os.path.dirname(os.path.dirname(os.path.dirname(os.path.abspath(__file__)))), ".run")
    d = tempfile.mkdtemp(prefix="ioprobe_", dir=base if os.path.isdir(base) else None)
    try:
        yield d
    finally:
        shutil.rmtree(d, ignore_errors=True)


def memo(fn):
    def wrapper(self):
        key = fn.__name__
        if key not in self._memo:
            try:
                self._memo[key] = (True, fn(self))
            except Exception as e:
                self._memo[key] = (False, e)
        ok, v = self._memo[key]
        if ok:
            return v
        if isinstance(v, (ProbeError, Inconsistent)):
            raise v
        raise ProbeError(f"{type(v).__name__} {v}")
    return wrapper


def mod_scope(m):
    return ("module", {k: v for k, v in vars(m).items() if not k.startswith("__")})


# =================================================================================================
# .ang
# =================================================================================================
# what identifies the vendor of an .ang header (format description, cf. ANG_MARK in harness/gen/vendors.py):
# reference footprint and a header line that carries it
ANG_REFERENCE = {
    "emsoft": ("EMsoft", "# Info          patterns indexed using EMsoft::EMEBSDDI"),
    "astar": ("ACOM", "# File created from ACOM RES results"),
    "orix": ("Column names: phi1, Phi, phi2", "# Column names: phi1, Phi, phi2, x, y, image_quality, confidence_index, "
             "phase_id, detector_signal, pattern_fit"),
}
GRID = [-3.0, -2.5, -2.0, -1.5, -1.0, -0.5, 0.0, 0.5, 1.0, 2.0]     # sentinel candidates probed
FILL = 7.0
ANG_HEADER = ["# Phase 1", "# MaterialName  \tAl", "# Formula  \tAl", "# Symmetry              43",
              "# LatticeConstants      4.000 4.000 4.000  90.000  90.000  90.000"]


class AngProbe:
    def __init__(self, repo, tmp, hints=None):
        self._memo = {}
        self.tmp = tmp
        self.m = load_plugin(repo, "ang")
        self.files = [self.m.__file__]
        self.hints = hints or {}

    # -- reader tables ------------------------------------------------------------------------
    @memo
    def gvc_trace(self):
        tr = traced(self.files, self.m._get_vendor_columns, [], 10)
        if tr.error is not None:
            raise ProbeError(f"_get_vendor_columns([], 10) raised {type(tr.error).__name__} {tr.error}")
        return tr

    def _gvc_scopes(self):
        tr = self.gvc_trace()
        return [("_get_vendor_columns", tr.last("_get_vendor_columns")), mod_scope(self.m)]

    @memo
    def footprint(self):
        fp, where = pick(self._gvc_scopes(), ["vendor_footprint", "vendor_footprints", "footprints"],
                         lambda v: type(v) is dict and v and all(type(k) is str and k in VENDOR_NAMES and type(x) is str
                                                                 for k, x in v.items()))
        # behaviour: a header that carries one footprint is attributed to that vendor
        for k, s in fp.items():
            n = 10
            try:
                n = len(self.columns()[k][0])
            except Exception:
                pass
            got = quiet(self.m._get_vendor_columns, ["# " + s], n)[0]
            if got != k:
                raise Inconsistent(f"footprint table ({where}) says {s!r} -> {k}, the function answers {got}")
        # behaviour: of two footprints the later table entry wins
        ks = list(fp)
        for i in range(len(ks)):
            for j in range(i + 1, len(ks)):
                got = quiet(self.m._get_vendor_columns, ["# " + fp[ks[j]], "# " + fp[ks[i]]], 10)[0]
                if got not in (ks[j], "unknown"):
                    raise Inconsistent(f"footprint order ({where}): header with {ks[i]} and {ks[j]} -> {got}")
        # behaviour: each footprint recognises what the reference footprint recognises (reference line, all its
        # single-character deletions and replacements); a vendor whose footprint deviates is marked
        out = {}
        self.footprint_notes = []
        for k, s in fp.items():
            mark = k
            if k in ANG_REFERENCE:
                ref, line = ANG_REFERENCE[k]
                n = 10
                try:
                    n = len(self.columns()[k][0])
                except Exception:
                    pass
                for l in _variants(line):
                    got = quiet(self.m._get_vendor_columns, [l], n)[0]
                    if (got == k) != (ref in l):
                        mark = k + "!footprint"
                        self.footprint_notes.append(f"footprint of {k!r}: header line {l!r} -> {got!r}, the reference "
                                                    f"footprint {ref!r} says {'yes' if ref in l else 'no'}")
                        break
            out[mark] = s
        return out

    @memo
    def columns(self):
        def shape(v):
            return type(v) is dict and v and all(
                type(k) is str and k in VENDOR_NAMES and type(d) is dict and d and all(
                    type(i) is int and is_str_list(l) for i, l in d.items()) for k, d in v.items())
        cols, where = pick(self._gvc_scopes(), ["column_names", "vendor_column_names", "vendor_columns"], shape)
        cols = {k: {i: list(l) for i, l in d.items()} for k, d in cols.items()}
        # behaviour: with the vendor's footprint and the variant's column count the function returns the variant
        fp = {}
        try:
            fp = self._footprint_raw()
        except Exception:
            fp = dict(self.hints.get("footprint") or {})
        for k, variants in cols.items():
            for i, names in variants.items():
                if k == "tsl":
                    header = []
                elif k in fp:
                    header = ["# " + fp[k]]
                else:
                    continue
                got = quiet(self.m._get_vendor_columns, header, len(names))
                if k == "orix":
                    ok = got[0] == k and list(got[1])[:len(names)] == names
                else:
                    ok = got[0] == k and list(got[1]) == names
                if not ok:
                    raise Inconsistent(f"column table ({where}) {k}[{i}] = {names}, the function answers {got}")
        if "unknown" in cols and "tsl" in cols:
            lens = {len(l) for l in cols["tsl"].values()}
            n = len(cols["unknown"][min(cols["unknown"])])
            if n not in lens:
                got = quiet(self.m._get_vendor_columns, [], n)
                if got[0] != "unknown" or list(got[1]) != cols["unknown"][min(cols["unknown"])]:
                    raise Inconsistent(f"column table ({where}) unknown, the function answers {got}")
        return cols

    def _footprint_raw(self):
        fp, _ = pick(self._gvc_scopes(), ["vendor_footprint", "vendor_footprints", "footprints"],
                     lambda v: type(v) is dict and v and all(type(k) is str and k in VENDOR_NAMES and type(x) is str
                                                             for k, x in v.items()))
        return fp

    def _tables(self):
        """footprints and column tables used to *build the synthetic files* (executed ones, else the AST's)"""
        try:
            fp = self._footprint_raw()
        except Exception:
            fp = self.hints.get("footprint") or {}
        try:
            cols = self.columns()
        except Exception:
            cols = self.hints.get("columns") or {}
        if not cols:
            raise ProbeError("no column table to build synthetic files from")
        return fp, cols

    def _write(self, path, mark, cols, rows):
        with open(path, "w") as f:
            f.write("\n".join(ANG_HEADER + ([mark] if mark else [])) + "\n")
            for r in rows:
                f.write("  ".join(("%d" % v if c == "phase_id" else "%.5f" % v) for c, v in zip(cols, r)) + "\n")

    @memo
    def reads(self):
        """per vendor: one file whose rows set one property to one grid value each; the crystal map read from it"""
        fp, table = self._tables()
        out = {}
        for v in ("tsl", "emsoft", "astar", "orix"):
            if v not in table or (v != "tsl" and v not in fp):
                continue
            cols = table[v][min(table[v])]
            props = [c for c in cols if c not in ("euler1", "euler2", "euler3", "x", "y", "phase_id")]
            rows, tags = [], []
            for p in props:
                for t in GRID:
                    r = {c: FILL for c in cols}
                    r.update(euler1=0.5, euler2=0.25, euler3=0.75, x=float(len(rows)), y=0.0, phase_id=1)
                    r[p] = t
                    rows.append([r[c] for c in cols])
                    tags.append((p, t))
            path = os.path.join(self.tmp, f"probe_{v}.ang")
            self._write(path, None if v == "tsl" else "# " + fp[v], cols, rows)
            tr = traced(self.files, self.m.file_reader, path)
            if tr.error is not None:
                raise ProbeError(f"file_reader on the synthetic {v} file raised {type(tr.error).__name__} {tr.error}")
            out[v] = (tr, tags)
        if "tsl" not in out:
            raise ProbeError("no synthetic file read")
        return out

    @memo
    def data_keys(self):
        tr = self.reads()["tsl"][0]
        d, _ = pick([("file_reader", tr.first("file_reader")), mod_scope(self.m)], ["data_dict"],
                    lambda v: type(v) is dict and len(v) >= 3 and all(type(k) is str for k in v)
                    and all(x is None or x == {} for x in v.values()))
        return list(d)

    @memo
    def not_indexed(self):
        hits = {}
        for v, (tr, tags) in self.reads().items():
            pid = np.asarray(tr.result.phase_id)
            if pid.shape != (len(tags),):
                raise ProbeError("map size differs from the file's")
            for k in np.where(pid == -1)[0]:
                hits.setdefault(v, []).append(tags[int(k)])
        names = {p for h in hits.values() for p, _ in h}
        vals = {t for h in hits.values() for _, t in h}
        if not hits:
            return [], "", 0
        if len(names) != 1 or len(vals) != 1 or any(len(h) != 1 for h in hits.values()):
            raise ProbeError(f"not-indexed rule is not 'one property equals one value': {hits}")
        return sorted(hits), names.pop(), vals.pop()

    @memo
    def units(self):
        u = {v: tr.result.scan_unit for v, (tr, _) in self.reads().items()}
        rest = {x for v, x in u.items() if v != "astar"}
        if len(rest) != 1:
            raise ProbeError(f"no single default unit: {u}")
        return u.get("astar", ""), rest.pop()

    # -- writer -------------------------------------------------------------------------------
    @memo
    def written(self):
        from orix.crystal_map import CrystalMap, Phase, PhaseList
        from orix.quaternion import Rotation
        n = 6
        rot = Rotation.from_euler(np.tile([0.5, 0.25, 0.75], (n, 1)))
        x = np.array([0, 2, 4, 0, 2, 4], dtype=float)
        y = np.array([0, 0, 0, 3, 3, 3], dtype=float)
        pid = np.array([0, 0, -1, 0, 0, 0])
        prop = {"iq": np.full(n, 11.0), "ci": np.full(n, 12.0), "detector_signal": np.full(n, 13.0),
                "fit": np.full(n, 14.0), "extra1": np.full(n, 15.0), "extra2": np.full(n, 16.0)}
        pl = PhaseList(Phase(name="al", point_group="m-3m"))
        xm = CrystalMap(rotations=rot, phase_id=pid, x=x, y=y, prop=prop, phase_list=pl)
        out = {}
        for tag, kw in (("plain", {}), ("extras", {"extra_prop": ["extra1", "extra2"]})):
            path = os.path.join(self.tmp, f"written_{tag}.ang")
            tr = traced(self.files, self.m.file_writer, path, xm, **kw)
            if tr.error is not None:
                raise ProbeError(f"file_writer raised {type(tr.error).__name__} {tr.error}")
            lines = open(path).read().splitlines()
            data = np.loadtxt(path, ndmin=2)
            out[tag] = (tr, [l for l in lines if l.startswith("#")], data)
        # a phase without point group
        xm2 = CrystalMap(rotations=rot, phase_id=np.zeros(n, dtype=int), x=x, y=y, phase_list=PhaseList(Phase(name="b")))
        path = os.path.join(self.tmp, "written_nopg.ang")
        quiet(self.m.file_writer, path, xm2)
        out["nopg"] = [l for l in open(path).read().splitlines() if l.startswith("#")]
        return out

    def _header_names(self, tag):
        _, header, _ = self.written()[tag]
        for l in header:
            if "Column names:" in l:
                return [t.strip() for t in l.split(":", 1)[1].split(",")]
        raise ProbeError("no 'Column names:' line in the written file")

    @memo
    def decimals(self):
        tr = self.written()["plain"][0]
        v, _ = pick([("file_writer", tr.first("file_writer")), mod_scope(self.m)], ["decimals"],
                    lambda v: type(v) is int and 0 <= v < 12)
        return v

    def _row(self, x, y):
        _, _, data = self.written()["extras"]
        names = self._header_names("extras")
        if data.shape[1] != len(names):
            raise ProbeError("column count differs from the header's column names")
        ix, iy = names.index("x"), names.index("y")
        rows = [r for r in data if abs(r[ix] - x) < 1e-9 and abs(r[iy] - y) < 1e-9]
        if len(rows) != 1:
            raise ProbeError("row not found")
        return names, rows[0]

    @memo
    def euler_sentinel(self):
        names, r = self._row(4.0, 0.0)     # the not-indexed point
        vals = {round(float(r[names.index(k)]), 5) for k in ("phi1", "Phi", "phi2")}
        if len(vals) != 1:
            raise ProbeError(f"Euler angles of the not-indexed point differ: {vals}")
        return vals.pop()

    @memo
    def prop_sentinels(self):
        names, r = self._row(4.0, 0.0)
        ex = {float(r[names.index(k)]) for k in ("extra1", "extra2")}
        if len(ex) != 1:
            raise ProbeError("extra columns of the not-indexed point differ")
        return [float(r[names.index(k)]) for k in ("image_quality", "confidence_index", "detector_signal",
                                                   "pattern_fit")] + [ex.pop()]

    @memo
    def column_order(self):
        _, _, data = self.written()["extras"]
        # the indexed point x=2, y=3: every field has its own value
        rows = [r for r in data if sorted(np.round(r, 4))[-4:] == [13.0, 14.0, 15.0, 16.0] and 2.0 in r and 3.0 in r]
        if not rows:
            raise ProbeError("probe row not found")
        tagof = {0.5: "e1", 0.25: "e2", 0.75: "e3", 2.0: "x", 3.0: "y", 11.0: "p0", 12.0: "p1", 1.0: "phase",
                 13.0: "p2", 14.0: "p3", 15.0: "ex0", 16.0: "ex1"}
        row = []
        for v in rows[0]:
            k = [t for val, t in tagof.items() if abs(val - v) < 1e-4]
            if len(k) != 1:
                raise ProbeError(f"value {v} of the probe row not attributable")
            row.append(k[0])
        if "ex0" in row:
            i = row.index("ex0")
            if row[i:i + 2] != ["ex0", "ex1"]:
                raise ProbeError("extras not contiguous")
            row[i:i + 2] = ["extras"]
        return row

    @memo
    def column_header(self):
        return self._header_names("plain")

    @memo
    def expected_names(self):
        tr = self.written()["plain"][0]
        v, _ = pick([("_get_prop_arrays", tr.first("_get_prop_arrays")), mod_scope(self.m)],
                    ["all_expected_prop_names", "expected_prop_names"],
                    lambda v: type(v) is list and len(v) >= 4 and all(is_str_list(x) for x in v[:4]))
        return [list(x) for x in v[:4]]

    @memo
    def no_pg(self):
        syms = [l.split()[-1] for l in self.written()["nopg"] if l.lstrip("# ").startswith("Symmetry")]
        if len(syms) != 1:
            raise ProbeError("no single Symmetry line")
        return syms[0]


# =================================================================================================
# .ctf
# =================================================================================================
# what identifies the vendor of a .ctf (format description, cf. harness/gen/vendors.py): reference pattern and a
# line that carries it.  The code's pattern for a vendor must behave like the reference on the line, on all its
# single-character deletions and on all single-character replacements.
CTF_REFERENCE = {
    "emsoft": (r"EMsoft v\. ([A-Za-z0-9]+(_[A-Za-z0-9]+)+); BANDS=pattern index, MAD=CI, BC=OSM, BS=IQ",
               "Prj\tEMsoft v. 4_1_1_9d5269a; BANDS=pattern index, MAD=CI, BC=OSM, BS=IQ"),
    "astar": (r"Author[\t\s]File created from ACOM RES results", "Author\tFile created from ACOM RES results"),
    "mtex": (r"Created from mtex", "3.5;3.5;3.5\t90;90;90\tNi\t11\t0\t\t\tCreated from mtex"),
}
CTF_COLS = "Phase\tX\tY\tBands\tError\tEuler1\tEuler2\tEuler3\tMAD\tBC\tBS"


def _variants(line):
    out = [line]
    for i in range(len(line)):
        out.append(line[:i] + line[i + 1:])
        out.append(line[:i] + ("#" if line[i] != "#" else "%") + line[i + 1:])
    return out


class CtfProbe:
    def __init__(self, repo, tmp, hints=None):
        self._memo = {}
        self.tmp = tmp
        self.m = load_plugin(repo, "ctf")
        self.files = [self.m.__file__]

    def _text(self, vendor, rows, cells=None, steps=(1.0, 1.0), nphases=3):
        prj = "Prj\tsome sample"
        author = "Author\t[Unknown]"
        tail = ""
        if vendor == "emsoft":
            prj = CTF_REFERENCE["emsoft"][1]
        elif vendor == "astar":
            author = CTF_REFERENCE["astar"][1]
        elif vendor == "mtex":
            tail = "\t\t\tCreated from mtex"
        elif vendor not in (None, "oxford"):
            raise ProbeError(f"no reference header for vendor {vendor}")
        nx, ny = cells
        lines = ["Channel Text File", prj, author, "JobMode\tGrid", f"XCells\t{nx}", f"YCells\t{ny}",
                 f"XStep\t{steps[0]}", f"YStep\t{steps[1]}", "AcqE1\t0", "AcqE2\t0", "AcqE3\t0",
                 "Euler angles refer to Sample Coordinate system (CS0)!\tMag\t180.0000\tCoverage\t97\tDevice\t0\tKV\t20.0000"
                 "\tTiltAngle\t70.0010\tTiltAxis\t0", f"Phases\t{nphases}"]
        for k in range(nphases):
            lines.append(f"4.0;4.0;4.0\t90;90;90\tph{k}\t11\t225{tail}")
        lines.append(CTF_COLS)
        for r in rows:
            lines.append("\t".join(str(int(v)) if j == 0 else "%.4f" % v for j, v in enumerate(r)))
        return "\n".join(lines) + "\n"

    def _read(self, tag, vendor, rows, **kw):
        path = os.path.join(self.tmp, f"probe_{tag}.ctf")
        with open(path, "w") as f:
            f.write(self._text(vendor, rows, **kw))
        tr = traced(self.files, self.m.file_reader, path)
        if tr.error is not None:
            raise ProbeError(f"file_reader on the synthetic {tag} file raised {type(tr.error).__name__} {tr.error}")
        return tr

    @staticmethod
    def _rows(phases, xs, ys):
        # Phase X Y Bands Error Euler1 Euler2 Euler3 MAD BC BS
        return [[p, x, y, 7, 7, 90.0, 0.0, 0.0, 7.5, 8.5, 9.5] for p, x, y in zip(phases, xs, ys)]

    @memo
    def base(self):
        return self._read("oxford", "oxford", self._rows([0, 1, 2, 3], [0, 1, 2, 3], [0, 0, 0, 0]), cells=(4, 1))

    def _scopes(self, func):
        tr = self.base()
        return [(func, tr.first(func)), (func + " (at return)", tr.last(func)), mod_scope(self.m)]

    @memo
    def columns(self):
        v, _ = pick(self._scopes("file_reader"), ["column_names", "columns"],
                    lambda v: is_str_list(v, 8) and "phase_id" in v and "euler1" in v)
        return list(v)

    @memo
    def emsoft_mapping(self):
        """behaviour: the same rows read from an Oxford and from an EMsoft file; properties that carry the same
        values under different names are the renamed ones (in the order of the Oxford file's properties)"""
        rows = [[1, x, y, 3 + k, 13 + k, 90.0, 0.0, 0.0, 23.5 + k, 33.5 + k, 43.5 + k]
                for k, (x, y) in enumerate([(0, 0), (1, 0), (0, 1), (1, 1)])]
        ox = self._read("map_oxford", "oxford", rows, cells=(2, 2)).result
        em = self._read("map_emsoft", "emsoft", rows, cells=(2, 2)).result
        mp = {}
        for k in ox.prop:
            same = [j for j in em.prop if np.array_equal(np.asarray(ox.prop[k]), np.asarray(em.prop[j]))]
            if len(same) != 1:
                raise ProbeError(f"property {k} of the Oxford file not attributable in the EMsoft file")
            if same[0] != k:
                mp[k] = same[0]
        # the table in the frame / module, if there is one, must say the same
        try:
            cols = set(self.columns())
            v, where = pick(self._scopes("file_reader"), ["emsoft_mapping"],
                            lambda v: type(v) is dict and v and all(type(k) is str and type(x) is str for k, x in v.items())
                            and set(v) <= cols)
        except Exception:
            v = None
        if v is not None and dict(v) != mp:
            raise Inconsistent(f"emsoft mapping table ({where}) {v}, files behave like {mp}")
        return mp

    @memo
    def data_keys(self):
        tr = self.base()
        d, _ = pick([("file_reader", tr.first("file_reader")), mod_scope(self.m)], ["data_dict"],
                    lambda v: type(v) is dict and len(v) >= 3 and all(type(k) is str for k in v)
                    and all(x is None or x == {} for x in v.values()))
        return list(d)

    @memo
    def laue_ids(self):
        """behaviour: the point group `_get_phases_from_header` assigns to Laue group number 1, 2, …"""
        out = []
        for i in range(1, 41):
            header = ["Phases\t1", f"4.0;4.0;4.0\t90;90;90\tname\t{i}\t0"]
            try:
                pg = quiet(self.m._get_phases_from_header, list(header))["point_groups"]
            except (IndexError, KeyError):
                break
            if len(pg) != 1 or type(pg[0]) is not str:
                raise ProbeError(f"unexpected point_groups {pg}")
            out.append(pg[0])
        else:
            raise ProbeError("no end of the Laue class table")
        if not out:
            raise ProbeError("Laue group 1 not accepted")
        return out

    @memo
    def not_indexed(self):
        tr = self.base()
        pid = np.asarray(tr.result.phase_id)
        x = np.asarray(tr.result.x)
        if pid.shape != (4,):
            raise ProbeError("map size differs from the file's")
        flagged = sorted(int(round(x[k])) for k in np.where(pid == -1)[0])   # file phase number == x by construction
        if len(flagged) != 1:
            raise ProbeError(f"phase numbers read as not indexed: {flagged}")
        return "phase_id", flagged[0]

    @memo
    def unit(self):
        return self.base().result.scan_unit

    @memo
    def degrees(self):
        e = float(self.base().result.rotations.to_euler()[0, 0])
        if abs(e - np.pi / 2) < 1e-6:
            return True
        if abs(e - (90.0 % (2 * np.pi))) < 1e-6:
            return False
        raise ProbeError(f"Euler angle 90 read as {e}")

    def _detect(self, line):
        return quiet(self.m._get_header, io.StringIO(line + "\n" + CTF_COLS + "\n"))[2]

    @memo
    def vendors(self):
        default = self._detect("Prj\tnothing special")
        if type(default) is not str:
            raise ProbeError(f"vendor of a header without marks: {default!r}")
        tr = traced(self.files, self.m._get_header, io.StringIO("Prj\tx\n" + CTF_COLS + "\n"))
        pats, where = pick([("_get_header", tr.last("_get_header")), mod_scope(self.m)],
                           ["vendor_pattern", "vendor_patterns"],
                           lambda v: type(v) is dict and v and all(type(k) is str and isinstance(p, (re.Pattern, str))
                                                                   for k, p in v.items()))
        keys = []
        notes = []
        for k in pats:
            if k not in CTF_REFERENCE:
                keys.append(k)
                continue
            ref, line = CTF_REFERENCE[k]
            ref = re.compile(ref)
            bad = None
            for l in _variants(line):
                want = k if ref.search(l) else default
                got = self._detect(l)
                if got != want:
                    bad = (l, got, want)
                    break
            if bad:
                keys.append(k + "!pattern")
                notes.append(f"pattern of {k!r}: line {bad[0]!r} detected as {bad[1]!r}, reference says {bad[2]!r}")
            else:
                keys.append(k)
        self.vendor_notes = notes
        return keys, default

    def _known_vendors(self):
        return [k for k in self.vendors()[0] if k in CTF_REFERENCE] + ["oxford"]

    @memo
    def emsoft_vendor(self):
        mp = self.emsoft_mapping()
        hit = []
        for k in self._known_vendors():
            tr = self._read(f"ren_{k}", k, self._rows([1, 1, 1, 1], [0, 1, 0, 1], [0, 0, 1, 1]), cells=(2, 2))
            props = set(tr.result.prop)
            if set(mp.values()) <= props and not set(mp) & props:
                hit.append(k)
        if len(hit) != 1:
            raise ProbeError(f"vendors whose properties are renamed: {hit}")
        return hit[0]

    @memo
    def astar_vendor(self):
        hit = []
        for k in self._known_vendors():
            # header claims 4 x 1 cells with step 1.5, coordinates describe a 2 x 2 grid
            tr = self._read(f"fix_{k}", k, self._rows([1, 1, 1, 1], [0, 1, 0, 1], [0, 0, 1, 1]), cells=(4, 1),
                            steps=(1.5, 1.5))
            if np.allclose(np.sort(np.asarray(tr.result.x)), [0, 1.5, 3.0, 4.5]):
                hit.append(k)
        if len(hit) != 1:
            raise ProbeError(f"vendors whose coordinates are rebuilt from the header: {hit}")
        return hit[0]


# =================================================================================================
# Bruker h5ebsd
# =================================================================================================
def _cp(s):
    return [ord(c) for c in s]


BRUKER_DATA = ["DD", "MAD", "MADPhase", "NIndexedBands", "PCX", "PCY", "RadonBandCount", "RadonQuality", "X BEAM",
               "Y BEAM", "X SAMPLE", "Y SAMPLE", "Z SAMPLE"]


class BrukerProbe:
    def __init__(self, repo, tmp, hints=None):
        self._memo = {}
        self.tmp = tmp
        self.m = load_plugin(repo, "bruker_h5ebsd")
        self.files = [self.m.__file__]

    def _cls(self):
        for v in vars(self.m).values():
            if isinstance(v, type) and v.__module__ == self.m.__name__ and hasattr(v, "set_properties"):
                return v
        raise ProbeError("file class not found")

    @memo
    def read(self):
        from ..gen import vendors as V
        n = 4
        self.vals = {}
        data = []
        for j, nm in enumerate(BRUKER_DATA):
            vals = [100 + j] * n
            if nm == "X SAMPLE":
                vals = [10, 12, 10, 12]
            if nm == "Y SAMPLE":
                vals = [20, 20, 23, 23]
            self.vals[nm] = sorted(float(v) for v in vals)
            data.append((_cp(nm), vals))
        self.euler = {"phi1": 0.5, "PHI": 0.25, "phi2": 0.75}
        f = {"grid": _cp("isometric"), "nrows": 2, "ncols": 2,
             "phases": [{"id": 1, "name": _cp("Al"), "it": 225, "lat": [4000, 4000, 4000, 90000, 90000, 90000],
                         "atoms": [[_cp("Al"), _cp("0"), _cp("0"), _cp("0"), _cp("1")]]},
                        {"id": 2, "name": _cp("Fe"), "it": 229, "lat": [3000, 3000, 3000, 90000, 90000, 90000],
                         "atoms": [[_cp("Fe"), _cp("0"), _cp("0"), _cp("0"), _cp("1")]]}],
             "iy": [0, 0, 1, 1], "ix": [0, 1, 0, 1], "phase": [0, 1, 2, 3],
             "euler": [(_cp(k), [v] * n) for k, v in self.euler.items()], "data": data}
        f["phases"].append({"id": 3, "name": _cp("Cu"), "it": 225, "lat": [3600, 3600, 3600, 90000, 90000, 90000],
                            "atoms": [[_cp("Cu"), _cp("0"), _cp("0"), _cp("0"), _cp("1")]]})
        path = os.path.join(self.tmp, "probe_bruker.h5")
        V.render_bruker(path, f, {}, 0)
        tr = traced(self.files, self.m.file_reader, path)
        if tr.error is not None:
            raise ProbeError(f"file_reader on the synthetic file raised {type(tr.error).__name__} {tr.error}")
        return tr

    @memo
    def props(self):
        xm = self.read().result
        out = []
        for key in xm.prop:
            got = sorted(float(v) for v in np.asarray(xm.prop[key]))
            ds = [nm for nm, vals in self.vals.items() if vals == got]
            if len(ds) != 1:
                raise ProbeError(f"property {key} not attributable to one dataset")
            out.append((key, ds[0]))
        return out

    @memo
    def eulers(self):
        e = self.read().result.rotations.to_euler()[0]
        names, degs = [], set()
        for a in e:
            hit = [(k, True) for k, v in self.euler.items() if abs(a - np.deg2rad(v)) < 1e-6] + \
                  [(k, False) for k, v in self.euler.items() if abs(a - v) < 1e-6]
            if len(hit) != 1:
                raise ProbeError(f"Euler angle {a} not attributable")
            names.append(hit[0][0])
            degs.add(hit[0][1])
        if len(degs) != 1:
            raise ProbeError("mixed units")
        return names, degs.pop()

    @memo
    def coords(self):
        xm = self.read().result
        out = []
        for c in (xm.y, xm.x):
            got = sorted(float(v) for v in np.asarray(c))
            ks = [k for k in xm.prop if sorted(float(v) - float(np.min(xm.prop[k])) for v in np.asarray(xm.prop[k])) == got
                  and len(set(got)) > 1]
            if len(ks) != 1:
                raise ProbeError("coordinate not attributable to one property")
            out.append(ks[0])
        return tuple(out)

    def _names(self, which):
        tr = self.read()
        sc = [("set_map_shape", tr.first("set_map_shape")), ("class", vars(self._cls())), mod_scope(self.m)]
        v, _ = pick(sc, ["potential_names_" + which.lower()],
                    lambda v: is_str_list(v) and all(x.endswith("I" + which) for x in v))
        return list(v)

    @memo
    def iy_names(self):
        return self._names("Y")

    @memo
    def ix_names(self):
        return self._names("X")

    @memo
    def not_indexed(self):
        xm = self.read().result
        # file phase numbers 0..3, one point each; points identified through y, x (the reader re-orders)
        pid = sorted(int(v) for v in np.asarray(xm.phase_id))
        missing = sorted(set(range(4)) - set(pid))
        if pid.count(-1) != 1 or len(missing) != 1:
            raise ProbeError(f"phase ids read: {pid}")
        return missing[0]

    @memo
    def reorder(self):
        """behaviour: which per-point arrays follow the row-major order of (IY, IX), which are reversed.
        A 2 x 3 map whose points are stored in a scrambled order, every array with per-point distinct values."""
        from ..gen import vendors as V
        iy = [1, 0, 1, 0, 0, 1]
        ix = [2, 1, 0, 2, 0, 1]
        n = 6
        order = np.argsort(np.array(iy) * 3 + np.array(ix))
        ident = np.arange(n)
        stored = {"x": [10.0 + 2 * c for c in ix], "y": [20.0 + 3 * r for r in iy], "phase_id": [1, 2, 3, 1, 1, 2],
                  "rotations": [0.5 + k for k in range(n)], "props": [100.0 + k for k in range(n)]}
        data = []
        for nm in BRUKER_DATA:
            vals = stored["props"]
            if nm == "X SAMPLE":
                vals = stored["x"]
            if nm == "Y SAMPLE":
                vals = stored["y"]
            data.append((_cp(nm), [int(v) for v in vals]))
        ph = lambda i, nm: {"id": i, "name": _cp(nm), "it": 225, "lat": [4000, 4000, 4000, 90000, 90000, 90000],
                            "atoms": [[_cp("Al"), _cp("0"), _cp("0"), _cp("0"), _cp("1")]]}
        f = {"grid": _cp("isometric"), "nrows": 2, "ncols": 3, "phases": [ph(1, "A"), ph(2, "B"), ph(3, "C")],
             "iy": iy, "ix": ix, "phase": stored["phase_id"],
             "euler": [(_cp("phi1"), stored["rotations"]), (_cp("PHI"), [0.25] * n), (_cp("phi2"), [0.75] * n)], "data": data}
        path = os.path.join(self.tmp, "probe_bruker_order.h5")
        V.render_bruker(path, f, {}, 0)
        tr = traced(self.files, self.m.file_reader, path)
        if tr.error is not None:
            raise ProbeError(f"file_reader on the scrambled file raised {type(tr.error).__name__} {tr.error}")
        xm = tr.result
        keys = [k for k in xm.prop if k not in self.coords()]
        got = {"x": np.asarray(xm.x) + 10.0, "y": np.asarray(xm.y) + 20.0, "phase_id": np.asarray(xm.phase_id),
               "rotations": np.rad2deg(xm.rotations.to_euler()[:, 0])}
        perms = {(False, False): ident, (True, False): order, (False, True): ident[::-1], (True, True): order[::-1]}

        def classify(arr, src):
            hit = [k for k, p in perms.items() if np.allclose(np.asarray(src, dtype=float)[p], arr, atol=1e-4)]
            if len(hit) != 1:
                raise ProbeError("order of a per-point array not attributable")
            return hit[0]
        cls = {k: classify(v, stored[k]) for k, v in got.items()}
        pc = {classify(np.asarray(xm.prop[k], dtype=float), stored["props"]) for k in keys}
        if len(pc) != 1 or next(iter(pc))[1]:
            raise ProbeError(f"properties are not ordered uniformly: {pc}")
        return [k for k, c in cls.items() if c[0]], next(iter(pc))[0], [k for k, c in cls.items() if c[1]]

    @memo
    def phase_keys(self):
        d = Spy({"Formula": "Al", "IT": 225, "LatticeConstants": np.array([4.0, 4.0, 4.0, 90.0, 90.0, 90.0]), "Name": "Al",
                 "Setting": 1, "SpaceGroup": "F m#ovl3m", "AtomPositions": {"1": "Al,0,0,0,1"}})
        quiet(self.m.dict2phase, d)
        return d.asked()

    @memo
    def unit(self):
        u = getattr(self._cls(), "scan_unit", None)
        got = self.read().result.scan_unit
        if type(u) is str and u != got:
            raise Inconsistent(f"class attribute scan_unit {u!r}, map read has {got!r}")
        return got

    @memo
    def grid_type(self):
        cmp_log = []

        class Val(str):
            def __eq__(self, other):
                cmp_log.append(other)
                return True

            def __ne__(self, other):
                cmp_log.append(other)
                return False
            __hash__ = str.__hash__

        cls = self._cls()
        obj = object.__new__(cls)
        spy = Spy({})

        class Header(dict):
            def __getitem__(self_, k):
                spy._rec(k)
                return Val("?")
        obj.header_dict = Header()
        obj.is_rectangular = True
        quiet(obj.can_read)
        keys = spy.asked()
        vals = [v for v in cmp_log if type(v) is str]
        if len(keys) != 1 or len(set(vals)) != 1:
            raise ProbeError(f"can_read asks for {keys}, compares with {vals}")
        # behaviour: the value is accepted, another one refused
        obj.header_dict = {keys[0]: vals[0]}
        yes = bool(quiet(obj.can_read))
        obj.header_dict = {keys[0]: vals[0] + "?"}
        no = bool(quiet(obj.can_read))
        if not yes or no:
            raise Inconsistent(f"can_read: {keys[0]} = {vals[0]!r} -> {yes}, other value -> {no}")
        return keys[0], vals[0]


# =================================================================================================
# EMsoft h5ebsd
# =================================================================================================
class EmsoftProbe:
    def __init__(self, repo, tmp, hints=None):
        self._memo = {}
        self.tmp = tmp
        self.m = load_plugin(repo, "emsoft_h5ebsd")
        self.files = [self.m.__file__]

    def _cls(self):
        for v in vars(self.m).values():
            if isinstance(v, type) and v.__module__ == self.m.__name__ and hasattr(v, "set_rotations"):
                return v
        raise ProbeError("file class not found")

    def _read(self, refined):
        import h5py
        from ..gen import vendors as V
        n = 4
        dict_e = [[10 * (k + 1) + 0.5, 10 * (k + 1) + 0.25, 10 * (k + 1) + 0.75] for k in range(6)]   # degrees
        f = {"nrows": 2, "ncols": 2, "stepy": 1, "x": [0, 1, 0, 1], "phase": [1, 1, 1, 1], "fzcnt": 6,
             "dict": dict_e, "idx": [2, 3, 4, 5], "refined": [[0.5, 0.25, 0.75]] * n, "props": [], "nnk": 1,
             "pg": _cp("Cubic (Oh) [m3m]"), "material": _cp("Ni"), "lat": [3500, 3500, 3500, 90000, 90000, 90000]}
        path = os.path.join(self.tmp, f"probe_emsoft_{int(refined)}.h5")
        V.render_emsoft(path, f, {}, 0)
        asked = []
        active = [0]

        def on_call(name, enter):
            if name == "set_rotations":
                active[0] += 1 if enter else -1

        orig = h5py.Group.__getitem__

        def getitem(self_, k):
            if active[0] > 0 and isinstance(k, str):
                asked.append((self_.name, k))
            return orig(self_, k)

        h5py.Group.__getitem__ = getitem
        try:
            tr = traced(self.files, self.m.file_reader, path, refined=refined, on_call=on_call)
        finally:
            h5py.Group.__getitem__ = orig
        if tr.error is not None:
            raise ProbeError(f"file_reader(refined={refined}) raised {type(tr.error).__name__} {tr.error}")
        data = [k for g, k in asked if g.rstrip("/").endswith("Data")]
        return tr, data, dict_e

    @memo
    def plain(self):
        return self._read(False)

    @memo
    def refined(self):
        return self._read(True)

    @memo
    def props(self):
        tr = self.plain()[0]
        v, _ = pick([("set_properties", tr.first("set_properties")), ("class", vars(self._cls())), mod_scope(self.m)],
                    ["expected_properties"], lambda v: is_str_list(v, 3))
        return list(v)

    @memo
    def rotations(self):
        tr, ds_r, _ = self.refined()
        e = tr.result.rotations.to_euler()[0]
        if np.allclose(e, [0.5, 0.25, 0.75], atol=1e-6):
            deg_r = False
        elif np.allclose(e, np.deg2rad([0.5, 0.25, 0.75]), atol=1e-6):
            deg_r = True
        else:
            raise ProbeError(f"refined Euler angles read as {e}")
        tr, ds_d, dict_e = self.plain()
        e = tr.result.rotations.to_euler()
        e = e.reshape(-1, 3)[0]
        hit = None
        for base in (0, 1, 2):
            row = 2 - base         # first point has index 2 in the file
            if 0 <= row < len(dict_e):
                if np.allclose(e, np.deg2rad(dict_e[row]), atol=1e-5):
                    hit = (True, base)
                elif np.allclose(e, np.asarray(dict_e[row]) % (2 * np.pi), atol=1e-5):
                    hit = (False, base)
        if hit is None:
            raise ProbeError(f"dictionary Euler angles read as {e}")
        uniq = lambda l: [k for i, k in enumerate(l) if k not in l[:i]]
        return (uniq(ds_r), deg_r, 0), (uniq(ds_d), hit[0], hit[1])

    @memo
    def unit(self):
        u = getattr(self._cls(), "scan_unit", None)
        got = self.plain()[0].result.scan_unit
        if type(u) is str and u != got:
            raise Inconsistent(f"class attribute scan_unit {u!r}, map read has {got!r}")
        return got


# =================================================================================================
# orix HDF5
# =================================================================================================
H5_CODECS = ["latin-1", "utf-8", "ascii", "cp1252", "utf-16", "cp437"]


class H5Probe:
    def __init__(self, repo, tmp, hints=None):
        self._memo = {}
        self.tmp = tmp
        self.m = load_plugin(repo, "orix_hdf5")
        self.g = load_plugin(repo, "_h5ebsd")

    @memo
    def xmap(self):
        from diffpy.structure import Atom, Lattice, Structure
        from orix.crystal_map import CrystalMap, Phase, PhaseList
        from orix.quaternion import Rotation
        s = Structure(atoms=[Atom("Al", [0, 0, 0])], lattice=Lattice(4, 4, 4, 90, 90, 90))
        pl = PhaseList(Phase(name="al", space_group=225, structure=s))
        return CrystalMap(rotations=Rotation.from_euler(np.tile([0.5, 0.25, 0.75], (4, 1))), phase_id=np.zeros(4, dtype=int),
                          x=np.array([0., 1, 0, 1]), y=np.array([0., 0, 1, 1]), phase_list=pl)

    @memo
    def written(self):
        return quiet(self.m.crystalmap2dict, self.xmap())

    @memo
    def writer_keys(self):
        d = self.written()
        return list(d["data"]), list(d["header"])

    @memo
    def reader_keys(self):
        spy = Spy(self.written())
        xm = quiet(self.m.dict2crystalmap, spy)
        if xm.size != 4:
            raise ProbeError("map read back has a different size")
        return sorted(set(spy.asked("/data"))), spy.asked("/header")

    def _phase(self):
        return self.xmap().phases[0]

    def _rw(self, writer, reader, obj):
        d = quiet(getattr(self.m, writer), obj)
        spy = Spy(d)
        quiet(getattr(self.m, reader), spy)
        return list(d), spy.asked()

    @memo
    def phase(self):
        return self._rw("phase2dict", "dict2phase", self._phase())

    @memo
    def structure(self):
        return self._rw("structure2dict", "dict2structure", self._phase().structure)

    @memo
    def lattice(self):
        return self._rw("lattice2dict", "dict2lattice", self._phase().structure.lattice)

    @memo
    def atom_attrs(self):
        return list(quiet(self.m.atom2dict, self._phase().structure[0]))

    @memo
    def none_marker(self):
        from orix.crystal_map import Phase
        d = quiet(self.m.phase2dict, Phase(name="b"))
        marks = {v for k, v in d.items() if k in ("space_group", "point_group")}
        if len(marks) != 1 or type(next(iter(marks))) is not str:
            raise ProbeError(f"markers written for a phase without symmetry: {marks}")
        mark = marks.pop()
        p = quiet(self.m.dict2phase, d)
        if p.point_group is not None or p.space_group is not None:
            raise Inconsistent(f"marker {mark!r} is written but not read back as 'no symmetry'")
        return mark

    @memo
    def generic_reader(self):
        import h5py
        path = os.path.join(self.tmp, "probe_generic.h5")
        test = bytes([0xe9, 0x80, 0xa4, 0x41])
        with h5py.File(path, "w") as f:
            for n in range(0, 5):
                f.create_dataset(f"a{n}", data=np.arange(n, dtype=np.int64) + 5)
            f.create_dataset("s", data=np.bytes_(test))
        with h5py.File(path, "r") as f:
            d = quiet(self.g.hdf5group2dict, f["/"])
        unwrapped = [n for n in range(0, 5) if not isinstance(d[f"a{n}"], np.ndarray)]
        if len(unwrapped) != 1:
            raise ProbeError(f"array lengths unwrapped: {unwrapped}")
        got = d["s"]
        encs = []
        for c in H5_CODECS:
            try:
                if test.decode(c) == got:
                    encs.append(c)
            except Exception:
                pass
        if len(encs) != 1:
            raise ProbeError(f"byte string read as {got!r}: codecs {encs}")
        return unwrapped[0], encs[0]

    @memo
    def str_pad(self):
        import h5py
        path = os.path.join(self.tmp, "probe_pad.h5")
        pads = set()
        with h5py.File(path, "w") as f:
            quiet(self.m.dict2hdf5group, {"k3": "abc", "k7": "abcdefg"}, f["/"])
            for k, n in (("k3", 3), ("k7", 7)):
                pads.add(f[k].dtype.itemsize - n)
        if len(pads) != 1:
            raise ProbeError(f"string dtype paddings {pads}")
        return pads.pop()
