"""T-ast generator: OrixGen/Kernels.lean from the AST of /repo's scalar kernels."""
from __future__ import annotations

import ast
import os

from . import py2lean

REPO = os.environ.get("VERIF_REPO", "/repo")

# file, function, symbolic parameters, gufunc output buffer
KERNELS = [
    ("orix/quaternion/quaternion.py", "qu_conj_gufunc", [("qu", 4)], ("qu2", 4)),
    ("orix/quaternion/quaternion.py", "qu_multiply_gufunc", [("qu1", 4), ("qu2", 4)], ("qu12", 4)),
    ("orix/quaternion/quaternion.py", "qu_rotate_vec_gufunc", [("qu", 4), ("v1", 3)], ("v2", 3)),
    ("orix/quaternion/_conversions.py", "qu2om_single", [("qu", 4)], None),
    ("orix/quaternion/_conversions.py", "om2qu_single", [("om", (3, 3))], None),
    ("orix/quaternion/_conversions.py", "eu2qu_single", [("eu", 3)], None),
    ("orix/quaternion/_conversions.py", "qu2eu_single", [("qu", 4)], None),
    ("orix/quaternion/_conversions.py", "ax2qu_single", [("ax", 4)], None),
    ("orix/quaternion/_conversions.py", "qu2ax_single", [("qu", 4)], None),
    ("orix/quaternion/_conversions.py", "qu2ho_single", [("qu", 4)], None),
    ("orix/quaternion/_conversions.py", "ho2ax_single", [("ho", 3)], None),
    ("orix/quaternion/_conversions.py", "get_pyramid_single", [("xyz", 3)], None),
    ("orix/plot/direction_color_keys/_util.py", "hsl_to_hsv", [("hue", None), ("saturation", None), ("lightness", None)], None),
]


# vectorised numpy helpers translated on ONE symbolic element (leading batch axes absent): file, function, Lean name,
# symbolic parameters (C09)
ELEMENTWISE = [
    ("orix/vector/miller.py", "_hkl2hkil", "hkl2hkil", [("hkl", 3)]),
    ("orix/vector/miller.py", "_hkil2hkl", "hkil2hkl", [("hkil", 4)]),
    ("orix/vector/miller.py", "_uvw2UVTW", "uvw2UVTW", [("uvw", 3)]),
    ("orix/vector/miller.py", "_UVTW2uvw", "UVTW2uvw", [("UVTW", 4)]),
]


def stereo_kernels(funcs, consts):
    """`_vector2xy(v, pole)` on the components of `v.unit` and `InverseStereographicProjection.xy2vector` with
    `self.pole` symbolic (C20); returns [(lean name, arity, text)]"""
    out = []
    interp = py2lean.Interp(funcs, dict(consts))
    vals, flat = py2lean.sym_params(interp, [("pole", None), ("vx", None), ("vy", None), ("vz", None)])
    interp.constants["v.unit.xyz"] = [vals[1], vals[2], vals[3]]
    if "_vector2xy" not in funcs:
        raise py2lean.Unsupported("function not found")
    value = interp.run_function(funcs["_vector2xy"], [py2lean.NONE, vals[0]])
    out.append(("vector2xy", 4, py2lean.emit_def("vector2xy", flat, value, interp,
                                                  doc="orix/projections/stereographic.py::_vector2xy (on v.unit.xyz)")))
    f = funcs.get("xy2vector")
    if f is None or not isinstance(f.body[-1], ast.Return):
        raise py2lean.Unsupported("xy2vector: pattern not found")
    lists = [n for n in ast.walk(f.body[-1]) if isinstance(n, ast.List) and len(n.elts) == 3
             and all(isinstance(e, ast.Name) for e in n.elts)]
    if len(lists) != 1:
        raise py2lean.Unsupported("xy2vector: returned component list not found")
    interp = py2lean.Interp(funcs, dict(consts))
    vals, flat = py2lean.sym_params(interp, [("pole", None), ("x", None), ("y", None)])
    interp.constants["self.pole"] = vals[0]
    r = interp.exec_block(f.body[:-1], {"self": py2lean.NONE, "x": vals[1], "y": vals[2]})
    if r[0] != "fall":
        raise py2lean.Unsupported("xy2vector: early return")
    value = [r[1][e.id] for e in lists[0].elts]
    out.append(("xy2vector", 3, py2lean.emit_def("xy2vector", flat, value, interp,
                                                  doc="orix/projections/stereographic.py::InverseStereographicProjection.xy2vector")))
    return out


def so3_kernels(funcs, consts):
    """one grid quaternion of `_three_uniform_samples_method` (C19): the statements between the flattened meshes
    (`X = inputs[k].flatten()`) and the array of the four components (`q = np.asarray([.., .., .., ..])`), executed on three
    symbolic scalars in place of the meshes; returns [(lean name, arity, text)]"""
    f = funcs.get("_three_uniform_samples_method")
    if f is None:
        raise py2lean.Unsupported("function not found")
    mesh, start = {}, None
    for i, st in enumerate(f.body):
        if isinstance(st, ast.Assign) and len(st.targets) == 1 and isinstance(st.targets[0], ast.Name):
            v = st.value
            if (isinstance(v, ast.Call) and isinstance(v.func, ast.Attribute) and v.func.attr in ("flatten", "ravel")
                    and isinstance(v.func.value, ast.Subscript)):
                try:
                    k = ast.literal_eval(v.func.value.slice)
                except Exception:
                    continue
                if isinstance(k, int):
                    mesh[k] = st.targets[0].id
                    start = i
    if sorted(mesh) != [0, 1, 2]:
        raise py2lean.Unsupported("flattened meshes not found")
    end = target = None
    for j in range(start + 1, len(f.body)):
        st = f.body[j]
        if isinstance(st, ast.Assign) and len(st.targets) == 1 and isinstance(st.targets[0], ast.Name) \
                and isinstance(st.value, ast.Call) and st.value.args and isinstance(st.value.args[0], ast.List) \
                and len(st.value.args[0].elts) == 4:
            end, target = j, st.targets[0].id
            break
    if end is None:
        raise py2lean.Unsupported("array of the four components not found")
    interp = py2lean.Interp(funcs, dict(consts))
    vals, flat = py2lean.sym_params(interp, [("u1", None), ("u2", None), ("u3", None)])
    r = interp.exec_block(f.body[start + 1:end + 1], {mesh[0]: vals[0], mesh[1]: vals[1], mesh[2]: vals[2]})
    if r[0] != "fall":
        raise py2lean.Unsupported("early return")
    value = r[1][target]
    if not isinstance(value, list) or len(value) != 4:
        raise py2lean.Unsupported("component list")
    return [("so3_quat_point", 3, py2lean.emit_def(
        "so3_quat_point", flat, value, interp,
        doc="orix/sampling/SO3_sampling.py::_three_uniform_samples_method (one grid quaternion from u1, u2, u3)"))]


def polar_kernels(funcs, consts):
    """`Vector3d.from_polar` in radians (C19, C20): the statements that compute `x, y, z` from `azimuth, polar` (from the
    first use of `np.sin(polar)` to the `np.stack((x, y, z), …)` of the return), on two symbolic scalars; the `degrees`
    conversion and the multiplication by `radial` are left to the correspondence check"""
    f = funcs.get("from_polar")
    if f is None or not isinstance(f.body[-1], ast.Return):
        raise py2lean.Unsupported("from_polar: pattern not found")
    tup = [n for n in ast.walk(f.body[-1]) if isinstance(n, (ast.Tuple, ast.List)) and len(n.elts) == 3
           and all(isinstance(e, ast.Name) for e in n.elts)]
    if len(tup) != 1:
        raise py2lean.Unsupported("from_polar: stacked components not found")
    names = [e.id for e in tup[0].elts]
    # the block starts after the last statement that rebinds the arguments (atleast_1d, degrees conversion)
    args = [a.arg for a in f.args.args]
    if not {"azimuth", "polar"} <= set(args):
        raise py2lean.Unsupported("from_polar: argument names")
    start = 0
    for i, st in enumerate(f.body[:-1]):
        if isinstance(st, ast.If) or (isinstance(st, ast.Assign) and any(isinstance(t, ast.Name) and t.id in ("azimuth", "polar")
                                                                         for t in st.targets)):
            start = i + 1
    interp = py2lean.Interp(funcs, dict(consts))
    vals, flat = py2lean.sym_params(interp, [("azimuth", None), ("polar", None)])
    r = interp.exec_block(f.body[start:-1], {"azimuth": vals[0], "polar": vals[1], "cls": py2lean.NONE})
    if r[0] != "fall":
        raise py2lean.Unsupported("from_polar: early return")
    value = [r[1][n] for n in names]
    return [("from_polar_xyz", 2, py2lean.emit_def("from_polar_xyz", flat, value, interp,
                                                    doc="orix/vector/vector3d.py::Vector3d.from_polar (radians, unit radius)"))]


def module_constants():
    """numeric module-level constants of orix/constants.py, read from its AST"""
    out = {}
    path = os.path.join(REPO, "orix/constants.py")
    tree = ast.parse(open(path).read())
    for n in tree.body:
        if isinstance(n, ast.Assign) and len(n.targets) == 1 and isinstance(n.targets[0], ast.Name):
            try:
                v = ast.literal_eval(n.value)
            except Exception:
                continue
            if isinstance(v, (int, float)) and not isinstance(v, bool):
                out["constants." + n.targets[0].id] = v
    return out


def load_funcs(relpath):
    tree = ast.parse(open(os.path.join(REPO, relpath)).read())
    funcs = {}
    for n in ast.walk(tree):
        if isinstance(n, ast.FunctionDef):
            funcs.setdefault(n.name, n)
    return funcs


def outer_dask_tables(funcs, consts):
    """the einsum coefficient tables of Quaternion._outer_dask as Lean kernels"""
    f = funcs["_outer_dask"]
    out = {}
    for node in ast.walk(f):
        if isinstance(node, ast.If):
            for branch, names, params in (
                (node.body, "abcd", [("a1", None), ("b1", None), ("c1", None), ("d1", None),
                                     ("a2", None), ("b2", None), ("c2", None), ("d2", None)]),
                (node.orelse, "xyz", [("a1", None), ("b1", None), ("c1", None), ("d1", None),
                                      ("x2", None), ("y2", None), ("z2", None)]),
            ):
                assigns = {}
                for st in branch:
                    if isinstance(st, ast.Assign) and isinstance(st.targets[0], ast.Name) \
                            and st.targets[0].id in names:
                        assigns[st.targets[0].id] = st.value
                if set(assigns) == set(names):
                    out[names] = (assigns, params)
    res = []
    for names, (assigns, params) in out.items():
        interp = py2lean.Interp(funcs, consts)
        vals, flat = py2lean.sym_params(interp, params)
        env = {p: v for (p, _), v in zip(params, vals)}
        env["sum_over"] = 0
        value = [interp.eval(assigns[n], env) for n in names]
        lean = "outer_dask_qq" if names == "abcd" else "outer_dask_qv"
        res.append((lean, py2lean.emit_def(lean, flat, value, interp,
                                           doc=f"einsum table of Quaternion._outer_dask ({names})")))
    return res


def generate():
    consts = module_constants()
    parts = ["import OrixModel.Scalar\n/- GENERATED by harness/extract/kernels.py from the Python AST of /repo. Do not edit. -/\n"
             "namespace Orix.Gen\nopen Orix\n"]
    status = {}
    cache = {}
    for rel, fname, params, outp in KERNELS:
        funcs = cache.setdefault(rel, load_funcs(rel))
        try:
            if fname not in funcs:
                raise py2lean.Unsupported("function not found")
            parts.append(py2lean.translate_function(funcs, consts, fname, params, out_param=outp,
                                                    doc=f"{rel}::{fname}"))
            status[fname] = "translated"
        except py2lean.Unsupported as e:
            status[fname] = f"not translated: {e}"
        except RecursionError:
            status[fname] = "not translated: recursion"
        except (KeyError, IndexError, TypeError, AttributeError, ValueError) as e:  # source shape outside the subset
            status[fname] = f"not translated: {type(e).__name__} {e}"
    try:
        funcs = cache.setdefault("orix/quaternion/quaternion.py", load_funcs("orix/quaternion/quaternion.py"))
        tabs = outer_dask_tables(funcs, consts)
        for lean, text in tabs:
            parts.append(text)
            status[lean] = "translated"
        for lean in ("outer_dask_qq", "outer_dask_qv"):
            status.setdefault(lean, "not translated: pattern not found")
    except py2lean.Unsupported as e:
        status["outer_dask_qq"] = status["outer_dask_qv"] = f"not translated: {e}"
    extra_arity = {}
    for rel, fname, lean, params in ELEMENTWISE:
        funcs = cache.setdefault(rel, load_funcs(rel))
        try:
            if fname not in funcs:
                raise py2lean.Unsupported("function not found")
            parts.append(py2lean.translate_function(funcs, consts, fname, params, lean_name=lean,
                                                    doc=f"{rel}::{fname} (one element)"))
            status[lean] = "translated"
            extra_arity[lean] = sum(n for _, n in params)
        except (py2lean.Unsupported, KeyError, IndexError, TypeError) as e:
            status[lean] = f"not translated: {e}"
    try:
        rel = "orix/projections/stereographic.py"
        for lean, n, text in stereo_kernels(cache.setdefault(rel, load_funcs(rel)), consts):
            parts.append(text)
            status[lean] = "translated"
            extra_arity[lean] = n
    except (py2lean.Unsupported, KeyError, IndexError, TypeError) as e:
        for lean in ("vector2xy", "xy2vector"):
            status.setdefault(lean, f"not translated: {e}")
    try:
        rel = "orix/sampling/SO3_sampling.py"
        for lean, n, text in so3_kernels(cache.setdefault(rel, load_funcs(rel)), consts):
            parts.append(text)
            status[lean] = "translated"
            extra_arity[lean] = n
    except (py2lean.Unsupported, KeyError, IndexError, TypeError, AttributeError) as e:
        status.setdefault("so3_quat_point", f"not translated: {e}")
    try:
        rel = "orix/vector/vector3d.py"
        for lean, n, text in polar_kernels(cache.setdefault(rel, load_funcs(rel)), consts):
            parts.append(text)
            status[lean] = "translated"
            extra_arity[lean] = n
    except (py2lean.Unsupported, KeyError, IndexError, TypeError, AttributeError) as e:
        status.setdefault("from_polar_xyz", f"not translated: {e}")
    # registry for the driver: name -> list function
    reg = ["/-- generated kernels by name, as list functions (for the line-protocol driver) -/",
           "def registry {α : Type} [Scalar α] : List (String × (List α → Option (List α))) := ["]
    entries = []
    arities = {f: sum((n if isinstance(n, int) else (1 if n is None else n[0] * n[1])) for _, n in ps)
               for _, f, ps, _ in KERNELS}
    arities["outer_dask_qq"] = 8
    arities["outer_dask_qv"] = 7
    arities.update(extra_arity)
    for f, st in status.items():
        if st != "translated":
            continue
        n = arities[f]
        vs = [f"x{i}" for i in range(n)]
        entries.append(f'  ("{f}", fun xs => match xs with | [{", ".join(vs)}] => some ({f} {" ".join(vs)}) | _ => none)')
    reg.append(",\n".join(entries))
    reg.append("]")
    parts.append("\n".join(reg))
    parts.append("end Orix.Gen\n")
    return "\n".join(parts), status


if __name__ == "__main__":
    text, status = generate()
    print(text)
    import json, sys
    print(json.dumps(status, indent=1), file=sys.stderr)
