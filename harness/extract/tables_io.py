"""T-gen of the I/O tables: lean/OrixGen/IoTables.lean from /repo's current source.

Data that lives in module objects (point-group alias table, group names, proper subgroups) is read from the
imported modules.  Tables and constants that live inside functions (vendor column tables, footprints, Laue-class
list, sentinel values, column order of the written table, property-name lists, unit flags) have **two sources**:

* *ast*: the literal at its syntactic place in the plugin file (first source, as before);
* *exec*: the same item obtained by executing the code under test on synthetic inputs (io_probe.py: locals of the
  traced call by name or shape, module-level objects, behaviour probes, key-recording dicts).

When both are available they must agree (compared modulo what the rendered table cannot see, e.g. the order in
which keys are asked for); if they disagree the status says so and the executed value is used, because it is what
the code does.  When only one is available it is used.  Nothing is guessed: an item that neither source can
locate is recorded in the status and the corresponding Lean constant is emitted as an *empty* table, so that the
obligations that depend on it fail visibly (and the correspondence check decides whether behaviour changed).
Status strings: "extracted (ast+exec agree)", "extracted (ast)", "extracted (exec)", each possibly followed by
" [why the other source is missing / how they disagree]", or "not extracted: …"."""
from __future__ import annotations

import ast
import os

import numpy as np

REPO = os.environ.get("VERIF_REPO", "/repo")
PLUG = "orix/io/plugins"
VENDORS = {"tsl": ".tsl", "emsoft": ".emsoft", "astar": ".astar", "orix": ".orix", "unknown": ".unknown"}


class NotFound(Exception):
    pass


CLEAN = ("extracted", "extracted (ast)", "extracted (ast+exec agree)")


def is_clean(status):
    """status strings that need no note in a check's output"""
    return status in CLEAN


def _canon(v):
    if isinstance(v, dict):
        return [[_canon(k), _canon(x)] for k, x in v.items()]
    if isinstance(v, (list, tuple)):
        return [_canon(x) for x in v]
    if isinstance(v, (np.integer, np.floating, np.bool_)):
        return v.item()
    return v


def _short(v, n=160):
    t = repr(_canon(v))
    return t if len(t) <= n else t[:n] + "…"


def two_sources(st, key, ast_fn, exec_fn, default, same=None, conv=None):
    """one table item from its two sources (see module docstring); total: never raises.
    same(a, e): agreement of the AST value with the executed one (default: equal after list/tuple normalisation);
    conv(e): executed value in the shape the renderer expects (default: as is)"""
    def attempt(fn):
        if fn is None:
            return None, None
        try:
            return ("ok", fn()), None
        except Exception as e:  # any source shape / behaviour the extractor does not understand = "not available"
            kind = "INCONSISTENT " if type(e).__name__ == "Inconsistent" else ""
            return None, f"{kind}{type(e).__name__} {e}"
    a, a_err = attempt(ast_fn)
    e, e_err = attempt(exec_fn)
    if e is not None and conv is not None:
        try:
            e = ("ok", conv(e[1]))
        except Exception as x:
            e, e_err = None, f"{type(x).__name__} {x}"
    if a is not None and e is not None:
        try:
            agree = same(a[1], e[1]) if same else _canon(a[1]) == _canon(e[1])
        except Exception:
            agree = False
        if agree:
            st[key] = "extracted (ast+exec agree)"
            return a[1]
        st[key] = f"extracted (exec) [ast DISAGREES: ast={_short(a[1])} exec={_short(e[1])}]"
        return e[1]
    if a is not None:
        st[key] = "extracted (ast)" + (f" [exec: {e_err}]" if e_err else "")
        return a[1]
    if e is not None:
        st[key] = f"extracted (exec) [ast: {a_err}]"
        return e[1]
    st[key] = f"not extracted: ast: {a_err}" + (f"; exec: {e_err}" if exec_fn is not None else "")
    return default


def _probe(st, key, cls, tmp, **kw):
    """the executing probe of one plugin, or None (recorded) when the module cannot even be loaded"""
    if tmp is None:
        return None
    try:
        from . import io_probe
        return getattr(io_probe, cls)(REPO, tmp, **kw)
    except Exception as e:
        st[key] = f"exec source unavailable: {type(e).__name__} {e}"
        return None


def _ex(probe, name, *post):
    """exec source `probe.name()` (None when there is no probe)"""
    if probe is None:
        return None

    def run():
        v = getattr(probe, name)()
        for f in post:
            v = f(v)
        return v
    return run


def _set_eq(a, b):
    return sorted(map(repr, _canon(a))) == sorted(map(repr, _canon(b))) and len(a) == len(b)


def _parse(rel, st=None):
    try:
        return ast.parse(open(os.path.join(REPO, rel)).read())
    except Exception as e:  # unreadable / unparsable file: every AST item of it is "not available"
        if st is not None:
            st[f"parse {rel}"] = f"not parsed: {type(e).__name__} {e}"
        return ast.Module(body=[], type_ignores=[])


def _func(tree, name):
    for n in ast.walk(tree):
        if isinstance(n, (ast.FunctionDef,)) and n.name == name:
            return n
    raise NotFound(f"function {name}")


def _assign(scope, name):
    """value node of the first `name = …` inside scope (any depth)"""
    for n in ast.walk(scope):
        if isinstance(n, ast.Assign) and len(n.targets) == 1 and isinstance(n.targets[0], ast.Name) \
                and n.targets[0].id == name:
            return n.value
        if isinstance(n, ast.AnnAssign) and isinstance(n.target, ast.Name) and n.target.id == name and n.value:
            return n.value
    raise NotFound(f"assignment to {name}")


def _lit(node):
    return ast.literal_eval(node)


def _num(node):
    """numeric value of a small constant expression (may use np.pi)"""
    for n in ast.walk(node):
        if isinstance(n, (ast.Call, ast.Lambda, ast.Subscript)):
            raise NotFound("expression too complex")
        if isinstance(n, ast.Name) and n.id != "np":
            raise NotFound(f"free name {n.id}")
    return eval(compile(ast.Expression(node), "<ast>", "eval"), {"__builtins__": {}, "np": np})


# ---- Lean rendering ---------------------------------------------------------------------
def lstr(s):
    if not isinstance(s, str):
        # a value of another shape than the table expects (e.g. a list of vendors where one vendor is expected): rendered as
        # its marked repr, so that the table differs from the model's and the kernel obligation fails
        s = "!unexpected:" + repr(s)
    out = []
    for ch in s:
        if ch == "\\":
            out.append("\\\\")
        elif ch == '"':
            out.append('\\"')
        elif ch == "\n":
            out.append("\\n")
        elif ch == "\t":
            out.append("\\t")
        elif 32 <= ord(ch) < 127:
            out.append(ch)
        else:
            out.append("\\u{%x}" % ord(ch))
    return 'S "' + "".join(out) + '"'


def llist(xs, f=lstr):
    return "[" + ", ".join(f(x) for x in xs) + "]"


def lint(v):
    v = int(v)
    return f"({v})" if v < 0 else str(v)


# ---- .ang ---------------------------------------------------------------------------------
def _cols_norm(c):
    return [(v, [list(d[k]) for k in sorted(d)]) for v, d in c.items()]


def extract_ang(st, tmp=None):
    tree = _parse(f"{PLUG}/ang.py", st)
    out = {}
    pr = _probe(st, "ang.exec", "AngProbe", tmp, hints=out)

    def grab(key, fn, default, ex=None, same=None, conv=None):
        out[key] = two_sources(st, f"ang.{key}", fn, _ex(pr, ex) if isinstance(ex, str) else ex, default, same, conv)

    gvc = lambda: _func(tree, "_get_vendor_columns")
    rd = lambda: _func(tree, "file_reader")
    wr = lambda: _func(tree, "file_writer")
    grab("footprint", lambda: _lit(_assign(gvc(), "vendor_footprint")), {}, "footprint")
    for note in getattr(pr, "footprint_notes", []):
        st["ang.footprint"] += f" [{note}]"
    grab("columns", lambda: _lit(_assign(gvc(), "column_names")), {}, "columns",
         same=lambda a, e: _cols_norm(a) == _cols_norm(e))
    grab("data_keys", lambda: list(_lit(_assign(rd(), "data_dict")).keys()), [], "data_keys")

    def not_indexed_vendors():
        for n in ast.walk(rd()):
            if isinstance(n, ast.If) and isinstance(n.test, ast.Compare) and isinstance(n.test.left, ast.Name) \
                    and n.test.left.id == "vendor" and isinstance(n.test.ops[0], ast.In):
                vendors = _lit(n.test.comparators[0])
                # body: not_indexed = data_dict["prop"][NAME] == VALUE
                for a in ast.walk(n):
                    if isinstance(a, ast.Compare) and isinstance(a.ops[0], ast.Eq) and isinstance(a.left, ast.Subscript):
                        return vendors, _lit(a.left.slice), _num(a.comparators[0])
        raise NotFound("not-indexed rule")

    grab("not_indexed", not_indexed_vendors, ([], "", 0), "not_indexed",
         same=lambda a, e: _set_eq(a[0], e[0]) and a[1] == e[1] and a[2] == e[2])

    def units():
        for n in ast.walk(rd()):
            if isinstance(n, ast.If) and isinstance(n.test, ast.Compare) and isinstance(n.test.left, ast.Name) \
                    and n.test.left.id == "vendor" and isinstance(n.test.ops[0], ast.Eq):
                v = _lit(n.test.comparators[0])
                a = [_lit(x.value) for x in n.body if isinstance(x, ast.Assign) and x.targets[0].id == "scan_unit"]
                b = [_lit(x.value) for x in n.orelse if isinstance(x, ast.Assign) and x.targets[0].id == "scan_unit"]
                if a and b:
                    return v, a[0], b[0]
        raise NotFound("scan unit rule")

    grab("units", units, ("", "", ""), "units", conv=lambda u: ("astar", u[0], u[1]),
         same=lambda a, e: ((a[1] if a[0] == "astar" else ""), a[2]) == (e[1], e[2]))
    grab("decimals", lambda: int(_lit(_assign(wr(), "decimals"))), 0, "decimals")

    def euler_sentinel():
        for n in ast.walk(wr()):
            if isinstance(n, ast.Assign) and isinstance(n.targets[0], ast.Subscript) \
                    and isinstance(n.targets[0].value, ast.Name) and n.targets[0].value.id == "eulers":
                return float(_num(n.value))
        raise NotFound("euler sentinel")

    grab("euler_sentinel", euler_sentinel, 0.0, "euler_sentinel", same=lambda a, e: abs(a - e) <= 0.6e-5)

    def prop_sentinels():
        arr = np.full((1, 7), None, dtype=object)
        found = 0
        for n in wr().body:
            if isinstance(n, ast.Assign) and isinstance(n.targets[0], ast.Subscript) \
                    and isinstance(n.targets[0].value, ast.Name) and n.targets[0].value.id == "prop_arrays":
                sl = n.targets[0].slice
                if not (isinstance(sl, ast.Tuple) and len(sl.elts) == 2):
                    raise NotFound("sentinel index shape")
                ix = sl.elts[1]
                if isinstance(ix, ast.Slice):
                    idx = slice(*[None if p is None else int(_num(p)) for p in (ix.lower, ix.upper, ix.step)])
                else:
                    idx = int(_num(ix))
                arr[0, idx] = _num(n.value)
                found += 1
        row = list(arr[0])
        if not found or any(v is None for v in row) or len(set(row[4:])) != 1:
            raise NotFound(f"sentinel assignments incomplete: {row}")
        return [float(v) for v in row[:5]]

    grab("prop_sentinels", prop_sentinels, [0, 0, 0, 0, 0], "prop_sentinels")

    def expected_names():
        v = _assign(_func(tree, "_get_prop_arrays"), "all_expected_prop_names")
        if isinstance(v, ast.BinOp):
            v = v.left
        names = _lit(v)
        if len(names) != 4:
            raise NotFound("expected 4 standard property lists")
        return names

    grab("expected_names", expected_names, [[], [], [], []], "expected_names")

    def column_order():
        for n in ast.walk(wr()):
            if isinstance(n, ast.Call) and isinstance(n.func, ast.Attribute) and n.func.attr == "savetxt":
                for kw in n.keywords:
                    if kw.arg == "X":
                        call = kw.value
                        lst = call.args[0]
                        env = {"__builtins__": {}, "np": np,
                               "eulers": np.array([["e1", "e2", "e3"]], dtype=object),
                               "x": np.array(["x"], dtype=object), "y": np.array(["y"], dtype=object),
                               "new_phase_ids": np.array(["phase"], dtype=object),
                               "prop_arrays": np.array([["p0", "p1", "p2", "p3", "ex0", "ex1"]], dtype=object)}
                        cols = eval(compile(ast.Expression(lst), "<ast>", "eval"), env)
                        row = list(np.column_stack(cols)[0])
                        if "ex0" in row:
                            i = row.index("ex0")
                            if row[i:i + 2] != ["ex0", "ex1"]:
                                raise NotFound("extras not contiguous")
                            row[i:i + 2] = ["extras"]
                        return row
        raise NotFound("column_stack in savetxt")

    grab("column_order", column_order, [], "column_order")

    def column_header():
        for n in ast.walk(wr()):
            if isinstance(n, ast.Constant) and isinstance(n.value, str) and "Column names:" in n.value:
                # the constant may be one piece of an implicitly concatenated string
                pass
        for n in ast.walk(wr()):
            if isinstance(n, ast.AugAssign) and isinstance(n.target, ast.Name) and n.target.id == "header":
                try:
                    s = _lit(n.value)
                except Exception:
                    continue
                if isinstance(s, str) and "Column names:" in s:
                    return [t.strip() for t in s.split(":", 1)[1].split(",")]
        raise NotFound("Column names header")

    grab("column_header", column_header, [], "column_header")

    def no_pg():
        f = _func(tree, "_get_header_from_phases")
        for n in ast.walk(f):
            if isinstance(n, ast.If) and isinstance(n.test, ast.UnaryOp) and isinstance(n.test.op, ast.Not):
                for a in n.body:
                    if isinstance(a, ast.Assign) and a.targets[0].id == "point_group_name":
                        return _lit(a.value)
        raise NotFound("point_group_name default")

    grab("no_pg", no_pg, "", "no_pg")
    return out


def render_ang(a, sym):
    fp = a["footprint"]
    order = [VENDORS[k] for k in fp if k in VENDORS]
    orix_fp = fp.get("orix", "")
    fp_names = [t.strip() for t in orix_fp.split(":", 1)[1].split(",")] if ":" in orix_fp else []
    cols = []
    for v, variants in a["columns"].items():
        if v in VENDORS:
            ks = sorted(variants)
            cols.append(f"    ({VENDORS[v]}, [" + ",\n      ".join(llist(variants[k]) for k in ks) + "])")
    ni_v, ni_name, ni_val = a["not_indexed"]
    uv, u_a, u_b = a["units"]
    scale = 10 ** a["decimals"]
    es = int(np.rint(a["euler_sentinel"] * scale))
    ps = a["prop_sentinels"]
    tags = {"e1": ".e1", "e2": ".e2", "e3": ".e3", "x": ".x", "y": ".y", "p0": ".p0", "p1": ".p1", "p2": ".p2",
            "p3": ".p3", "phase": ".phase", "extras": ".extras"}
    en = a["expected_names"]
    txt = f"""/-- reader tables of orix/io/plugins/ang.py (`_get_vendor_columns`, `file_reader`) -/
def angReader : ReaderTables where
  footprintOrder := [{", ".join(order)}]
  orixFootprintNames := {llist(fp_names)}
  columns := [
{(",\n").join(cols)}]
  dataKeys := {llist(a["data_keys"])}
  notIndexedVendors := [{", ".join(VENDORS[v] for v in sorted(ni_v) if v in VENDORS)}]
  ciName := {lstr(ni_name)}
  ciSentinel := {lint(ni_val)}
  astarUnit := {lstr(u_a if uv == "astar" else "")}
  defaultUnit := {lstr(u_b)}
  aliases := pointGroupAliases
  groups := pointGroupNames

/-- constants of the writer (`file_writer`, `_get_prop_arrays`, `_get_header_from_phases`) -/
def angWriter : WriterTables where
  scale := {scale}
  eulerSentinel := {lint(es)}
  sentIq := {lint(ps[0])}
  sentCi := {lint(ps[1])}
  sentDs := {lint(ps[2])}
  sentFit := {lint(ps[3])}
  sentExtra := {lint(ps[4])}
  expIq := {llist(en[0])}
  expCi := {llist(en[1])}
  expDs := {llist(en[2])}
  expFit := {llist(en[3])}
  columnOrder := [{", ".join(tags.get(t, ".extras") for t in a["column_order"])}]
  columnHeader := {llist(a["column_header"])}
  proper := properSubgroup
  aliases := pointGroupAliases
  noPointGroup := {lstr(a["no_pg"])}
"""
    return txt


# ---- symmetry module objects --------------------------------------------------------------
def extract_symmetry(st):
    from orix.quaternion import symmetry as S
    proper = [(g.name, g.proper_subgroup.name) for g in S._groups]
    # point groups `get_point_group` derives from space groups may be objects outside `_groups` (names "2", "m")
    seen = {a for a, _ in proper}
    for n in range(1, 231):
        g = S.get_point_group(n)
        if g.name not in seen:
            seen.add(g.name)
            proper.append((g.name, g.proper_subgroup.name))
    out = {"aliases": {k: list(v) for k, v in S.point_group_aliases.items()},
           "groups": [g.name for g in S._groups],
           "proper": proper}
    st["symmetry.tables"] = "extracted"
    return out


def render_symmetry(s):
    al = ",\n  ".join(f"({lstr(k)}, {llist(v)})" for k, v in s["aliases"].items())
    pr = ",\n  ".join(f"({lstr(a)}, {lstr(b)})" for a, b in s["proper"])
    return f"""/-- `orix.quaternion.symmetry.point_group_aliases` (module object) -/
def pointGroupAliases : List (Str × List Str) := [
  {al}]

/-- names of `orix.quaternion.symmetry._groups` (module objects, list order) -/
def pointGroupNames : List Str := {llist(s["groups"])}

/-- name of each group (`_groups` and the groups `get_point_group` returns) ↦ name of its `proper_subgroup` -/
def properSubgroup : List (Str × Str) := [
  {pr}]
"""


# ---- .ctf ---------------------------------------------------------------------------------
def extract_ctf(st, tmp=None):
    tree = _parse(f"{PLUG}/ctf.py", st)
    out = {}
    pr = _probe(st, "ctf.exec", "CtfProbe", tmp)

    def grab(key, fn, default, ex=None, same=None, conv=None):
        out[key] = two_sources(st, f"ctf.{key}", fn, _ex(pr, ex) if isinstance(ex, str) else ex, default, same, conv)

    rd = lambda: _func(tree, "file_reader")
    grab("columns", lambda: _lit(_assign(rd(), "column_names")), [], "columns")
    grab("emsoft_mapping", lambda: _lit(_assign(rd(), "emsoft_mapping")), {}, "emsoft_mapping")
    grab("data_keys", lambda: list(_lit(_assign(rd(), "data_dict")).keys()), [], "data_keys")
    grab("laue_ids", lambda: _lit(_assign(_func(tree, "_get_phases_from_header"), "laue_ids")), [], "laue_ids")

    def not_indexed():
        for n in ast.walk(rd()):
            if isinstance(n, ast.Assign) and isinstance(n.targets[0], ast.Name) and n.targets[0].id == "not_indexed":
                c = n.value
                return _lit(c.left.slice), int(_num(c.comparators[0]))
        raise NotFound("not_indexed")

    grab("not_indexed", not_indexed, ("", -12345), "not_indexed")
    grab("unit", lambda: [
        _lit(n.value) for n in ast.walk(rd()) if isinstance(n, ast.Assign) and isinstance(n.targets[0], ast.Subscript)
        and isinstance(n.targets[0].slice, ast.Constant) and n.targets[0].slice.value == "scan_unit"][0], "", "unit")

    def degrees():
        for n in ast.walk(rd()):
            if isinstance(n, ast.Call) and isinstance(n.func, ast.Attribute) and n.func.attr == "from_euler":
                for kw in n.keywords:
                    if kw.arg == "degrees":
                        return bool(_lit(kw.value))
                return False
        raise NotFound("from_euler call")

    grab("degrees", degrees, False, "degrees")

    def vendors():
        f = _func(tree, "_get_header")
        d = _assign(f, "vendor_pattern")
        keys = [_lit(k) for k in d.keys]
        default = None
        for n in ast.walk(f):
            if isinstance(n, ast.IfExp):
                default = _lit(n.orelse)
        if default is None:
            raise NotFound("default vendor")
        return keys, default

    grab("vendors", vendors, ([], ""), "vendors")
    for note in getattr(pr, "vendor_notes", []):
        st["ctf.vendors"] += f" [{note}]"

    def emsoft_vendor():
        for n in ast.walk(rd()):
            if isinstance(n, ast.BoolOp) and isinstance(n.op, ast.And):
                for v in n.values:
                    if isinstance(v, ast.Compare) and isinstance(v.left, ast.Name) and v.left.id == "vendor" \
                            and isinstance(v.ops[0], ast.Eq):
                        return _lit(v.comparators[0])
        raise NotFound("emsoft vendor test")

    grab("emsoft_vendor", emsoft_vendor, "", "emsoft_vendor")
    grab("astar_vendor", lambda: [
        _lit(n.test.comparators[0]) for n in ast.walk(rd()) if isinstance(n, ast.If) and isinstance(n.test, ast.Compare)
        and isinstance(n.test.left, ast.Name) and n.test.left.id == "vendor"
        and any(isinstance(c, ast.Call) and getattr(c.func, "id", "") == "_fix_astar_coords" for c in ast.walk(n))][0], "",
         "astar_vendor")
    return out


def render_ctf(c):
    mp = ", ".join(f"({lstr(k)}, {lstr(v)})" for k, v in c["emsoft_mapping"].items())
    ni_name, ni_val = c["not_indexed"]
    return f"""/-- tables of orix/io/plugins/ctf.py -/
def ctfColumns : List Str := {llist(c["columns"])}
def ctfEmsoftMapping : List (Str × Str) := [{mp}]
def ctfDataKeys : List Str := {llist(c["data_keys"])}
def ctfLaueIds : List Str := {llist(c["laue_ids"])}
def ctfNotIndexedColumn : Str := {lstr(ni_name)}
def ctfNotIndexedId : Int := {lint(ni_val)}
def ctfUnit : Str := {lstr(c["unit"])}
def ctfDegrees : Bool := {"true" if c["degrees"] else "false"}
def ctfVendorPatterns : List Str := {llist(c["vendors"][0])}
def ctfDefaultVendor : Str := {lstr(c["vendors"][1])}
def ctfCoordFixVendor : Str := {lstr(c["astar_vendor"])}

def ctfTables : Ctf.CtfTables where
  columns := ctfColumns
  emsoftMapping := ctfEmsoftMapping
  dataKeys := ctfDataKeys
  laueIds := ctfLaueIds
  notIndexedId := ctfNotIndexedId
  unit := ctfUnit
  degrees := ctfDegrees
  vendorPatterns := ctfVendorPatterns
  defaultVendor := ctfDefaultVendor
  coordFixVendor := ctfCoordFixVendor
  emsoftVendor := {lstr(c["emsoft_vendor"])}
  phase := phaseTables
"""


# ---- Bruker h5ebsd --------------------------------------------------------------------------
def extract_bruker(st, tmp=None):
    tree = _parse(f"{PLUG}/bruker_h5ebsd.py", st)
    out = {}
    pr = _probe(st, "bruker.exec", "BrukerProbe", tmp)

    def grab(key, fn, default, ex=None, same=None, conv=None):
        out[key] = two_sources(st, f"bruker.{key}", fn, _ex(pr, ex) if isinstance(ex, str) else ex, default, same, conv)

    def props():
        f = _func(tree, "set_properties")
        for n in ast.walk(f):
            if isinstance(n, ast.Call) and isinstance(n.func, ast.Name) and n.func.id == "dict":
                return [(kw.arg, _lit(kw.value.slice)) for kw in n.keywords]
            if isinstance(n, ast.Dict):
                return [(_lit(k), _lit(v.slice)) for k, v in zip(n.keys, n.values)]
        raise NotFound("properties dict")

    grab("props", props, [], "props")

    def eulers():
        f = _func(tree, "set_rotations")
        names, deg = None, False
        for n in ast.walk(f):
            if isinstance(n, ast.Call) and isinstance(n.func, ast.Attribute) and n.func.attr == "column_stack":
                names = [_lit(e.slice) for e in n.args[0].elts]
            if isinstance(n, ast.Call) and isinstance(n.func, ast.Attribute) and n.func.attr in ("deg2rad", "radians"):
                deg = True
            if isinstance(n, ast.Call) and isinstance(n.func, ast.Attribute) and n.func.attr == "from_euler":
                for kw in n.keywords:
                    if kw.arg == "degrees" and _lit(kw.value):
                        deg = True
        if names is None:
            raise NotFound("euler datasets")
        return names, deg

    grab("eulers", eulers, ([], False), "eulers")

    def coords():
        f = _func(tree, "set_coordinate_arrays")
        y = _lit(_assign(f, "y").slice)
        x = _lit(_assign(f, "x").slice)
        return y, x

    grab("coords", coords, ("", ""), "coords")
    grab("iy_names", lambda: _lit(_assign(_func(tree, "set_map_shape"), "potential_names_y")), [], "iy_names")
    grab("ix_names", lambda: _lit(_assign(_func(tree, "set_map_shape"), "potential_names_x")), [], "ix_names")

    def reorder():
        f = _func(tree, "final_preparations")
        sorted_attrs, reversed_attrs, props_sorted = [], [], False
        for n in ast.walk(f):
            if isinstance(n, ast.Assign) and isinstance(n.value, ast.Subscript):
                tgt = n.targets[0]
                sl = n.value.slice
                if isinstance(tgt, ast.Attribute) and isinstance(sl, ast.Name) and sl.id == "map_order":
                    sorted_attrs.append(tgt.attr)
                elif isinstance(tgt, ast.Subscript) and isinstance(sl, ast.Name) and sl.id == "map_order":
                    props_sorted = True
                elif isinstance(tgt, ast.Attribute) and isinstance(sl, ast.Slice) and sl.step is not None \
                        and _num(sl.step) == -1:
                    reversed_attrs.append(tgt.attr)
        return sorted_attrs, props_sorted, reversed_attrs

    grab("reorder", reorder, ([], False, []), "reorder",
         same=lambda a, e: _set_eq(a[0], e[0]) and a[1] == e[1] and _set_eq(a[2], e[2]))

    def not_indexed():
        f = _func(tree, "set_phase_list")
        for n in ast.walk(f):
            if isinstance(n, ast.If) and isinstance(n.test, ast.Compare) and isinstance(n.test.ops[0], ast.In):
                return int(_num(n.test.left))
        raise NotFound("not indexed id")

    grab("not_indexed", not_indexed, -12345, "not_indexed")

    def phase_keys():
        f = _func(tree, "dict2phase")
        keys = []
        for n in ast.walk(f):
            if isinstance(n, ast.Subscript) and isinstance(n.value, ast.Name) and n.value.id == "dictionary":
                k = _lit(n.slice)
                if k not in keys:
                    keys.append(k)
        return keys

    grab("phase_keys", phase_keys, [], "phase_keys", same=_set_eq)

    def class_attr(name):
        for n in ast.walk(tree):
            if isinstance(n, ast.ClassDef) and n.name == "BrukerH5ebsdFile":
                return _lit(_assign(n, name))
        raise NotFound(name)

    grab("unit", lambda: class_attr("scan_unit"), "", "unit")

    def grid_type():
        f = _func(tree, "can_read")
        for n in ast.walk(f):
            if isinstance(n, ast.Compare) and isinstance(n.ops[0], ast.Eq):
                return _lit(n.left.slice), _lit(n.comparators[0])
        raise NotFound("grid type")

    grab("grid_type", grid_type, ("", ""), "grid_type")
    return out


def render_bruker(b):
    pr = ", ".join(f"({lstr(k)}, {lstr(v)})" for k, v in b["props"])
    srt, ps, rev = b["reorder"]
    return f"""/-- tables of orix/io/plugins/bruker_h5ebsd.py -/
def brukerProps : List (Str × Str) := [{pr}]
def brukerEulerDatasets : List Str := {llist(b["eulers"][0])}
def brukerDegrees : Bool := {"true" if b["eulers"][1] else "false"}
def brukerYProp : Str := {lstr(b["coords"][0])}
def brukerXProp : Str := {lstr(b["coords"][1])}
def brukerIYNames : List Str := {llist(b["iy_names"])}
def brukerIXNames : List Str := {llist(b["ix_names"])}
/-- attributes `final_preparations` re-orders with `[map_order]` -/
def brukerSortedAttrs : List Str := {llist(srt)}
def brukerSortsProps : Bool := {"true" if ps else "false"}
def brukerReversedAttrs : List Str := {llist(rev)}
def brukerNotIndexedId : Int := {lint(b["not_indexed"])}
def brukerPhaseKeys : List Str := {llist(b["phase_keys"])}
def brukerUnit : Str := {lstr(b["unit"])}
def brukerGridKey : Str := {lstr(b["grid_type"][0])}
def brukerGridValue : Str := {lstr(b["grid_type"][1])}

def brukerTables : Bruker.BrukerTables where
  props := brukerProps
  eulerDatasets := brukerEulerDatasets
  degrees := brukerDegrees
  yProp := brukerYProp
  xProp := brukerXProp
  sortedAttrs := brukerSortedAttrs
  sortsProps := brukerSortsProps
  reversedAttrs := brukerReversedAttrs
  notIndexedId := brukerNotIndexedId
  unit := brukerUnit
  gridValue := brukerGridValue
  phase := phaseTables
"""


# ---- EMsoft h5ebsd --------------------------------------------------------------------------
def extract_emsoft(st, tmp=None):
    tree = _parse(f"{PLUG}/emsoft_h5ebsd.py", st)
    out = {}
    pr = _probe(st, "emsoft.exec", "EmsoftProbe", tmp)

    def grab(key, fn, default, ex=None, same=None, conv=None):
        out[key] = two_sources(st, f"emsoft.{key}", fn, _ex(pr, ex) if isinstance(ex, str) else ex, default, same, conv)

    grab("props", lambda: _lit(_assign(_func(tree, "set_properties"), "expected_properties")), [], "props")

    def rotations():
        f = _func(tree, "set_rotations")
        branch = None
        for n in ast.walk(f):
            if isinstance(n, ast.If) and isinstance(n.test, ast.Attribute) and n.test.attr == "read_refined":
                branch = n
        if branch is None:
            raise NotFound("read_refined branch")

        def info(stmts):
            ds, deg, minus = [], False, 0
            for s in stmts:
                for n in ast.walk(s):
                    if isinstance(n, ast.Subscript) and isinstance(n.value, ast.Name) and n.value.id == "dg":
                        ds.append(_lit(n.slice))
                    if isinstance(n, ast.Call) and isinstance(n.func, ast.Attribute) and n.func.attr in ("deg2rad", "radians"):
                        deg = True
                    if isinstance(n, ast.BinOp) and isinstance(n.op, ast.Sub) and isinstance(n.right, ast.Constant):
                        minus = int(n.right.value)
            return ds, deg, minus

        return info(branch.body), info(branch.orelse)

    grab("rotations", rotations, (([], False, 0), ([], False, 0)), "rotations",
         same=lambda a, e: all(_set_eq(x[0], y[0]) and x[1] == y[1] and x[2] == y[2] for x, y in zip(a, e)))

    def class_attr(name):
        for n in ast.walk(tree):
            if isinstance(n, ast.ClassDef) and n.name == "EMsoftH5ebsdFile":
                return _lit(_assign(n, name))
        raise NotFound(name)

    grab("unit", lambda: class_attr("scan_unit"), "", "unit")
    return out


def render_emsoft(e):
    (rds, rdeg, _), (dds, ddeg, dminus) = e["rotations"]
    return f"""/-- tables of orix/io/plugins/emsoft_h5ebsd.py -/
def emsoftProps : List Str := {llist(e["props"])}
def emsoftRefinedDatasets : List Str := {llist(rds)}
def emsoftRefinedDegrees : Bool := {"true" if rdeg else "false"}
def emsoftDictDatasets : List Str := {llist(dds)}
def emsoftDictDegrees : Bool := {"true" if ddeg else "false"}
def emsoftIndexBase : Int := {lint(dminus)}
def emsoftUnit : Str := {lstr(e["unit"])}

def emsoftTables : Emsoft.EmsoftTables where
  props := emsoftProps
  refinedDegrees := emsoftRefinedDegrees
  dictDegrees := emsoftDictDegrees
  indexBase := emsoftIndexBase
  unit := emsoftUnit
  aliases := pointGroupAliases
  groups := pointGroupNames
"""


# ---- orix HDF5 -------------------------------------------------------------------------------
def extract_h5(st, tmp=None):
    tree = _parse(f"{PLUG}/orix_hdf5.py", st)
    gen = _parse(f"{PLUG}/_h5ebsd.py", st)
    out = {}
    pr = _probe(st, "h5.exec", "H5Probe", tmp)

    def grab(key, fn, default, ex=None, same=None, conv=None):
        out[key] = two_sources(st, f"h5.{key}", fn, _ex(pr, ex) if isinstance(ex, str) else ex, default, same, conv)

    first, second = (lambda v: v[0]), (lambda v: v[1])

    def writer_keys():
        f = _func(tree, "crystalmap2dict")
        for n in ast.walk(f):
            if isinstance(n, ast.Dict):
                ks = [k.value for k in n.keys if isinstance(k, ast.Constant)]
                if ks == ["data", "header"]:
                    data = [k.value for k in n.values[0].keys]
                    header = [k.value for k in n.values[1].keys]
                    extra = []
                    for m in ast.walk(f):   # dictionary["header"].update({"phases": …})
                        if isinstance(m, ast.Call) and isinstance(m.func, ast.Attribute) and m.func.attr == "update" \
                                and isinstance(m.func.value, ast.Subscript) and isinstance(m.args[0], ast.Dict) \
                                and _lit(m.func.value.slice) == "header":
                            extra += [k.value for k in m.args[0].keys]
                    return data, header + extra
        raise NotFound("data/header literal")

    grab("writer_keys", writer_keys, ([], []), "writer_keys")

    def subscripts(fname, var):
        f = _func(tree, fname)
        ks = []
        for n in ast.walk(f):
            if isinstance(n, ast.Subscript) and isinstance(n.value, ast.Name) and n.value.id == var \
                    and isinstance(n.slice, ast.Constant) and n.slice.value not in ks:
                ks.append(n.slice.value)
        return ks

    def reader_pops():
        f = _func(tree, "dict2crystalmap")
        ks = []
        for n in ast.walk(f):
            if isinstance(n, ast.Call) and isinstance(n.func, ast.Attribute) and n.func.attr == "pop" \
                    and isinstance(n.func.value, ast.Name) and n.func.value.id == "data":
                a = n.args[0]
                if isinstance(a, ast.Constant):
                    ks.append(a.value)
                elif isinstance(a, ast.Name):
                    # loop variable: for direction in ["y", "x"] / [data.pop(i) for i in ["id"]]
                    for m in ast.walk(f):
                        if isinstance(m, (ast.For, ast.comprehension)) and isinstance(m.target, ast.Name) \
                                and m.target.id == a.id:
                            ks += list(_lit(m.iter))
        return sorted(set(ks)), subscripts("dict2crystalmap", "header")

    # the order in which a reader asks for keys is not part of the table: compared as sets
    grab("reader_keys", reader_pops, ([], []), "reader_keys",
         same=lambda a, e: list(a[0]) == list(e[0]) and _set_eq(a[1], e[1]))
    grab("phase_written", lambda: subscripts("phase2dict", "dictionary"), [], _ex(pr, "phase", first), same=_set_eq)
    grab("phase_read", lambda: subscripts("dict2phase", "dictionary"), [], _ex(pr, "phase", second), same=_set_eq)
    grab("structure_written", lambda: subscripts("structure2dict", "dictionary"), [], _ex(pr, "structure", first),
         same=_set_eq)
    grab("structure_read", lambda: subscripts("dict2structure", "dictionary"), [], _ex(pr, "structure", second),
         same=_set_eq)
    grab("lattice_written", lambda: subscripts("lattice2dict", "dictionary"), [], _ex(pr, "lattice", first), same=_set_eq)
    grab("lattice_read", lambda: subscripts("dict2lattice", "dictionary"), [], _ex(pr, "lattice", second), same=_set_eq)

    def atom_attrs():
        f = _func(tree, "atom2dict")
        for n in ast.walk(f):
            if isinstance(n, ast.List) and all(isinstance(e, ast.Constant) for e in n.elts) and n.elts:
                return [e.value for e in n.elts]
        raise NotFound("attribute list")

    grab("atom_attrs", atom_attrs, [], "atom_attrs")

    def none_strings():
        f = _func(tree, "phase2dict")
        vals = {n.value.value for n in ast.walk(f) if isinstance(n, ast.Assign) and isinstance(n.value, ast.Constant)
                and isinstance(n.value.value, str)}
        g = _func(tree, "dict2phase")
        rd = {n.comparators[0].value for n in ast.walk(g) if isinstance(n, ast.Compare)
              and isinstance(n.comparators[0], ast.Constant) and isinstance(n.comparators[0].value, str)}
        if len(vals) != 1 or vals != rd:
            raise NotFound(f"None markers written {vals} read {rd}")
        return vals.pop()

    grab("none_marker", none_strings, "", "none_marker")

    def generic_reader():
        f = _func(gen, "hdf5group2dict")
        unwrap, enc = None, None
        for n in ast.walk(f):
            if isinstance(n, ast.Compare) and isinstance(n.left, ast.Call) and getattr(n.left.func, "id", "") == "len":
                unwrap = int(_num(n.comparators[0]))
            if isinstance(n, ast.Call) and isinstance(n.func, ast.Attribute) and n.func.attr == "decode":
                enc = _lit(n.args[0])
        if unwrap is None or enc is None:
            raise NotFound("unwrap/decode")
        return unwrap, enc

    grab("generic_reader", generic_reader, (0, ""), "generic_reader")

    def str_dtype():
        f = _func(tree, "dict2hdf5group")
        for n in ast.walk(f):
            if isinstance(n, ast.BinOp) and isinstance(n.op, ast.Add) and isinstance(n.left, ast.Constant) \
                    and n.left.value == "S":
                for m in ast.walk(n.right):
                    if isinstance(m, ast.BinOp) and isinstance(m.op, ast.Add) and isinstance(m.right, ast.Constant):
                        return int(m.right.value)
        raise NotFound("string dtype")

    grab("str_pad", str_dtype, -1, "str_pad")

    def sg_pg():
        from orix.quaternion.symmetry import get_point_group
        return [get_point_group(n).name for n in range(1, 231)]

    grab("sg_point_group", sg_pg, [])
    if st.get("h5.sg_point_group") == "extracted (ast)":
        st["h5.sg_point_group"] = "extracted"        # module objects: single source
    return out


def render_h5(h):
    wd, wh = h["writer_keys"]
    rd, rh = h["reader_keys"]
    return f"""/-- key names of orix/io/plugins/orix_hdf5.py (writer dict literals, reader subscripts/pops) -/
def h5WriterDataKeys : List Str := {llist(wd)}
def h5WriterHeaderKeys : List Str := {llist(wh)}
def h5ReaderDataKeys : List Str := {llist(rd)}
def h5ReaderHeaderKeys : List Str := {llist(rh)}
def h5PhaseKeysWritten : List Str := {llist(h["phase_written"])}
def h5PhaseKeysRead : List Str := {llist(h["phase_read"])}
def h5StructureKeysWritten : List Str := {llist(h["structure_written"])}
def h5StructureKeysRead : List Str := {llist(h["structure_read"])}
def h5LatticeKeysWritten : List Str := {llist(h["lattice_written"])}
def h5LatticeKeysRead : List Str := {llist(h["lattice_read"])}
def h5AtomAttrs : List Str := {llist(h["atom_attrs"])}
def h5NoneMarker : Str := {lstr(h["none_marker"])}
/-- `hdf5group2dict`: arrays of this length along the first axis are unwrapped; byte strings decoded as … -/
def h5UnwrapLength : Nat := {h["generic_reader"][0]}
def h5Decode : Str := {lstr(h["generic_reader"][1])}
/-- `dict2hdf5group`: strings are stored with dtype `S<len + this>` -/
def h5StrPad : Int := {lint(h["str_pad"])}
/-- `get_point_group(n).name` for n = 1 … 230 -/
def sgPointGroup : List Str := {llist(h["sg_point_group"])}

/-- tables the `Phase` constructor consults -/
def phaseTables : H5.PhaseTables :=
  {{ aliases := pointGroupAliases, groups := pointGroupNames, sgPointGroup := sgPointGroup }}
"""


def generate(execute=True):
    """text of OrixGen/IoTables.lean and the status of every item; execute=False: AST source only"""
    import contextlib
    st = {}
    with contextlib.ExitStack() as stack:
        tmp = None
        if execute:
            try:
                from . import io_probe
                tmp = stack.enter_context(io_probe.workdir())
            except Exception as e:
                st["exec"] = f"exec sources unavailable: {type(e).__name__} {e}"
        return _generate(st, tmp)


def _generate(st, tmp):
    sym = extract_symmetry(st)
    parts = ["import OrixModel.Codec.Ang\nimport OrixModel.Codec.H5\nimport OrixModel.Codec.Ctf\n"
             "import OrixModel.Codec.Bruker\nimport OrixModel.Codec.Emsoft\n"
             "/- GENERATED by harness/extract/tables_io.py from /repo (module objects and Python AST). "
             "Do not edit. -/\nnamespace Orix.Gen.Io\nopen Orix.Codec Orix.Codec.Ang\n",
             render_symmetry(sym), render_ang(extract_ang(st, tmp), sym), render_h5(extract_h5(st, tmp)),
             render_ctf(extract_ctf(st, tmp)), render_bruker(extract_bruker(st, tmp)),
             render_emsoft(extract_emsoft(st, tmp)),
             "end Orix.Gen.Io\n"]
    return "\n".join(parts), st


if __name__ == "__main__":
    import json
    import sys
    text, status = generate()
    print(text)
    print(json.dumps(status, indent=1), file=sys.stderr)
