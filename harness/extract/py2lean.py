"""T-ast: translate scalar numeric Python kernels from their AST into Lean definitions.

A small symbolic interpreter executes the function body on symbolic scalars.  Values are
  * python numbers (kept concrete, folded),
  * scalar expression nodes (ints indexing a hash-consed node table),
  * arrays: (nested) python lists of the above,
  * conditions: nodes whose op is a comparison / and / or / not.
`if` on a symbolic condition executes both branches and merges (phi = `ite`); a branch that
returns forks the continuation.  Everything is pure and total in Lean, so all `let`s can be
hoisted to the top of the emitted definition.

Syntax outside the supported subset raises `Unsupported`: the caller records "kernel not
translated" and the kernel is tied by the correspondence check alone (a harmless rewrite
must not raise an alarm).
"""
from __future__ import annotations

import ast
import decimal
import math


class Unsupported(Exception):
    pass


class Graph:
    def __init__(self):
        self.nodes = []  # (op, args)
        self.index = {}

    def mk(self, op, *args):
        key = (op,) + args
        i = self.index.get(key)
        if i is None:
            i = len(self.nodes)
            self.nodes.append(key)
            self.index[key] = i
        return i


class Sc:
    """scalar node handle"""
    __slots__ = ("g", "i")

    def __init__(self, g, i):
        self.g, self.i = g, i

    def __eq__(self, o):
        return isinstance(o, Sc) and o.i == self.i

    def __hash__(self):
        return hash(self.i)


class Cond:
    __slots__ = ("g", "i")

    def __init__(self, g, i):
        self.g, self.i = g, i

    def __eq__(self, o):
        return isinstance(o, Cond) and o.i == self.i

    def __hash__(self):
        return hash(("c", self.i))


UNARY_CALLS = {"sqrt": "sqrt", "cos": "cos", "sin": "sin", "tan": "tan", "arccos": "acos",
               "arctan": "atan", "abs": "abs", "absolute": "abs"}


class _NoneType:
    """Python's None as an interpreter value (only identity tests are supported on it)"""
    def __repr__(self):
        return "NONE"


NONE = _NoneType()


class Shape(list):
    """the .shape of a symbolic array (a tuple of ints); `+` concatenates"""


def shape_of(v):
    s = []
    while isinstance(v, list):
        s.append(len(v))
        v = v[0] if v else None
    return Shape(s)


class Interp:
    def __init__(self, module_funcs, constants, graph=None):
        self.funcs = module_funcs  # name -> ast.FunctionDef (for inlining)
        self.constants = constants  # dotted name -> python number
        self.g = graph or Graph()

    # ---- scalar construction -------------------------------------------------------
    def const(self, x):
        if isinstance(x, bool):
            raise Unsupported("bool constant as scalar")
        if isinstance(x, int):
            if x < 0:
                return Sc(self.g, self.g.mk("neg", self.g.mk("lit", -x)))
            return Sc(self.g, self.g.mk("lit", x))
        if isinstance(x, float):
            if x != x or x in (math.inf, -math.inf):
                raise Unsupported("non-finite constant")
            if x == math.pi:
                return Sc(self.g, self.g.mk("pi"))
            if x == int(x) and abs(x) < 2**53:
                return self.const(int(x))
            d = decimal.Decimal(repr(x))
            sign, digits, exp = d.as_tuple()
            m = int("".join(map(str, digits)))
            if exp >= 0:
                return self.const((-1 if sign else 1) * m * 10**exp)
            n = self.g.mk("dec", m, -exp)
            if sign:
                n = self.g.mk("neg", n)
            return Sc(self.g, n)
        raise Unsupported(f"constant {x!r}")

    def sc(self, v):
        if isinstance(v, Sc):
            return v
        if isinstance(v, (int, float)) and not isinstance(v, bool):
            return self.const(v)
        raise Unsupported(f"expected scalar, got {type(v).__name__}")

    def bin(self, op, a, b):
        if op == "add" and (isinstance(a, Shape) or isinstance(b, Shape)) and isinstance(a, list) and isinstance(b, list):
            return Shape(list(a) + list(b))  # tuple concatenation of array shapes
        if isinstance(a, list) or isinstance(b, list):
            if isinstance(a, list) and isinstance(b, list):
                if len(a) != len(b):
                    raise Unsupported("array length mismatch")
                return [self.bin(op, x, y) for x, y in zip(a, b)]
            if isinstance(a, list):
                return [self.bin(op, x, b) for x in a]
            return [self.bin(op, a, y) for y in b]
        if isinstance(a, (int, float)) and isinstance(b, (int, float)):
            return {"add": a + b, "sub": a - b, "mul": a * b,
                    "div": (a / b) if b != 0 else _raise(Unsupported("div by zero const"))}[op]
        a, b = self.sc(a), self.sc(b)
        return Sc(self.g, self.g.mk(op, a.i, b.i))

    def neg(self, a):
        if isinstance(a, list):
            return [self.neg(x) for x in a]
        if isinstance(a, (int, float)):
            return -a
        return Sc(self.g, self.g.mk("neg", a.i))

    def call1(self, fn, a):
        if isinstance(a, list):
            return [self.call1(fn, x) for x in a]
        if isinstance(a, (int, float)):
            f = {"sqrt": math.sqrt, "cos": math.cos, "sin": math.sin, "tan": math.tan,
                 "acos": math.acos, "atan": math.atan, "abs": abs}[fn]
            # keep transcendental constants symbolic so that ℝ and Float agree in meaning
            if fn == "abs":
                return f(a)
            a = self.sc(a)
        return Sc(self.g, self.g.mk(fn, a.i))

    def power(self, a, b):
        if isinstance(a, list):
            return [self.power(x, b) for x in a]
        if isinstance(b, (int, float)) and isinstance(a, (int, float)):
            if float(b).is_integer():
                return a ** int(b)
            a = self.sc(a)
        if isinstance(b, int) or (isinstance(b, float) and b.is_integer()):
            n = int(b)
            if n < 0:
                raise Unsupported("negative power")
            return Sc(self.g, self.g.mk("npow", self.sc(a).i, n))
        if isinstance(b, float) and b == 1 / 3:
            return Sc(self.g, self.g.mk("cbrt", self.sc(a).i))
        if isinstance(b, float) and b == 0.5:
            return Sc(self.g, self.g.mk("sqrt", self.sc(a).i))
        raise Unsupported(f"power with exponent {b!r}")

    def cmp(self, op, a, b):
        if isinstance(a, list) or isinstance(b, list):
            if isinstance(a, list) and isinstance(b, list):
                return [self.cmp(op, x, y) for x, y in zip(a, b)]
            if isinstance(a, list):
                return [self.cmp(op, x, b) for x in a]
            return [self.cmp(op, a, y) for y in b]
        if isinstance(a, (int, float)) and isinstance(b, (int, float)):
            return {"lt": a < b, "le": a <= b, "beq": a == b}[op]
        a, b = self.sc(a), self.sc(b)
        return Cond(self.g, self.g.mk(op, a.i, b.i))

    def cand(self, a, b):
        if isinstance(a, bool):
            return b if a else False
        if isinstance(b, bool):
            return a if b else False
        return Cond(self.g, self.g.mk("and", a.i, b.i))

    def cor(self, a, b):
        if isinstance(a, bool):
            return True if a else b
        if isinstance(b, bool):
            return True if b else a
        return Cond(self.g, self.g.mk("or", a.i, b.i))

    def cnot(self, a):
        if isinstance(a, bool):
            return not a
        return Cond(self.g, self.g.mk("not", a.i))

    def ite(self, c, a, b):
        if isinstance(c, bool):
            return a if c else b
        if isinstance(a, list) or isinstance(b, list):
            if not (isinstance(a, list) and isinstance(b, list) and len(a) == len(b)):
                raise Unsupported("merging arrays of different shape")
            return [self.ite(c, x, y) for x, y in zip(a, b)]
        if isinstance(a, (int, float)) and isinstance(b, (int, float)) and a == b and type(a) == type(b):
            return a
        a, b = self.sc(a), self.sc(b)
        if a.i == b.i:
            return a
        return Sc(self.g, self.g.mk("ite", c.i, a.i, b.i))

    # ---- expressions ---------------------------------------------------------------
    def dotted(self, node):
        if isinstance(node, ast.Name):
            return node.id
        if isinstance(node, ast.Attribute):
            return self.dotted(node.value) + "." + node.attr
        raise Unsupported("not a dotted name")

    def strip_ellipsis(self, elts, base):
        """`x[..., i]` on an array whose leading (batch) axes are absent in the symbolic run: drop the Ellipsis"""
        out = [e for e in elts if not (isinstance(e, ast.Constant) and e.value is Ellipsis)]
        if len(out) != len(elts):
            depth = len(shape_of(base))
            if len(out) > depth:
                raise Unsupported("ellipsis index deeper than the array")
        return out

    def index_of(self, node, env):
        """constant index / slice -> python int or slice"""
        if isinstance(node, ast.Slice):
            lo = self.const_int(node.lower, env) if node.lower else None
            hi = self.const_int(node.upper, env) if node.upper else None
            if node.step is not None:
                raise Unsupported("slice step")
            return slice(lo, hi)
        return self.const_int(node, env)

    def const_int(self, node, env):
        v = self.eval(node, env)
        if isinstance(v, int) and not isinstance(v, bool):
            return v
        raise Unsupported("non-constant index")

    def eval(self, node, env):
        if isinstance(node, ast.Constant):
            if isinstance(node.value, (int, float)) and not isinstance(node.value, bool):
                return node.value
            if node.value is None:
                return NONE
            raise Unsupported(f"constant {node.value!r}")
        if isinstance(node, ast.Name):
            if node.id in env:
                return env[node.id]
            raise Unsupported(f"unknown name {node.id}")
        if isinstance(node, ast.Attribute) and node.attr == "shape" and isinstance(node.value, ast.Name) \
                and isinstance(env.get(node.value.id), list):
            return shape_of(env[node.value.id])
        if isinstance(node, ast.Attribute):
            name = self.dotted(node)
            if name in ("np.pi", "numpy.pi", "math.pi"):
                return Sc(self.g, self.g.mk("pi"))  # kept symbolic: ℝ and Float agree in meaning
            if name in self.constants:
                return self.constants[name]
            raise Unsupported(f"attribute {name}")
        if isinstance(node, ast.UnaryOp):
            v = self.eval(node.operand, env)
            if isinstance(node.op, ast.USub):
                return self.neg(v)
            if isinstance(node.op, ast.UAdd):
                return v
            if isinstance(node.op, ast.Not):
                return self.cnot(v)
            raise Unsupported("unary op")
        if isinstance(node, ast.BinOp):
            a = self.eval(node.left, env)
            b = self.eval(node.right, env)
            if isinstance(node.op, ast.Add):
                return self.bin("add", a, b)
            if isinstance(node.op, ast.Sub):
                return self.bin("sub", a, b)
            if isinstance(node.op, ast.Mult):
                return self.bin("mul", a, b)
            if isinstance(node.op, ast.Div):
                return self.bin("div", a, b)
            if isinstance(node.op, ast.Pow):
                return self.power(a, b)
            raise Unsupported("binary op")
        if isinstance(node, ast.Compare):
            if len(node.ops) != 1:
                raise Unsupported("chained comparison")
            a = self.eval(node.left, env)
            op = node.ops[0]
            if isinstance(op, (ast.In, ast.NotIn)):
                rhs = node.comparators[0]
                if not isinstance(rhs, (ast.List, ast.Tuple)):
                    raise Unsupported("in non-literal")
                c = False
                for e in rhs.elts:
                    c = self.cor(c, self.cmp("beq", a, self.eval(e, env)))
                return self.cnot(c) if isinstance(op, ast.NotIn) else c
            b = self.eval(node.comparators[0], env)
            if isinstance(op, (ast.Is, ast.IsNot)):
                if a is NONE or b is NONE:
                    same = a is b
                    return same if isinstance(op, ast.Is) else not same
                raise Unsupported("identity comparison")
            if isinstance(op, ast.Lt):
                return self.cmp("lt", a, b)
            if isinstance(op, ast.LtE):
                return self.cmp("le", a, b)
            if isinstance(op, ast.Gt):
                return self.cmp("lt", b, a)
            if isinstance(op, ast.GtE):
                return self.cmp("le", b, a)
            if isinstance(op, ast.Eq):
                return self.cmp("beq", a, b)
            if isinstance(op, ast.NotEq):
                return self.cnot(self.cmp("beq", a, b))
            raise Unsupported("comparison op")
        if isinstance(node, ast.BoolOp):
            is_and = isinstance(node.op, ast.And)
            acc = self.eval(node.values[0], env)
            for vn in node.values[1:]:
                if isinstance(acc, bool) and acc == (not is_and):
                    return acc  # short-circuit, as Python does
                v = self.eval(vn, env)
                acc = self.cand(acc, v) if is_and else self.cor(acc, v)
            return acc
        if isinstance(node, (ast.List, ast.Tuple)):
            return [self.eval(e, env) for e in node.elts]
        if isinstance(node, ast.Subscript):
            base = self.eval(node.value, env)
            if not isinstance(base, list):
                raise Unsupported("subscript of non-array")
            sl = node.slice
            if isinstance(sl, ast.Tuple):
                v = base
                for e in self.strip_ellipsis(sl.elts, base):
                    v = v[self.index_of(e, env)]
                return (type(v)(v) if isinstance(v, Shape) else list(v)) if isinstance(v, list) else v
            idx = self.index_of(sl, env)
            v = base[idx]
            if isinstance(idx, slice):
                return Shape(v) if isinstance(base, Shape) else list(v)
            return v
        if isinstance(node, ast.Call):
            return self.call(node, env)
        if isinstance(node, ast.IfExp):
            c = self.eval(node.test, env)
            return self.ite(c, self.eval(node.body, env), self.eval(node.orelse, env))
        raise Unsupported(f"expression {type(node).__name__}")

    def call(self, node, env):
        try:
            name = self.dotted(node.func)
        except Unsupported:
            raise Unsupported("call of non-name")
        args = node.args
        short = name.split(".")[-1]
        if name.startswith(("np.", "numpy.", "da.")) or name in ("abs",):
            if short in UNARY_CALLS and len(args) == 1:
                return self.call1(UNARY_CALLS[short], self.eval(args[0], env))
            if short == "square":
                v = self.eval(args[0], env)
                return self.bin("mul", v, v)
            if short == "sum":
                v = self.eval(args[0], env)
                if not isinstance(v, list) or any(isinstance(x, list) for x in v):
                    raise Unsupported("sum of non-1d")
                acc = v[0]
                for x in v[1:]:
                    acc = self.bin("add", acc, x)
                return acc
            if short in ("max", "amax"):
                v = self.eval(args[0], env)
                if not isinstance(v, list) or any(isinstance(x, list) for x in v):
                    raise Unsupported("max of non-1d")
                acc = v[0]
                for x in v[1:]:
                    acc = self.ite(self.cmp("lt", acc, x), x, acc)
                return acc
            if short in ("array", "asarray"):
                return self.eval(args[0], env)
            if short == "zeros_like":
                v = self.eval(args[0], env)
                z = lambda x: [z(y) for y in x] if isinstance(x, list) else 0
                return z(v)
            if short == "divide" and len(args) == 2:
                kw = {k.arg: k.value for k in node.keywords}
                if set(kw) - {"where", "out"}:
                    raise Unsupported("np.divide keywords")
                q = self.bin("div", self.eval(args[0], env), self.eval(args[1], env))
                if "where" in kw:
                    if "out" not in kw:
                        raise Unsupported("np.divide(where=) without out=")
                    return self.ite(self.eval(kw["where"], env), q, self.eval(kw["out"], env))
                return q
            if short == "zeros":
                shp = self.eval(args[0], env)
                if isinstance(shp, int):
                    return [0] * shp
                if isinstance(shp, list) and shp and all(isinstance(s, int) for s in shp):
                    def z(s):
                        return [0] * s[0] if len(s) == 1 else [z(s[1:]) for _ in range(s[0])]
                    return z(shp)
                raise Unsupported("zeros shape")
            if short == "append":
                a = self.eval(args[0], env)
                b = self.eval(args[1], env)
                a = a if isinstance(a, list) else [a]
                b = b if isinstance(b, list) else [b]
                return list(a) + list(b)
            if short == "add":
                return self.bin("add", self.eval(args[0], env), self.eval(args[1], env))
            if short == "subtract":
                return self.bin("sub", self.eval(args[0], env), self.eval(args[1], env))
            if short == "arctan2":
                a, b = self.sc(self.eval(args[0], env)), self.sc(self.eval(args[1], env))
                return Sc(self.g, self.g.mk("atan2", a.i, b.i))
            if short == "mod":
                a = self.eval(args[0], env)
                b = self.sc(self.eval(args[1], env))
                f = lambda x: Sc(self.g, self.g.mk("fmod", self.sc(x).i, b.i))
                return [f(x) for x in a] if isinstance(a, list) else f(a)
            if short == "roll":
                a = self.eval(args[0], env)
                k = self.eval(args[1], env)
                if not isinstance(a, list) or not isinstance(k, int):
                    raise Unsupported("roll")
                k %= len(a)
                return a[-k:] + a[:-k] if k else list(a)
            if short == "where" and len(args) == 3:
                c = self.eval(args[0], env)
                return self.ite(c, self.eval(args[1], env), self.eval(args[2], env))
            if short == "isnan":
                v = self.eval(args[0], env)
                if isinstance(v, list):
                    return [self.cnot(self.cmp("beq", x, x)) for x in v]
                return self.cnot(self.cmp("beq", v, v))
            if short == "einsum":
                # da.einsum("...ab,cd...->abcd", X, Y): outer product; per element X*Y
                return self.bin("mul", self.eval(args[1], env), self.eval(args[2], env))
            raise Unsupported(f"numpy call {name}")
        if name in ("range", "nb.prange", "numba.prange"):
            raise Unsupported("range outside for")
        if name in self.funcs:
            f = self.funcs[name]
            vals = [self.eval(a, env) for a in args]
            return self.run_function(f, vals)
        raise Unsupported(f"call {name}")

    # ---- statements ----------------------------------------------------------------
    def assign(self, target, value, env):
        if isinstance(target, ast.Name):
            env[target.id] = value
            return
        if isinstance(target, (ast.Tuple, ast.List)):
            if not isinstance(value, list) or len(value) != len(target.elts):
                raise Unsupported("unpack")
            for t, v in zip(target.elts, value):
                self.assign(t, v, env)
            return
        if isinstance(target, ast.Subscript) and isinstance(target.value, ast.Name):
            name = target.value.id
            arr = env.get(name)
            if isinstance(arr, (Sc, int, float)) and not isinstance(arr, bool):
                # numpy-vectorised scalar code: x[mask] = value on a (broadcast) scalar
                mask = self.eval(target.slice, env)
                if isinstance(mask, (Cond, bool)):
                    env[name] = self.ite(mask, value, arr)
                    return
                raise Unsupported("masked assign with non-condition mask")
            if not isinstance(arr, list):
                raise Unsupported("subscript assign to non-array")
            sl = target.slice
            # boolean-mask assignment: eu[np.abs(eu) < eps] = 0
            if isinstance(sl, ast.Compare):
                mask = self.eval(sl, env)
                if not isinstance(mask, list) or len(mask) != len(arr):
                    raise Unsupported("mask assign")
                env[name] = [self.ite(m, value, old) for m, old in zip(mask, arr)]
                return
            if isinstance(sl, ast.Tuple) and any(isinstance(e, ast.Constant) and e.value is Ellipsis for e in sl.elts):
                elts = self.strip_ellipsis(sl.elts, arr)
                if len(elts) != 1:
                    raise Unsupported("ellipsis index assign")
                sl = elts[0]
            if isinstance(sl, ast.Tuple):
                idxs = [self.index_of(e, env) for e in sl.elts]
                if len(idxs) != 2 or not all(isinstance(i, int) for i in idxs):
                    raise Unsupported("nd index assign")
                new = [list(r) for r in arr]
                new[idxs[0]][idxs[1]] = value
                env[name] = new
                return
            idx = self.index_of(sl, env)
            new = list(arr)
            if isinstance(idx, slice):
                rng = range(*idx.indices(len(arr)))
                if isinstance(value, list):
                    if len(value) != len(rng):
                        raise Unsupported("slice assign length")
                    for i, v in zip(rng, value):
                        new[i] = v
                else:
                    for i in rng:
                        new[i] = value
            else:
                new[idx] = value
            env[name] = new
            return
        raise Unsupported("assignment target")

    def merge_env(self, c, e1, e2):
        out = {}
        for k in set(e1) | set(e2):
            if k in e1 and k in e2:
                a, b = e1[k], e2[k]
                if a is b:
                    out[k] = a
                else:
                    try:
                        out[k] = self.ite(c, a, b)
                    except Unsupported:
                        raise
            else:
                out[k] = e1.get(k, e2.get(k))
        return out

    def exec_block(self, stmts, env):
        """returns ('ret', value) | ('fall', env) | ('cond', c, r1, r2)"""
        for n, st in enumerate(stmts):
            rest = stmts[n + 1:]
            if isinstance(st, ast.Expr):
                if isinstance(st.value, ast.Constant):
                    continue  # docstring
                raise Unsupported("expression statement")
            if isinstance(st, ast.Pass):
                continue
            if isinstance(st, ast.Assign):
                v = self.eval(st.value, env)
                for t in st.targets:
                    self.assign(t, v, env)
                continue
            if isinstance(st, ast.AnnAssign) and st.value is not None:
                self.assign(st.target, self.eval(st.value, env), env)
                continue
            if isinstance(st, ast.AugAssign):
                cur = self.eval(st.target, env)
                v = self.eval(st.value, env)
                op = {ast.Add: "add", ast.Sub: "sub", ast.Mult: "mul", ast.Div: "div"}.get(type(st.op))
                if op is None:
                    raise Unsupported("augassign op")
                self.assign(st.target, self.bin(op, cur, v), env)
                continue
            if isinstance(st, ast.Return):
                if st.value is None:
                    return ("ret", None)
                return ("ret", self.eval(st.value, env))
            if isinstance(st, ast.For):
                it = st.iter
                if not (isinstance(it, ast.Call) and self.dotted(it.func) in ("range", "nb.prange", "numba.prange")):
                    raise Unsupported("for over non-range")
                bounds = [self.const_int(a, env) for a in it.args]
                if not isinstance(st.target, ast.Name) or st.orelse:
                    raise Unsupported("for target")
                for i in range(*bounds):
                    env[st.target.id] = i
                    r = self.exec_block(st.body, env)
                    if r[0] != "fall":
                        raise Unsupported("return inside for")
                    env = r[1]
                continue
            if isinstance(st, ast.If):
                c = self.eval(st.test, env)
                if isinstance(c, bool):
                    r = self.exec_block(st.body if c else st.orelse, env)
                    if r[0] == "fall":
                        env = r[1]
                        continue
                    return self.cont(r, rest)
                if not isinstance(c, Cond):
                    raise Unsupported("if on non-condition")
                r1 = self.exec_block(st.body, dict(env))
                r2 = self.exec_block(st.orelse, dict(env))
                if r1[0] == "fall" and r2[0] == "fall":
                    env = self.merge_env(c, r1[1], r2[1])
                    continue
                return ("cond", c, self.cont(r1, rest), self.cont(r2, rest))
            raise Unsupported(f"statement {type(st).__name__}")
        return ("fall", env)

    def cont(self, r, rest):
        if r[0] == "ret":
            return r
        if r[0] == "fall":
            return self.exec_block(rest, r[1])
        return ("cond", r[1], self.cont(r[2], rest), self.cont(r[3], rest))

    def result_value(self, r, fallback):
        if r[0] == "ret":
            return r[1]
        if r[0] == "fall":
            return fallback(r[1])
        return self.ite(r[1], self.result_value(r[2], fallback), self.result_value(r[3], fallback))

    def run_function(self, f: ast.FunctionDef, vals, out_param=None):
        params = [a.arg for a in f.args.args]
        if len(vals) < len(params) and len(params) - len(vals) <= len(f.args.defaults):
            vals = list(vals) + [self.eval(d, {}) for d in f.args.defaults[len(f.args.defaults) - (len(params) - len(vals)):]]
        if len(vals) != len(params):
            raise Unsupported("arity")
        env = dict(zip(params, vals))
        r = self.exec_block(f.body, env)

        def fallback(e):
            if out_param is None:
                raise Unsupported("function may fall off its end")
            # gufunc-style: the output buffer is the LAST parameter, whatever it is called
            return e[params[-1]]
        return self.result_value(r, fallback)


def _raise(e):
    raise e


# ---- emission ------------------------------------------------------------------------
BINOPS = {"add": "+", "sub": "-", "mul": "*", "div": "/"}


def flatten(v):
    if isinstance(v, list):
        out = []
        for x in v:
            out.extend(flatten(x))
        return out
    return [v]


def emit_def(name, params, value, interp: Interp, doc=""):
    """params: list of (pyname, n) in order; value: result (scalar or nested list).
    Emits `def name {α} [Scalar α] (p_0 … : α) : List α`."""
    g = interp.g
    outs = [interp.sc(x).i for x in flatten(value)]
    uses = {}
    order = []
    seen = set()

    def visit(i):
        uses[i] = uses.get(i, 0) + 1
        if i in seen:
            return
        seen.add(i)
        op, *args = g.nodes[i]
        if op in ("lit", "dec", "var", "pi"):
            pass
        elif op == "npow":
            visit(args[0])
        else:
            for a in args:
                visit(a)
        order.append(i)

    import sys
    sys.setrecursionlimit(100000)
    for o in outs:
        visit(o)
    names = {}

    def ref(i):
        if i in names:
            return names[i]
        return "(" + expr(i) + ")"

    def expr(i):
        op, *a = g.nodes[i]
        if op == "var":
            return a[0]
        if op == "lit":
            return f"Scalar.lit {a[0]}"
        if op == "dec":
            return f"Scalar.dec {a[0]} {a[1]}"
        if op == "pi":
            return "Scalar.pi"
        if op in BINOPS:
            return f"{ref(a[0])} {BINOPS[op]} {ref(a[1])}"
        if op == "neg":
            return f"-{ref(a[0])}"
        if op == "npow":
            return f"Scalar.npow {ref(a[0])} {a[1]}"
        if op in ("sqrt", "cos", "sin", "tan", "acos", "atan", "abs", "cbrt"):
            return f"Scalar.{op} {ref(a[0])}"
        if op in ("atan2", "fmod"):
            return f"Scalar.{op} {ref(a[0])} {ref(a[1])}"
        if op == "ite":
            return f"if {ref(a[0])} then {ref(a[1])} else {ref(a[2])}"
        if op in ("lt", "le", "beq"):
            return f"Scalar.{op} {ref(a[0])} {ref(a[1])}"
        if op == "and":
            return f"{ref(a[0])} && {ref(a[1])}"
        if op == "or":
            return f"{ref(a[0])} || {ref(a[1])}"
        if op == "not":
            return f"!{ref(a[0])}"
        raise Unsupported(f"emit {op}")

    lines = []
    k = 0
    for i in order:
        op = g.nodes[i][0]
        if op in ("var", "lit", "pi"):
            names[i] = "(" + expr(i) + ")" if op != "var" else expr(i)
            continue
        if uses[i] > 1 or op == "ite":
            k += 1
            nm = f"t{k}"
            ty = "Bool" if op in ("lt", "le", "beq", "and", "or", "not") else "α"
            lines.append(f"  let {nm} : {ty} := {expr(i)}")
            names[i] = nm
    plist = []
    for p, n in params:
        if n is None:
            plist.append(p)
        else:
            plist.extend(f"{p}_{j}" for j in range(n))
    sig = " ".join(plist)
    body = "\n".join(lines)
    res = "[" + ", ".join(ref(o) if o not in names else names[o] for o in outs) + "]"
    d = f"/-- {doc} -/\n" if doc else ""
    return (f"{d}def {name} {{α : Type}} [Scalar α] ({sig} : α) : List α :=\n"
            + (body + "\n" if body else "") + f"  {res}\n")


def sym_params(interp: Interp, params):
    """params: list of (name, shape) with shape None | int | (r, c)."""
    vals = []
    flat = []
    for p, shp in params:
        if shp is None:
            vals.append(Sc(interp.g, interp.g.mk("var", p)))
            flat.append((p, None))
        elif isinstance(shp, int):
            vals.append([Sc(interp.g, interp.g.mk("var", f"{p}_{j}")) for j in range(shp)])
            flat.append((p, shp))
        else:
            r, c = shp
            vals.append([[Sc(interp.g, interp.g.mk("var", f"{p}_{i * c + j}")) for j in range(c)]
                         for i in range(r)])
            flat.append((p, r * c))
    return vals, flat


def translate_function(src_funcs, constants, fname, params, out_param=None, lean_name=None, doc=""):
    """Translate `fname` (an ast.FunctionDef in src_funcs) with symbolic parameters."""
    interp = Interp(src_funcs, constants)
    f = src_funcs[fname]
    vals, flat = sym_params(interp, params)
    if out_param is not None:
        # gufunc-style: last python parameter is the output buffer
        n_out = out_param[1]
        vals = vals + [[0] * n_out]
        value = interp.run_function(f, vals, out_param=out_param[0])
    else:
        value = interp.run_function(f, vals)
    return emit_def(lean_name or fname, flat, value, interp, doc)
