"""Regenerate every generated Lean file from /repo's current working tree (T-gen, T-ast).
Files are only rewritten when their content changes, so `lake build` stays incremental."""
from __future__ import annotations

import json
import os

from ..common import LEAN, write_if_changed
from . import kernels

HDR = ("import Mathlib.Tactic.Ring\nimport OrixProofs.Lemmas.RealScalar\nimport OrixModel\nimport OrixGen.Kernels\n"
       "set_option linter.unusedSimpArgs false\n/- GENERATED obligation: generated kernel = hand-written model (T-ast). Do not edit. -/\n"
       "namespace Orix.GenAudit\nopen Orix\n")

POLY_TAC = ("by\n  simp only [{defs}, Scalar.npow, Scalar.sq, lit_real, Nat.cast_ofNat, Nat.cast_one, Nat.cast_zero,\n"
            "    Quat.toList, Vec3.toList, Mat3.toList, List.cons.injEq, and_true]\n"
            "  repeat' apply And.intro\n  all_goals (first | trivial | ring)")

# kernel -> (binders, statement, defs to unfold, properties served)
KERNEL_OBLIGATIONS = {
    "qu_conj_gufunc": ("(a b c d : ℝ)", "Gen.qu_conj_gufunc a b c d = (Quat.conj ⟨a, b, c, d⟩).toList",
                       "Gen.qu_conj_gufunc, Quat.conj", ["C02", "C18"]),
    "qu_multiply_gufunc": ("(a b c d e f g h : ℝ)",
                           "Gen.qu_multiply_gufunc a b c d e f g h = (Quat.mul ⟨a, b, c, d⟩ ⟨e, f, g, h⟩).toList",
                           "Gen.qu_multiply_gufunc, Quat.mul", ["C02", "C18"]),
    "qu_rotate_vec_gufunc": ("(a b c d x y z : ℝ)",
                             "Gen.qu_rotate_vec_gufunc a b c d x y z = (Quat.rotate ⟨a, b, c, d⟩ ⟨x, y, z⟩).toList",
                             "Gen.qu_rotate_vec_gufunc, Quat.rotate", ["C02", "C18"]),
    "qu2om_single": ("(a b c d : ℝ)", "Gen.qu2om_single a b c d = (Quat.toMat ⟨a, b, c, d⟩).toList",
                     "Gen.qu2om_single, Quat.toMat", ["C01", "C02"]),
    "outer_dask_qq": ("(a b c d e f g h : ℝ)",
                      "Gen.outer_dask_qq a b c d e f g h = (Quat.mul ⟨a, b, c, d⟩ ⟨e, f, g, h⟩).toList",
                      "Gen.outer_dask_qq, Quat.mul", ["C02", "C18"]),
    "outer_dask_qv": ("(a b c d x y z : ℝ)",
                      "Gen.outer_dask_qv a b c d x y z = (Mat3.mulVec (Quat.toMat ⟨a, b, c, d⟩) ⟨x, y, z⟩).toList",
                      "Gen.outer_dask_qv, Quat.toMat, Mat3.mulVec", ["C02", "C18"]),
}


def regen_groups(changed):
    """T-gen for C03: point-group / space-group tables and their kernel-decided obligations"""
    from . import groups
    pg_text, sg_text, pgs, sgs = groups.generate()
    bad_names = sorted(set(groups.known("name_ops")))
    bad_sg = sorted(set(int(x) for x in groups.known("spacegroup")))
    known = ("import OrixModel.Group\n/- GENERATED from /verif/known_findings.json (open C03 entries). Do not edit. -/\n"
             "namespace Orix.Gen.C03Known\n"
             f"def knownBadNames : List String := [{', '.join(json.dumps(x) for x in bad_names)}]\n"
             f"def knownBadSG : List Nat := [{', '.join(map(str, bad_sg))}]\n"
             "end Orix.Gen.C03Known\n")
    for rel, text in (("OrixGen/PointGroups.lean", pg_text), ("OrixGen/SpaceGroups.lean", sg_text),
                      ("OrixGen/C03Known.lean", known)):
        if write_if_changed(os.path.join(LEAN, rel), text):
            changed.append(rel)
    gdir = os.path.join(LEAN, "OrixProofs", "GenAudit")
    wanted = set()
    n = len(pgs)
    for k in range(n):
        wanted.add(f"PG_{k}.lean")
    # shared definition file + per-group obligations + aggregate
    defs = ("import OrixModel.Group\nimport OrixGen.PointGroups\nimport OrixGen.C03Known\n"
            "/- GENERATED (T-gen). Do not edit. -/\nnamespace Orix.GenAudit\nopen Orix.Grp Orix.Gen\n"
            "/-- all single-group clauses, the subgroup query against the whole table, and the name clause\n"
            "(which must fail exactly for the names listed as known findings) -/\n"
            "def goodRec (r : GroupRec) : Bool :=\n  checkGroup r && checkSubgroups PG.all r &&\n"
            "    (checkGroupName r == !C03Known.knownBadNames.contains r.name)\nend Orix.GenAudit\n")
    if write_if_changed(os.path.join(gdir, "PG_Defs.lean"), defs):
        changed.append("OrixProofs/GenAudit/PG_Defs.lean")
    wanted.add("PG_Defs.lean")
    for k in range(n):
        body = ("import OrixProofs.GenAudit.PG_Defs\n/- GENERATED obligation (T-gen). Do not edit. -/\n"
                "namespace Orix.GenAudit\nopen Orix.Grp Orix.Gen\n"
                f"set_option maxRecDepth 100000 in\ntheorem pg_{k}_good : goodRec PG.g{k} = true := by decide +kernel\n"
                "end Orix.GenAudit\n")
        if write_if_changed(os.path.join(gdir, f"PG_{k}.lean"), body):
            changed.append(f"OrixProofs/GenAudit/PG_{k}.lean")
    agg = ("\n".join(f"import OrixProofs.GenAudit.PG_{k}" for k in range(n)) +
           "\nimport OrixGen.SpaceGroups\n/- GENERATED aggregate of the C03 table obligations (T-gen). Do not edit. -/\n"
           "namespace Orix.GenAudit\nopen Orix.Grp Orix.Gen\n"
           "theorem all_good : PG.all.all goodRec = true := by\n  simp only [PG.all, List.all_cons, List.all_nil, "
           + ", ".join(f"pg_{k}_good" for k in range(n)) + ", Bool.and_self]\n"
           "set_option maxRecDepth 100000 in\n"
           "theorem sg_bad_eq : sgBad PG.all SG.sgs = C03Known.knownBadSG := by decide +kernel\n"
           "set_option maxRecDepth 100000 in\n"
           "theorem sg_numbers : SG.sgs.map (·.number) = List.range' 1 230 := by decide +kernel\n"
           "end Orix.GenAudit\n")
    if write_if_changed(os.path.join(gdir, "C03Tables.lean"), agg):
        changed.append("OrixProofs/GenAudit/C03Tables.lean")
    wanted.add("C03Tables.lean")
    for fn in os.listdir(gdir):
        if fn.startswith("PG_") and fn.endswith(".lean") and fn not in wanted:
            os.remove(os.path.join(gdir, fn))
    return {"n_groups": n, "known_bad_names": bad_names, "known_bad_sg": bad_sg,
            "names": [r["name"] for r in pgs],
            "modules": ["OrixProofs.GenAudit.C03Tables"] + [f"OrixProofs.GenAudit.PG_{k}" for k in range(n)]}


def regen(groups=False):
    """returns a status record; raises nothing for untranslatable kernels (they are recorded)"""
    text, kstatus = kernels.generate()
    changed = []
    if write_if_changed(os.path.join(LEAN, "OrixGen", "Kernels.lean"), text):
        changed.append("OrixGen/Kernels.lean")
    obligations = {}
    gdir = os.path.join(LEAN, "OrixProofs", "GenAudit")
    os.makedirs(gdir, exist_ok=True)
    wanted = set()
    for k, (binders, stmt, defs, props) in KERNEL_OBLIGATIONS.items():
        if kstatus.get(k) != "translated":
            continue
        mod = f"K_{k}"
        body = HDR + f"theorem {k}_eq_model {binders} :\n    {stmt} := " + POLY_TAC.format(defs=defs) + \
            "\nend Orix.GenAudit\n"
        if write_if_changed(os.path.join(gdir, mod + ".lean"), body):
            changed.append(f"OrixProofs/GenAudit/{mod}.lean")
        wanted.add(mod + ".lean")
        obligations[k] = {"module": f"OrixProofs.GenAudit.{mod}", "theorem": f"Orix.GenAudit.{k}_eq_model",
                          "props": props}
    for fn in os.listdir(gdir):
        if fn.endswith(".lean") and fn not in wanted and fn.startswith("K_"):
            os.remove(os.path.join(gdir, fn))
    gstat = None
    if groups or not os.path.exists(os.path.join(LEAN, "OrixGen", "PointGroups.lean")):
        gstat = regen_groups(changed)
    write_if_changed(os.path.join(LEAN, "OrixGen.lean"),
                     "import OrixGen.Kernels\nimport OrixGen.PointGroups\nimport OrixGen.SpaceGroups\nimport OrixGen.C03Known\n")
    return {"kernels": kstatus, "obligations": obligations, "changed": changed, "groups": gstat}


if __name__ == "__main__":
    print(json.dumps(regen(), indent=1))
