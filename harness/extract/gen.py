"""Regenerate every generated Lean file from /repo's current working tree (T-gen, T-ast).
Files are only rewritten when their content changes, so `lake build` stays incremental."""
from __future__ import annotations

import json
import os

from ..common import LEAN, write_if_changed
from . import kernels

HDR = ("import Mathlib.Tactic.Ring\nimport OrixProofs.Lemmas.RealScalar\nimport OrixModel\nimport OrixGen.Kernels\n"
       "set_option linter.unusedSimpArgs false\n/- GENERATED obligation: generated kernel = hand-written model (T-ast). Do not edit. -/\n"
       "namespace Orix.GenAudit\nopen Orix\n")

POLY_TAC = ("by\n  simp only [{defs}, Scalar.npow, Scalar.sq, lit_real, Nat.cast_ofNat, Nat.cast_one, Nat.cast_zero,\n"
            "    Quat.toList, Vec3.toList, Mat3.toList, List.cons.injEq, and_true]\n"
            "  repeat' apply And.intro\n  all_goals (first | trivial | ring)")

ATOM_TAC = ("by\n  simp only [{defs}, Scalar.npow, Scalar.sq, lit_real, Nat.cast_ofNat, Nat.cast_one, Nat.cast_zero,\n"
            "    Quat.toList, List.cons.injEq, and_true]\n"
            "  repeat' apply And.intro\n  all_goals (first | trivial | ring | (ring_nf))")

POLAR_TAC = ("by\n  simp only [{defs}, lit_real, Nat.cast_ofNat, Nat.cast_one, Nat.cast_zero, Vec3.toList, List.cons.injEq, and_true,\n"
             "    Bool.false_eq_true, if_false]\n"
             "  repeat' apply And.intro\n  all_goals (first | trivial | ring | (ring_nf))")

# --- branching / transcendental kernels (C01): unfold both sides over ℝ, turn the Bool tests into propositions,
# split every `if`, close each leaf by rfl / ring1 / contradiction of linear conditions.  Robust to renamings,
# re-association / commutation of arithmetic and to reordering of branches; see harness/props/c01.py (TAST_NOTE).
BRANCH_HDR = ("import OrixProofs.Lemmas.ConvKernTac\nimport OrixModel\nimport OrixGen.Kernels\n"
              "set_option linter.unusedSimpArgs false\nset_option linter.unusedTactic false\n"
              "set_option linter.unreachableTactic false\nset_option linter.unusedVariables false\n"
              "set_option maxRecDepth 20000\n"
              "/- GENERATED obligation: generated kernel = hand-written code-shaped model (T-ast). Do not edit. -/\n"
              "namespace Orix.GenAudit\nopen Orix\n")
BRANCH_SIMPS = ("Scalar.npow, lt_real, le_real, beq_real, abs_real, lit_real, Nat.cast_ofNat, Nat.cast_one, Nat.cast_zero, "
                "Bool.and_eq_true, Bool.not_eq_true', Bool.not_eq_eq_eq_not, Bool.not_true, Quat.toList, Vec3.toList, "
                "Euler.toList, AxAng.toList, Quat.neg, Quat.divS, Conv.eps9, Conv.eps8, Conv.half")
# second pass: a negated test (`if not c:` in the source, swapped branches) arrives as `c = false`; turn it into `¬ c = true`,
# flip the `if`, and read the Boolean connectives as propositions, so that both sides carry the same conditions
NEG_PASS = ("  try simp only [← Bool.not_eq_true, ite_not, Bool.and_eq_true, Bool.or_eq_true, lt_real, le_real, beq_real]\n")
BRANCH_TAC = "by\n  simp only [{defs}, " + BRANCH_SIMPS + "]\n" + NEG_PASS + "  kern_close"
# om2qu_single: the four first-stage values (0.5*sqrt(x_almost) with their sign tests) are abstracted first, then the
# two-fold logic is split (64 leaves).  A full split of the un-abstracted kernel needs > 5 min, so the obligation is
# only generated while the generated kernel still has that first-stage shape (om2qu_shape); otherwise it is skipped
# with a note and the kernel is tied by the correspondence check alone (a harmless rewrite must not raise an alarm).
def om2qu_shape(text):
    import re
    m = re.search(r"def om2qu_single .*?(?=\n\n|\Z)", text, re.S)
    if not m:
        return "kernel text not found"
    body = m.group(0)
    q0 = re.search(r"if t\d+ then \(Scalar\.lit 0\) else \(t\d+ \* \(Scalar\.sqrt t\d+\)\)", body)
    sg = re.findall(r"if \(Scalar\.lt om_\d om_\d\) then \(t\d+ \* t\d+\) else \(t\d+ \* t\d+\)", body)
    if q0 and len(sg) == 3:
        return True
    return "first-stage assignments of om2qu_single no longer have the shape the staged proof abstracts"


OM2QU_TAC = ("by\n  simp only [{defs}, " + BRANCH_SIMPS + "]\n"
             "  generalize (if 1 + m0 + m4 + m8 < Scalar.dec 1 9 then (0:ℝ) else Scalar.dec 5 1 * Scalar.sqrt (1 + m0 + m4 + m8)) = q0\n"
             "  generalize (if 1 + m0 - m4 - m8 < Scalar.dec 1 9 then (0:ℝ) else if m7 < m5 then -Scalar.dec 5 1 * Scalar.sqrt (1 + m0 - m4 - m8) else Scalar.dec 5 1 * Scalar.sqrt (1 + m0 - m4 - m8)) = q1\n"
             "  generalize (if 1 - m0 + m4 - m8 < Scalar.dec 1 9 then (0:ℝ) else if m2 < m6 then -Scalar.dec 5 1 * Scalar.sqrt (1 - m0 + m4 - m8) else Scalar.dec 5 1 * Scalar.sqrt (1 - m0 + m4 - m8)) = q2\n"
             "  generalize (if 1 - m0 - m4 + m8 < Scalar.dec 1 9 then (0:ℝ) else if m3 < m1 then -Scalar.dec 5 1 * Scalar.sqrt (1 - m0 - m4 + m8) else Scalar.dec 5 1 * Scalar.sqrt (1 - m0 - m4 + m8)) = q3\n"
             "  kern_close")

# `_vector2xy`: one guarded division; case split on the guard itself (robust to how the guard is spelled)
STEREO_TAC = ("by\n  simp only [{defs}, lit_real, Nat.cast_zero, Nat.cast_one]\n"
              "  by_cases h : z - p = 0\n"
              "  · have hb : Scalar.beq (z - p) (0 : ℝ) = true := (beq_real _ _).mpr h\n    simp [hb, h]\n"
              "  · have hb : Scalar.beq (z - p) (0 : ℝ) = false := by\n"
              "      rw [Bool.eq_false_iff, Ne, beq_real]; exact h\n    simp [hb, h]")

# kernel -> (binders, statement, defs to unfold, properties served[, tactic template, header])
KERNEL_OBLIGATIONS = {
    "hsl_to_hsv": ("(h s l : ℝ)", "Gen.hsl_to_hsv h s l = Color.hslToHsv h s l",
                   "Gen.hsl_to_hsv, Color.hslToHsv", ["C08"], "by\n  simp only [{defs}]", None),
    "qu_conj_gufunc": ("(a b c d : ℝ)", "Gen.qu_conj_gufunc a b c d = (Quat.conj ⟨a, b, c, d⟩).toList",
                       "Gen.qu_conj_gufunc, Quat.conj", ["C02", "C18"]),
    "qu_multiply_gufunc": ("(a b c d e f g h : ℝ)",
                           "Gen.qu_multiply_gufunc a b c d e f g h = (Quat.mul ⟨a, b, c, d⟩ ⟨e, f, g, h⟩).toList",
                           "Gen.qu_multiply_gufunc, Quat.mul", ["C02", "C18"]),
    "qu_rotate_vec_gufunc": ("(a b c d x y z : ℝ)",
                             "Gen.qu_rotate_vec_gufunc a b c d x y z = (Quat.rotate ⟨a, b, c, d⟩ ⟨x, y, z⟩).toList",
                             "Gen.qu_rotate_vec_gufunc, Quat.rotate", ["C02", "C18"]),
    "qu2om_single": ("(a b c d : ℝ)", "Gen.qu2om_single a b c d = (Quat.toMat ⟨a, b, c, d⟩).toList",
                     "Gen.qu2om_single, Quat.toMat", ["C01", "C02"]),
    "outer_dask_qq": ("(a b c d e f g h : ℝ)",
                      "Gen.outer_dask_qq a b c d e f g h = (Quat.mul ⟨a, b, c, d⟩ ⟨e, f, g, h⟩).toList",
                      "Gen.outer_dask_qq, Quat.mul", ["C02", "C18"]),
    "outer_dask_qv": ("(a b c d x y z : ℝ)",
                      "Gen.outer_dask_qv a b c d x y z = (Mat3.mulVec (Quat.toMat ⟨a, b, c, d⟩) ⟨x, y, z⟩).toList",
                      "Gen.outer_dask_qv, Quat.toMat, Mat3.mulVec", ["C02", "C18"]),
    # C09: 4-index helpers (one element of the vectorised numpy code), C20: stereographic arithmetic
    "hkl2hkil": ("(h k l : ℝ)", "Gen.hkl2hkil h k l = (Orix.hkl2hkil ⟨h, k, l⟩).toList",
                 "Gen.hkl2hkil, Orix.hkl2hkil, Vec4.toList", ["C09"]),
    "hkil2hkl": ("(h k i l : ℝ)", "Gen.hkil2hkl h k i l = (Orix.hkil2hkl ⟨h, k, i, l⟩).toList",
                 "Gen.hkil2hkl, Orix.hkil2hkl, Vec4.toList", ["C09"]),
    "uvw2UVTW": ("(u v w : ℝ)", "Gen.uvw2UVTW u v w = (Orix.uvw2UVTW ⟨u, v, w⟩).toList",
                 "Gen.uvw2UVTW, Orix.uvw2UVTW, Vec4.toList", ["C09"]),
    "UVTW2uvw": ("(U V T W : ℝ)", "Gen.UVTW2uvw U V T W = (Orix.UVTW2uvw ⟨U, V, T, W⟩).toList",
                 "Gen.UVTW2uvw, Orix.UVTW2uvw, Vec4.toList", ["C09"]),
    "xy2vector": ("(p x y : ℝ)", "Gen.xy2vector p x y = (Stereo.xy2vectorP p x y).toList",
                  "Gen.xy2vector, Stereo.xy2vectorP", ["C20"]),
    "vector2xy": ("(p x y z : ℝ)",
                  "Gen.vector2xy p x y z = [(Stereo.vector2xyUnit p ⟨x, y, z⟩).1, (Stereo.vector2xyUnit p ⟨x, y, z⟩).2]",
                  "Gen.vector2xy, Stereo.vector2xyUnit", ["C20"], STEREO_TAC, BRANCH_HDR),
    # C19: one grid quaternion of the "quaternion" SO(3) method (transcendental atoms: ring up to normalisation inside them)
    "so3_quat_point": ("(u v w : ℝ)", "Gen.so3_quat_point u v w = (SO3Sampling.quatPoint u v w).toList",
                       "Gen.so3_quat_point, SO3Sampling.quatPoint", ["C19"], ATOM_TAC),
    "from_polar_xyz": ("(a t : ℝ)", "Gen.from_polar_xyz a t = (Stereo.fromPolar false a t 1).toList",
                       "Gen.from_polar_xyz, Stereo.fromPolar", ["C19", "C20"], POLAR_TAC),
    # C01: code-shaped conversion kernels (OrixModel/Conv.lean)
    "om2qu_single": ("(m0 m1 m2 m3 m4 m5 m6 m7 m8 : ℝ)",
                     "Gen.om2qu_single m0 m1 m2 m3 m4 m5 m6 m7 m8 = (Conv.om2qu ⟨m0, m1, m2, m3, m4, m5, m6, m7, m8⟩).toList",
                     "Gen.om2qu_single, Conv.om2qu", ["C01"], OM2QU_TAC, BRANCH_HDR, 400000, om2qu_shape),
    "eu2qu_single": ("(a b c : ℝ)", "Gen.eu2qu_single a b c = (Conv.eu2qu ⟨a, b, c⟩).toList",
                     "Gen.eu2qu_single, Conv.eu2qu, Conv.eu2quRaw", ["C01"], BRANCH_TAC, BRANCH_HDR),
    "qu2eu_single": ("(a b c d : ℝ)", "Gen.qu2eu_single a b c d = (Conv.qu2eu ⟨a, b, c, d⟩).toList",
                     "Gen.qu2eu_single, Conv.qu2eu, Conv.qu2euWith, Conv.zeroSmall", ["C01"], BRANCH_TAC, BRANCH_HDR),
    "ax2qu_single": ("(x y z w : ℝ)", "Gen.ax2qu_single x y z w = (Conv.ax2qu ⟨⟨x, y, z⟩, w⟩).toList",
                     "Gen.ax2qu_single, Conv.ax2qu", ["C01"], BRANCH_TAC, BRANCH_HDR),
    "qu2ax_single": ("(a b c d : ℝ)", "Gen.qu2ax_single a b c d = (Conv.qu2ax ⟨a, b, c, d⟩).toList",
                     "Gen.qu2ax_single, Conv.qu2ax", ["C01"], BRANCH_TAC, BRANCH_HDR),
    "qu2ho_single": ("(a b c d : ℝ)", "Gen.qu2ho_single a b c d = (Conv.qu2ho ⟨a, b, c, d⟩).toList",
                     "Gen.qu2ho_single, Conv.qu2ho", ["C01"], BRANCH_TAC, BRANCH_HDR),
    # ho2ax_single (fitted 21-term polynomial): no theorem depends on it and ring normalisation of the polynomial in
    # x²+y²+z² is not robust to re-association of that sum -> no T-ast obligation, correspondence only
}


def regen_groups(changed):
    """T-gen for C03: point-group / space-group tables and their kernel-decided obligations"""
    from . import groups
    pg_text, sg_text, pgs, sgs = groups.generate()
    bad_names = sorted(set(groups.known("name_ops")))
    bad_sg = sorted(set(int(x) for x in groups.known("spacegroup")))
    known = ("import OrixModel.Group\n/- GENERATED from /verif/known_findings.json (open C03 entries). Do not edit. -/\n"
             "namespace Orix.Gen.C03Known\n"
             f"def knownBadNames : List String := [{', '.join(json.dumps(x) for x in bad_names)}]\n"
             f"def knownBadSG : List Nat := [{', '.join(map(str, bad_sg))}]\n"
             "end Orix.Gen.C03Known\n")
    for rel, text in (("OrixGen/PointGroups.lean", pg_text), ("OrixGen/SpaceGroups.lean", sg_text),
                      ("OrixGen/C03Known.lean", known)):
        if write_if_changed(os.path.join(LEAN, rel), text):
            changed.append(rel)
    gdir = os.path.join(LEAN, "OrixProofs", "GenAudit")
    wanted = set()
    n = len(pgs)
    for k in range(n):
        wanted.add(f"PG_{k}.lean")
    # shared definition file + per-group obligations + aggregate
    defs = ("import OrixModel.Group\nimport OrixGen.PointGroups\nimport OrixGen.C03Known\n"
            "/- GENERATED (T-gen). Do not edit. -/\nnamespace Orix.GenAudit\nopen Orix.Grp Orix.Gen\n"
            "/-- all single-group clauses, the subgroup query against the whole table, and the name clause\n"
            "(which must fail exactly for the names listed as known findings) -/\n"
            "def goodRec (r : GroupRec) : Bool :=\n  checkGroup r && checkSubgroups PG.all r &&\n"
            "    (checkGroupName r == !C03Known.knownBadNames.contains r.name)\nend Orix.GenAudit\n")
    if write_if_changed(os.path.join(gdir, "PG_Defs.lean"), defs):
        changed.append("OrixProofs/GenAudit/PG_Defs.lean")
    wanted.add("PG_Defs.lean")
    for k in range(n):
        body = ("import OrixProofs.GenAudit.PG_Defs\n/- GENERATED obligation (T-gen). Do not edit. -/\n"
                "namespace Orix.GenAudit\nopen Orix.Grp Orix.Gen\n"
                f"set_option maxRecDepth 100000 in\ntheorem pg_{k}_good : goodRec PG.g{k} = true := by decide +kernel\n"
                "end Orix.GenAudit\n")
        if write_if_changed(os.path.join(gdir, f"PG_{k}.lean"), body):
            changed.append(f"OrixProofs/GenAudit/PG_{k}.lean")
    agg = ("\n".join(f"import OrixProofs.GenAudit.PG_{k}" for k in range(n)) +
           "\nimport OrixGen.SpaceGroups\n/- GENERATED aggregate of the C03 table obligations (T-gen). Do not edit. -/\n"
           "namespace Orix.GenAudit\nopen Orix.Grp Orix.Gen\n"
           "theorem all_good : PG.all.all goodRec = true := by\n  simp only [PG.all, List.all_cons, List.all_nil, "
           + ", ".join(f"pg_{k}_good" for k in range(n)) + ", Bool.and_self]\n"
           "set_option maxRecDepth 100000 in\n"
           "theorem sg_bad_eq : sgBad PG.all SG.sgs = C03Known.knownBadSG := by decide +kernel\n"
           "set_option maxRecDepth 100000 in\n"
           "theorem sg_numbers : SG.sgs.map (·.number) = List.range' 1 230 := by decide +kernel\n"
           "end Orix.GenAudit\n")
    if write_if_changed(os.path.join(gdir, "C03Tables.lean"), agg):
        changed.append("OrixProofs/GenAudit/C03Tables.lean")
    wanted.add("C03Tables.lean")
    for fn in os.listdir(gdir):
        if fn.startswith("PG_") and fn.endswith(".lean") and fn not in wanted:
            os.remove(os.path.join(gdir, fn))
    return {"n_groups": n, "known_bad_names": bad_names, "known_bad_sg": bad_sg,
            "names": [r["name"] for r in pgs],
            "modules": ["OrixProofs.GenAudit.C03Tables"] + [f"OrixProofs.GenAudit.PG_{k}" for k in range(n)]}


def regen_sectors(changed):
    """T-gen for C07/C08/C20: sector tables, certificates and their kernel-decided obligations"""
    from . import sectors
    secs = sectors.all_sectors()
    text, good, bad = sectors.generate(secs)
    if write_if_changed(os.path.join(LEAN, "OrixGen", "Sectors.lean"), text):
        changed.append("OrixGen/Sectors.lean")
    gdir = os.path.join(LEAN, "OrixProofs", "GenAudit")
    wanted = set()
    mods = []
    for nm in good:
        body = ("import OrixModel.Sector\nimport OrixGen.Sectors\n/- GENERATED obligation (T-gen). Do not edit. -/\n"
                "namespace Orix.GenAudit\nopen Orix.Grp Orix.Gen\nset_option maxRecDepth 100000 in\n"
                f"theorem sec_{nm} : checkSector SEC.{nm} = true := by decide +kernel\nend Orix.GenAudit\n")
        fn = f"SEC_{nm}.lean"
        wanted.add(fn)
        mods.append(f"OrixProofs.GenAudit.SEC_{nm}")
        if write_if_changed(os.path.join(gdir, fn), body):
            changed.append("OrixProofs/GenAudit/" + fn)
    for nm in bad:
        body = ("import OrixModel.Sector\nimport OrixGen.Sectors\n/- GENERATED obligation (T-gen). Do not edit. -/\n"
                "namespace Orix.GenAudit\nopen Orix.Grp Orix.Gen\nset_option maxRecDepth 100000 in\n"
                f"theorem sec_{nm} : checkBad SEC.{nm}_ops SEC.{nm}_walls SEC.{nm}_wit = true := by decide +kernel\n"
                "end Orix.GenAudit\n")
        fn = f"SEC_{nm}.lean"
        wanted.add(fn)
        mods.append(f"OrixProofs.GenAudit.SEC_{nm}")
        if write_if_changed(os.path.join(gdir, fn), body):
            changed.append("OrixProofs/GenAudit/" + fn)
    agg = ("\n".join(f"import OrixProofs.GenAudit.SEC_{nm}" for nm in good + bad) +
           "\nimport OrixGen.Sectors\n/- GENERATED aggregate of the sector obligations (T-gen). Do not edit. -/\n"
           "namespace Orix.GenAudit\nopen Orix.Grp Orix.Gen\n"
           "theorem all_sectors_good : SEC.good.all checkSector = true := by\n"
           "  simp only [SEC.good, List.all_cons, List.all_nil, "
           + ", ".join(f"sec_{nm}" for nm in good) + ", Bool.and_self]\n"
           "theorem all_sectors_bad : SEC.bad.all (fun t => checkBad t.1 t.2.1 t.2.2) = true := by\n"
           "  simp only [SEC.bad, List.all_cons, List.all_nil, "
           + ", ".join(f"sec_{nm}" for nm in bad) + ", Bool.and_self]\n"
           "end Orix.GenAudit\n")
    if write_if_changed(os.path.join(gdir, "C07Tables.lean"), agg):
        changed.append("OrixProofs/GenAudit/C07Tables.lean")
    wanted.add("C07Tables.lean")
    for fn in os.listdir(gdir):
        if fn.startswith("SEC_") and fn.endswith(".lean") and fn not in wanted:
            os.remove(os.path.join(gdir, fn))
    keep = ("k", "role", "name", "label", "status", "basis", "walls", "half", "why", "witness", "n_ops")
    slim = []
    for r in secs:
        d = {k: v for k, v in r.items() if k in keep}
        if "cert" in r:
            d["centre"] = r["cert"]["centre"]
        slim.append(d)
    return {"sectors": slim, "good": good, "bad": bad,
            "modules": ["OrixProofs.GenAudit.C07Tables"] + mods,
            "theorems": [(f"OrixProofs.GenAudit.SEC_{nm}", f"Orix.GenAudit.sec_{nm}") for nm in good + bad]
                        + [("OrixProofs.GenAudit.C07Tables", "Orix.GenAudit.all_sectors_good"),
                           ("OrixProofs.GenAudit.C07Tables", "Orix.GenAudit.all_sectors_bad")]}


def regen_io(changed=None):
    """T-gen for C13-C15: vendor column tables, alias/sentinel tables of the I/O plugins (OrixGen/IoTables.lean)"""
    from . import tables_io
    try:
        text, status = tables_io.generate()
    except Exception as e:          # the extractor met source it cannot read: the tie is broken, never the run
        import traceback
        return {"__crash__": f"I/O table extraction failed ({type(e).__name__}: {e}; "
                             f"{traceback.format_exc(limit=2).splitlines()[-3].strip() if traceback.format_exc() else ''}); "
                             "the previously generated tables are kept, so the table obligations say nothing about this tree"}
    if write_if_changed(os.path.join(LEAN, "OrixGen", "IoTables.lean"), text) and changed is not None:
        changed.append("OrixGen/IoTables.lean")
    return status


def regen(groups=False, io=False):
    """returns a status record; raises nothing for untranslatable kernels (they are recorded)"""
    text, kstatus = kernels.generate()
    changed = []
    if write_if_changed(os.path.join(LEAN, "OrixGen", "Kernels.lean"), text):
        changed.append("OrixGen/Kernels.lean")
    obligations = {}
    gdir = os.path.join(LEAN, "OrixProofs", "GenAudit")
    os.makedirs(gdir, exist_ok=True)
    wanted = set()
    skipped = {}
    for k, spec in KERNEL_OBLIGATIONS.items():
        binders, stmt, defs, props = spec[:4]
        tac = spec[4] if len(spec) > 4 else POLY_TAC
        hdr = spec[5] if len(spec) > 5 and spec[5] else HDR
        beats = f"set_option maxHeartbeats {spec[6]} in\n" if len(spec) > 6 else ""
        if kstatus.get(k) != "translated":
            continue
        if len(spec) > 7:
            ok = spec[7](text)
            if ok is not True:
                skipped[k] = str(ok)
                continue
        mod = f"K_{k}"
        body = hdr + beats + f"theorem {k}_eq_model {binders} :\n    {stmt} := " + tac.format(defs=defs) + \
            "\nend Orix.GenAudit\n"
        if write_if_changed(os.path.join(gdir, mod + ".lean"), body):
            changed.append(f"OrixProofs/GenAudit/{mod}.lean")
        wanted.add(mod + ".lean")
        obligations[k] = {"module": f"OrixProofs.GenAudit.{mod}", "theorem": f"Orix.GenAudit.{k}_eq_model",
                          "props": props}
    for fn in os.listdir(gdir):
        if fn.endswith(".lean") and fn not in wanted and fn.startswith("K_"):
            os.remove(os.path.join(gdir, fn))
    gstat = None
    sstat = None
    if groups or not os.path.exists(os.path.join(LEAN, "OrixGen", "PointGroups.lean")) \
            or not os.path.exists(os.path.join(LEAN, "OrixGen", "Sectors.lean")):
        gstat = regen_groups(changed)
        sstat = regen_sectors(changed)
    iostat = None
    if io or not os.path.exists(os.path.join(LEAN, "OrixGen", "IoTables.lean")):
        iostat = regen_io(changed)
    write_if_changed(os.path.join(LEAN, "OrixGen.lean"),
                     "import OrixGen.Kernels\nimport OrixGen.PointGroups\nimport OrixGen.SpaceGroups\nimport OrixGen.C03Known\n"
                     "import OrixGen.IoTables\nimport OrixGen.Sectors\n")
    return {"kernels": kstatus, "obligations": obligations, "skipped_obligations": skipped, "changed": changed,
            "groups": gstat, "io": iostat,
            "sectors": sstat}


if __name__ == "__main__":
    print(json.dumps(regen(), indent=1))
