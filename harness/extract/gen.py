"""Regenerate every generated Lean file from /repo's current working tree (T-gen, T-ast).
Files are only rewritten when their content changes, so `lake build` stays incremental."""
from __future__ import annotations

import json
import os

from ..common import LEAN, write_if_changed
from . import kernels

HDR = ("import Mathlib.Tactic.Ring\nimport OrixProofs.Lemmas.RealScalar\nimport OrixModel\nimport OrixGen.Kernels\n"
       "set_option linter.unusedSimpArgs false\n/- GENERATED obligation: generated kernel = hand-written model (T-ast). Do not edit. -/\n"
       "namespace Orix.GenAudit\nopen Orix\n")

POLY_TAC = ("by\n  simp only [{defs}, Scalar.npow, Scalar.sq, lit_real, Nat.cast_ofNat, Nat.cast_one, Nat.cast_zero,\n"
            "    Quat.toList, Vec3.toList, Mat3.toList, List.cons.injEq, and_true]\n"
            "  repeat' apply And.intro\n  all_goals (first | trivial | ring)")

# kernel -> (binders, statement, defs to unfold, properties served)
KERNEL_OBLIGATIONS = {
    "qu_conj_gufunc": ("(a b c d : ℝ)", "Gen.qu_conj_gufunc a b c d = (Quat.conj ⟨a, b, c, d⟩).toList",
                       "Gen.qu_conj_gufunc, Quat.conj", ["C02", "C18"]),
    "qu_multiply_gufunc": ("(a b c d e f g h : ℝ)",
                           "Gen.qu_multiply_gufunc a b c d e f g h = (Quat.mul ⟨a, b, c, d⟩ ⟨e, f, g, h⟩).toList",
                           "Gen.qu_multiply_gufunc, Quat.mul", ["C02", "C18"]),
    "qu_rotate_vec_gufunc": ("(a b c d x y z : ℝ)",
                             "Gen.qu_rotate_vec_gufunc a b c d x y z = (Quat.rotate ⟨a, b, c, d⟩ ⟨x, y, z⟩).toList",
                             "Gen.qu_rotate_vec_gufunc, Quat.rotate", ["C02", "C18"]),
    "qu2om_single": ("(a b c d : ℝ)", "Gen.qu2om_single a b c d = (Quat.toMat ⟨a, b, c, d⟩).toList",
                     "Gen.qu2om_single, Quat.toMat", ["C01", "C02"]),
    "outer_dask_qq": ("(a b c d e f g h : ℝ)",
                      "Gen.outer_dask_qq a b c d e f g h = (Quat.mul ⟨a, b, c, d⟩ ⟨e, f, g, h⟩).toList",
                      "Gen.outer_dask_qq, Quat.mul", ["C02", "C18"]),
    "outer_dask_qv": ("(a b c d x y z : ℝ)",
                      "Gen.outer_dask_qv a b c d x y z = (Mat3.mulVec (Quat.toMat ⟨a, b, c, d⟩) ⟨x, y, z⟩).toList",
                      "Gen.outer_dask_qv, Quat.toMat, Mat3.mulVec", ["C02", "C18"]),
}


def regen():
    """returns a status record; raises nothing for untranslatable kernels (they are recorded)"""
    text, kstatus = kernels.generate()
    changed = []
    if write_if_changed(os.path.join(LEAN, "OrixGen", "Kernels.lean"), text):
        changed.append("OrixGen/Kernels.lean")
    write_if_changed(os.path.join(LEAN, "OrixGen.lean"), "import OrixGen.Kernels\n")
    obligations = {}
    gdir = os.path.join(LEAN, "OrixProofs", "GenAudit")
    os.makedirs(gdir, exist_ok=True)
    wanted = set()
    for k, (binders, stmt, defs, props) in KERNEL_OBLIGATIONS.items():
        if kstatus.get(k) != "translated":
            continue
        mod = f"K_{k}"
        body = HDR + f"theorem {k}_eq_model {binders} :\n    {stmt} := " + POLY_TAC.format(defs=defs) + \
            "\nend Orix.GenAudit\n"
        if write_if_changed(os.path.join(gdir, mod + ".lean"), body):
            changed.append(f"OrixProofs/GenAudit/{mod}.lean")
        wanted.add(mod + ".lean")
        obligations[k] = {"module": f"OrixProofs.GenAudit.{mod}", "theorem": f"Orix.GenAudit.{k}_eq_model",
                          "props": props}
    for fn in os.listdir(gdir):
        if fn.endswith(".lean") and fn not in wanted and fn.startswith("K_"):
            os.remove(os.path.join(gdir, fn))
    return {"kernels": kstatus, "obligations": obligations, "changed": changed}


if __name__ == "__main__":
    print(json.dumps(regen(), indent=1))
