"""./check entry point."""
from __future__ import annotations

import argparse
import importlib
import json
import os
import subprocess
import sys
import traceback

from . import common
from .common import Ctx, LEAN, VERIF


GROUP_TABLE_PROPS = {"C03", "C04", "C05", "C06", "C07", "C08", "C10"}


def setup():
    from .extract import gen
    st = gen.regen(groups=True)
    mods = [o["module"] for o in st["obligations"].values()] + (st["groups"]["modules"] if st.get("groups") else []) \
        + (st["sectors"]["modules"] if st.get("sectors") else [])
    ok, errs, out = common.lake_build([], timeout=6000)
    ok2, errs2, out2 = common.lake_build(mods, timeout=6000) if mods else (True, {}, "")
    if not (ok and ok2):
        # a failing obligation at setup time is reported by the checks themselves, not here
        print("setup: lake build reported failures (the per-property checks will attribute them)")
        for m, e in {**errs, **errs2}.items():
            print("  ", m, e[:2])
    print("setup done")
    return 0


def lean_phase(ctx: Ctx, status, prop_modules, kernels=(), extra_modules=(), gen_theorems=()):
    """Build and audit everything Lean-side the property depends on. Failures are recorded as broken
    obligations (never as violations by themselves: finish() decides after the failing-input search)."""
    targets = ["Driver"] + list(prop_modules) + list(extra_modules)
    gen_ob = {k: status["obligations"][k] for k in kernels if k in status["obligations"]}
    # generated table obligations: (module, theorem) pairs
    for i, (m, t) in enumerate(gen_theorems):
        gen_ob[f"table{i}:{t}"] = {"module": m, "theorem": t}
    for k in kernels:
        st = status["kernels"].get(k, "not translated: unknown kernel")
        if st != "translated":
            ctx.note(f"T-ast: kernel {k} {st}; tied by the correspondence check alone")
    targets += [o["module"] for o in gen_ob.values()]
    ok, errs, out = common.lake_build(targets)
    ctx.checker_cmd = "cd lean && lake build " + " ".join(targets) + " && #print axioms <each theorem>"
    theorems = []
    for m in prop_modules:
        path = os.path.join(LEAN, m.replace(".", "/") + ".lean")
        names = common.theorems_in(path)
        # any failing module in this build is a dependency of the property's targets: lake then keeps a stale .olean of
        # the property module, so its theorems must not be counted as discharged
        bad = bool(errs)
        for t in names:
            ctx.obligations[t] = not bad
        theorems += names
        if bad:
            why = errs.get(m) or [f"dependency {k} fails: {v[0]}" for k, v in list(errs.items())[:3]]
            ctx.fail("lean:" + m, f"property theorems in {m} no longer check: " + "; ".join(why[:3]),
                     {"module": m, "errors": why[:5]}, found_input=False, kind="obligation")
    for k, o in gen_ob.items():
        bad = o["module"] in errs
        ctx.obligations[o["theorem"]] = not bad
        theorems.append(o["theorem"])
        if bad and k.startswith("table"):
            ctx.fail("tgen:" + o["theorem"], f"T-gen obligation {o['theorem']} (kernel-decided table check) no longer "
                     "checks: " + "; ".join(errs[o["module"]][:2]), {"theorem": o["theorem"],
                                                                     "errors": errs[o["module"]][:5]},
                     found_input=False, kind="obligation")
        elif bad:
            ctx.fail("tast:" + k, f"T-ast obligation {o['theorem']} (generated kernel = model) no longer checks: "
                     + "; ".join(errs[o["module"]][:2]), {"kernel": k, "errors": errs[o["module"]][:5]},
                     found_input=False, kind="obligation")
    for m in errs:
        if m not in prop_modules and m not in [o["module"] for o in gen_ob.values()]:
            ctx.fail("lean:" + m, f"module {m} (dependency) no longer builds: " + "; ".join(errs[m][:2]),
                     {"module": m, "errors": errs[m][:5]}, found_input=False, kind="obligation")
    good_modules = [m for m in list(prop_modules) + [o["module"] for o in gen_ob.values()] if m not in errs]
    if not any(m.startswith("<") or not (m in prop_modules or m.startswith("OrixProofs.GenAudit")) for m in errs):
        ax = common.print_axioms(ctx, good_modules, [t for t in theorems if ctx.obligations.get(t)])
        for t in theorems:
            if not ctx.obligations.get(t):
                continue
            if t not in ax:
                ctx.obligations[t] = False
                ctx.fail("audit", f"#print axioms gave no answer for {t}", {"theorem": t}, False, "obligation")
                continue
            ctx.axioms[t] = ax[t]
            extra = set(ax[t]) - common.ALLOWED_AXIOMS
            if extra:
                ctx.obligations[t] = False
                ctx.fail("audit", f"{t} depends on disallowed axioms {sorted(extra)}", {"theorem": t}, False,
                         "obligation")
    if ctx.tier == "thorough" and not any(f.kind == "obligation" for f in ctx.failures):
        # independent re-check of the compiled property modules by leanchecker
        try:
            with common.LakeLock():
                p = subprocess.run(["lake", "env", "leanchecker"] + list(prop_modules), cwd=LEAN, capture_output=True,
                                   text=True, timeout=3000)
            ctx.extra["leanchecker"] = {"modules": list(prop_modules), "exit": p.returncode,
                                        "tail": (p.stdout + p.stderr)[-300:]}
            if p.returncode != 0:
                ctx.fail("audit", "leanchecker rejects " + ", ".join(prop_modules) + ": " + (p.stdout + p.stderr)[-300:],
                         {"modules": list(prop_modules)}, False, "obligation")
        except subprocess.TimeoutExpired:
            ctx.note("leanchecker timed out (not counted)")
    hits = common.grep_forbidden()
    if hits:
        ctx.fail("audit", "forbidden constructs in lean/: " + "; ".join(hits[:5]), {"hits": hits}, False, "obligation")
    return "Driver" not in errs and "Driver.Main" not in errs


def main(argv=None):
    ap = argparse.ArgumentParser()
    ap.add_argument("prop", nargs="?")
    ap.add_argument("--tier", default=os.environ.get("VERIF_TIER", "quick"), choices=["quick", "thorough"])
    ap.add_argument("--replay")
    ap.add_argument("--setup", action="store_true")
    a = ap.parse_args(argv)
    if a.setup:
        return setup()
    if not a.prop:
        ap.error("property id required")
    seed = int(os.environ.get("VERIF_SEED", "0") or 0)
    prop = a.prop.upper()
    ctx = Ctx(prop, a.tier, seed, replay=a.replay)
    try:
        from .extract import gen
        status = gen.regen(groups=prop in GROUP_TABLE_PROPS)
        mod = importlib.import_module(f"harness.props.{prop.lower()}")
        rc = mod.run(ctx, status)
        return rc
    except subprocess.TimeoutExpired as e:
        print(f"ERROR property={prop} infrastructure time-out: {e}")
        ctx.cleanup()
        return 2
    except Exception as exc:
        # An exception raised INSIDE the implementation (some frame of the traceback lies in the orix package under test)
        # while the harness generates cases, extracts tables or builds driver requests is behaviour of the code under
        # test: on the unchanged tree these calls succeed.  It is reported as a violation (the replay holds the traceback;
        # no single case exists yet at that stage), never as an infrastructure error.  Everything else is exit 2.
        tb = traceback.extract_tb(exc.__traceback__)
        repo = os.path.realpath(os.environ.get("VERIF_REPO", "/repo"))
        in_impl = [f for f in tb if os.path.realpath(f.filename).startswith(os.path.join(repo, "orix") + os.sep)]
        if in_impl:
            where = in_impl[-1]
            what = (f"{type(exc).__name__}: {exc} raised by the implementation at {os.path.relpath(where.filename, repo)}:"
                    f"{where.lineno} ({where.name}) while the check prepared its cases (harness frame: "
                    f"{os.path.basename(tb[0].filename)}:{tb[0].lineno}; on the unchanged tree this call succeeds)")
            ctx.fail("harness:implementation_raised", what,
                     {"traceback": traceback.format_exception(type(exc), exc, exc.__traceback__)[-12:]},
                     found_input=False, kind="corr")
            try:
                level = "proof"
                try:
                    man = json.load(open(os.path.join(VERIF, "MANIFEST.json")))
                    level = next(c["level_claimed"]["category"] for c in man["checks"] if c["property_id"] == prop)
                except Exception:
                    pass
                return common.finish(ctx, level, {}, rule="(run aborted: the implementation raised while cases were prepared)")
            except Exception:
                traceback.print_exc()
        print(f"ERROR property={prop} harness failure:")
        traceback.print_exc()
        ctx.cleanup()
        return 2


if __name__ == "__main__":
    sys.exit(main())
