"""C05 — fundamental-zone reduction returns a minimal-angle member of the symmetry orbit."""
from __future__ import annotations

import warnings

import numpy as np

from .. import common, sites
from ..common import f2h, h2f
from ..gen import quat as GQ
from ..main import lean_phase
from .c04 import gdata, groups, hmul, rot_line

TOL_Q = 1e-9
TOL_ANG = 2e-6
MARGIN = 1e-6


def same_rot(p, q, tol=TOL_Q):
    p, q = np.asarray(p, float), np.asarray(q, float)
    return bool(min(np.abs(p - q).max(), np.abs(p + q).max()) <= tol)


def angle_of(q):
    return float(2 * np.arccos(np.clip(abs(q[0]), 0, 1)))


def proper_ops(G):
    d, i = gdata(G)
    return d[~i]


def region_defined(Gl, Gr):
    return Gl.is_proper or Gr.is_proper or Gl.contains_inversion or Gr.contains_inversion


def orbit(Gl, Gr, m):
    pl, pr = proper_ops(Gl), proper_ops(Gr)
    return hmul(hmul(pl[:, None, :], np.asarray(m, float)[None, None, :]), pr[None, :, :]).reshape(-1, 4)


def mis(Gl, Gr, q, shape=None):
    from orix.quaternion import Misorientation
    q = np.asarray(q, float)
    if shape is not None:
        q = q.reshape(tuple(shape) + (4,))
    return Misorientation(common.relayout(q, int(abs(float(q.reshape(-1)[0])) * 1e6) if q.size else 0), symmetry=(Gl, Gr))


def reduce_call(M, c):
    """the reduction as the case asks for it: with the progress bar (`verbose=True`, output discarded) or without"""
    if not c.get("verbose"):
        return M.map_into_symmetry_reduced_zone()
    import contextlib
    import io
    with contextlib.redirect_stderr(io.StringIO()), contextlib.redirect_stdout(io.StringIO()):
        return M.map_into_symmetry_reduced_zone(verbose=True)


_regions = {}


def region(kl, kr):
    from orix.quaternion.orientation_region import OrientationRegion
    if (kl, kr) not in _regions:
        with warnings.catch_warnings():
            warnings.simplefilter("ignore")
            _regions[(kl, kr)] = OrientationRegion.from_symmetry(groups()[kl], groups()[kr])
    return _regions[(kl, kr)]


# ---- corr: the loop of the code vs the model loop on the same region normals ----------------------
def loop_lines(c):
    Gl, Gr = groups()[c["kl"]], groups()[c["kr"]]
    R = region(c["kl"], c["kr"])
    nrm = R.data.reshape(-1, 4)
    m = " ".join(f2h(x) for x in c["q"]) + " " + f2h(0.0)
    ns = " ".join(f2h(x) for row in nrm for x in row)
    with warnings.catch_warnings():
        warnings.simplefilter("ignore")
        cands = [Gl, Gl.proper_subgroup, Gl.laue_proper_subgroup, Gr, Gr.proper_subgroup, Gr.laue_proper_subgroup]
    flags = " ".join("1" if b else "0" for b in (Gl.is_proper, Gl.contains_inversion, Gr.is_proper, Gr.contains_inversion))
    sizes = " ".join(str(g.size) for g in cands)
    lists = " ".join(rot_line(g) for g in cands)
    return [f"dis reduce3 {flags} {sizes} {len(nrm)} {lists} {m} {ns}"]


def loop_check(ctx, c, outs):
    Gl, Gr = groups()[c["kl"]], groups()[c["kr"]]
    if outs[0].startswith("!err"):
        return f"model loop failed: {outs[0]}"
    p = outs[0].split()
    model = [h2f(x) for x in p[:4]]
    with warnings.catch_warnings():
        warnings.simplefilter("ignore")
        R = mis(Gl, Gr, [c["q"]]).map_into_symmetry_reduced_zone()
    impl = R.data.reshape(4)
    if np.abs(impl - np.array(model)).max() > 1e-12:
        return (f"map_into_symmetry_reduced_zone = {impl.tolist()} but the model loop (first pair whose image is inside "
                f"the same region) gives {model} ({Gl.name}, {Gr.name}; M = {c['q']})")
    return None


# ---- prop ------------------------------------------------------------------------------------
def reduce_check(ctx, c, outs):
    Gl, Gr = groups()[c["kl"]], groups()[c["kr"]]
    q = np.asarray(c["q"], float)
    shape = tuple(c["shape"])
    M = mis(Gl, Gr, q, shape)
    if not region_defined(Gl, Gr):
        try:
            with warnings.catch_warnings():
                warnings.simplefilter("ignore")
                M.map_into_symmetry_reduced_zone()
        except NotImplementedError:
            return None
        return f"no region is defined for ({Gl.name}, {Gr.name}) but the reduction did not raise NotImplementedError"
    with warnings.catch_warnings():
        warnings.simplefilter("ignore")
        R = reduce_call(M, c)
        Reg = region(c["kl"], c["kr"])
        if c.get("verbose"):
            R0 = M.map_into_symmetry_reduced_zone()
            if not np.array_equal(R0.data, R.data):
                return (f"({Gl.name}, {Gr.name}): the reduction with verbose=True returns {R.data.reshape(-1, 4).tolist()} but "
                        f"{R0.data.reshape(-1, 4).tolist()} without the progress bar; M = {q.tolist()}")
    if tuple(R.shape) != shape:
        return f"shape changed from {shape} to {tuple(R.shape)}"
    if R.symmetry[0].name != Gl.name or R.symmetry[1].name != Gr.name:
        return "assigned symmetries changed"
    r = R.data.reshape(-1, 4)
    nrm = Reg.data.reshape(-1, 4)
    for i in range(len(q)):
        orb = orbit(Gl, Gr, q[i])
        d = np.minimum(np.abs(orb - r[i]).max(axis=1), np.abs(orb + r[i]).max(axis=1))
        if d.min() > TOL_Q:
            return (f"result {r[i].tolist()} is not gl*M*gr for proper operations of ({Gl.name}, {Gr.name}); "
                    f"M = {q[i].tolist()}")
        amin = min(angle_of(o) for o in orb)
        if angle_of(r[i]) > amin + TOL_ANG:
            return (f"result has rotation angle {angle_of(r[i])!r} but the orbit of M under ({Gl.name}, {Gr.name}) contains "
                    f"an element of angle {amin!r}; M = {q[i].tolist()}")
        if len(nrm):
            cdots = nrm @ r[i]
            if not ((cdots >= -1e-9).all() or (cdots <= 1e-9).all()):
                return f"result {r[i].tolist()} lies outside the orientation region of ({Gl.name}, {Gr.name})"
    with warnings.catch_warnings():
        warnings.simplefilter("ignore")
        R2 = R.map_into_symmetry_reduced_zone().data.reshape(-1, 4)
    for i in range(len(q)):
        if not same_rot(R2[i], r[i]):
            return f"not idempotent: {r[i].tolist()} -> {R2[i].tolist()} ({Gl.name}, {Gr.name})"
    # all members of one orbit map to the same representative, unless on a region boundary
    pl, pr = proper_ops(Gl), proper_ops(Gr)
    for i in range(len(q)):
        orb = orbit(Gl, Gr, q[i])
        if len(nrm):
            cd = orb @ nrm.T
            if np.min(np.abs(cd)) < MARGIN:
                continue
        gl = pl[c["gl"] % len(pl)]
        gr = pr[c["gr"] % len(pr)]
        e = hmul(hmul(gl, q[i]), gr)
        with warnings.catch_warnings():
            warnings.simplefilter("ignore")
            Re = mis(Gl, Gr, [e]).map_into_symmetry_reduced_zone().data.reshape(4)
        if not same_rot(Re, r[i], 1e-8):
            return (f"two members of one orbit map to different representatives: {q[i].tolist()} -> {r[i].tolist()} but "
                    f"{e.tolist()} -> {Re.tolist()} ({Gl.name}, {Gr.name})")
    return None


def reduce_bulk_check(ctx, c, outs):
    """many seeded misorientations of one pair in ONE call (the cost of the reduction is dominated by its loop over
    operation pairs, not by the number of misorientations): orbit membership and minimal angle, vectorised"""
    Gl, Gr = groups()[c["kl"]], groups()[c["kr"]]
    g = np.random.default_rng(c["bulk"])
    q = g.normal(size=(c["n"], 4))
    q /= np.linalg.norm(q, axis=1)[:, None]
    Hl, Hr = Gl, Gr
    if c.get("perm") is not None:
        # the same two point groups with their operations stored in another order (a Symmetry indexed with a
        # permutation is still that point group): nothing in the property depends on the storage order
        gp = np.random.default_rng(c["perm"])
        Hl, Hr = Gl[gp.permutation(Gl.size)], Gr[gp.permutation(Gr.size)]
    with warnings.catch_warnings():
        warnings.simplefilter("ignore")
        try:
            R = reduce_call(mis(Hl, Hr, q, (c["n"],)), c)
        except NotImplementedError:
            return None if not region_defined(Gl, Gr) else "NotImplementedError although a region is defined"
    r = R.data.reshape(-1, 4)
    pl, pr = proper_ops(Gl), proper_ops(Gr)
    orb = hmul(hmul(pl[None, :, None, :], q[:, None, None, :]), pr[None, None, :, :]).reshape(c["n"], -1, 4)
    best = np.abs(orb[..., 0]).max(axis=1)
    d = np.minimum(np.abs(orb - r[:, None, :]).max(axis=2), np.abs(orb + r[:, None, :]).max(axis=2)).min(axis=1)
    bad = np.flatnonzero(d > TOL_Q)
    if bad.size:
        i = int(bad[0])
        return (f"result {r[i].tolist()} is not gl*M*gr for proper operations of ({Gl.name}, {Gr.name}); M = {q[i].tolist()} "
                f"({bad.size} of {c['n']})")
    ang_r = 2 * np.arccos(np.clip(np.abs(r[:, 0]), 0, 1))
    ang_min = 2 * np.arccos(np.clip(best, 0, 1))
    bad = np.flatnonzero(ang_r > ang_min + TOL_ANG)
    if bad.size:
        i = int(bad[0])
        return (f"result has rotation angle {float(ang_r[i])!r} but the orbit of M under ({Gl.name}, {Gr.name}) contains an "
                f"element of angle {float(ang_min[i])!r}; M = {q[i].tolist()} ({bad.size} of {c['n']} seeded misorientations)")
    return None


REGION_SCRIPT = r"""
import json, sys, warnings
import numpy as np
warnings.simplefilter("ignore")
from orix.quaternion import OrientationRegion
from orix.quaternion import symmetry as S
pairs = json.loads(sys.argv[1])
out = {}
for kl, kr in pairs:
    try:
        out[f"{kl},{kr}"] = OrientationRegion.from_symmetry(S._groups[kl], S._groups[kr]).data.reshape(-1, 4).tolist()
    except NotImplementedError:
        out[f"{kl},{kr}"] = None
print(json.dumps(out))
"""


def region_order_check(ctx, c, outs):
    """the orientation region of a pair of symmetries does not depend on which regions were built before in the same
    process: regions built now (late in this run, after hundreds of other pairs) equal those a fresh interpreter builds
    for the same pairs in reverse order"""
    import json as _json
    import subprocess
    import sys
    from orix.quaternion import OrientationRegion
    gs = groups()
    here = {}
    with warnings.catch_warnings():
        warnings.simplefilter("ignore")
        for kl, kr in c["pairs"]:
            try:
                here[(kl, kr)] = OrientationRegion.from_symmetry(gs[kl], gs[kr]).data.reshape(-1, 4)
            except NotImplementedError:
                here[(kl, kr)] = None
    p = subprocess.run([sys.executable, "-c", REGION_SCRIPT, _json.dumps(c["pairs"][::-1])], capture_output=True, text=True,
                       timeout=1200)
    if p.returncode != 0:
        return f"region script failed: {p.stderr[-300:]}"
    fresh = _json.loads(p.stdout.strip().split("\n")[-1])
    for kl, kr in c["pairs"]:
        a, b = here[(kl, kr)], fresh[f"{kl},{kr}"]
        if (a is None) != (b is None):
            return f"region of ({gs[kl].name}, {gs[kr].name}) is defined in one process and not in the other"
        if a is None:
            continue
        b = np.array(b, float).reshape(-1, 4)
        ok = len(a) == len(b) and all(np.abs(b - x).max(axis=1).min() < 1e-9 for x in a) and \
            all(np.abs(a - x).max(axis=1).min() < 1e-9 for x in b)
        if not ok:
            return (f"the orientation region of ({gs[kl].name}, {gs[kr].name}) built late in this process has {len(a)} bounding "
                    f"planes that differ from the {len(b)} planes a fresh interpreter builds for the same pair")
    return None


def normals_check(ctx, c, outs):
    """every large-cell normal orix builds is a positive multiple of 1 + d or 1 - d for a distinguished point d
    (the hypothesis shape of theorem inside_unpruned_region_in_large_cell)"""
    from orix.quaternion.orientation_region import _get_large_cell_normals, get_proper_groups
    from orix.quaternion.symmetry import get_distinguished_points
    Gl, Gr = groups()[c["kl"]], groups()[c["kr"]]
    with warnings.catch_warnings():
        warnings.simplefilter("ignore")
        s1, s2 = get_proper_groups(Gl, Gr)
        N = _get_large_cell_normals(s1, s2).data.reshape(-1, 4)
    # distinguished points computed independently: Re(gl M gr) = M . conj(gr gl), and conj(gr gl) ranges over the products
    # gl' gr' (groups are closed under inverse), so the large-cell walls are 1 +- e with e in {gl * gr}
    d1, _ = gdata(s1)
    d2, _ = gdata(s2)
    D = hmul(d1[:, None, :], d2[None, :, :]).reshape(-1, 4)
    D = D[np.abs(np.abs(D[:, 0]) - 1) > 1e-9]
    one = np.array([1.0, 0, 0, 0])
    walls = np.concatenate([one + D, one - D, one + (-D), one - (-D)]) if len(D) else np.zeros((0, 4))
    nz = np.linalg.norm(walls, axis=1) > 1e-9
    walls = walls[nz] / np.linalg.norm(walls[nz], axis=1, keepdims=True)
    for n in N:
        u = n / np.linalg.norm(n)
        if not len(walls) or np.abs(walls - u).max(axis=1).min() > 1e-7:
            return (f"large-cell normal {n.tolist()} of ({Gl.name}, {Gr.name}) is not a positive multiple of 1 +- d for any "
                    "distinguished point d")
    return None


SITES = {
    "large_cell_normals": sites.Site("large_cell_normals", "prop", normals_check),
    "loop_model": sites.Site("loop_model", "corr", loop_check, loop_lines),
    "reduce": sites.Site("reduce", "prop", reduce_check),
    "reduce_bulk": sites.Site("reduce_bulk", "prop", reduce_bulk_check),
    "region_order": sites.Site("region_order", "prop", region_order_check),
}
def _inv_improper(case):
    gs = groups()
    Gl, Gr = gs[case["kl"]], gs[case["kr"]]
    a = Gl.contains_inversion and (not Gr.is_proper) and (not Gr.contains_inversion)
    b = Gr.contains_inversion and (not Gl.is_proper) and (not Gl.contains_inversion)
    return bool(a or b)


PREDICATES = {"c05_inversion_improper_pair": _inv_improper}


def boundary_points(rng, kl, kr):
    """misorientations on / within 1e-9 of region faces, edges, vertices"""
    Reg = region(kl, kr)
    out = []
    with warnings.catch_warnings():
        warnings.simplefilter("ignore")
        try:
            V = Reg.vertices().data.reshape(-1, 4)
        except Exception:
            V = np.zeros((0, 4))
    if len(V):
        for _ in range(3):
            w = rng.random(len(V))
            k = rng.integers(1, min(3, len(V)) + 1)
            idx = rng.choice(len(V), k, replace=False)
            v = (w[idx, None] * V[idx]).sum(axis=0) + rng.normal(size=4) * rng.choice([0.0, 1e-9])
            if np.linalg.norm(v) > 1e-6:
                out.append([float(x) for x in v / np.linalg.norm(v)])
    return out


def generate(ctx):
    rng = ctx.rng
    gs = groups()
    nG = len(gs)
    pairs = [(k, 0) for k in range(nG)] + [(0, k) for k in range(nG)] + [(k, k) for k in range(nG)]
    if ctx.tier == "quick":     # two of the three roles per group and run (all three over the seeds)
        drop = rng.integers(3, size=nG)
        pairs = [p for i, p in enumerate(pairs) if drop[i % nG] != i // nG]
    extra = 16 if ctx.tier == "quick" else 120
    for _ in range(extra):
        pairs.append((int(rng.integers(nG)), int(rng.integers(nG))))
    # every ordered pair of crystal systems through representative proper groups: the product sets Gl.Gr and Gr.Gl
    # differ for cubic x trigonal/hexagonal pairs
    names = [g.name for g in gs]
    reps = [names.index(x) for x in ("112", "222", "4", "422", "3", "32", "312", "6", "622", "23", "432")]
    cross = [(a, b) for a in reps for b in reps if a != b]
    if ctx.tier == "quick":
        cub = {names.index("23"), names.index("432")}
        hexa = {names.index(x) for x in ("3", "32", "312", "6", "622")}
        key = [p for p in cross if (p[0] in cub and p[1] in hexa) or (p[1] in cub and p[0] in hexa)]
        rest = [p for p in cross if p not in key]
        idx = rng.choice(len(rest), 8, replace=False)
        # cubic x hexagonal/trigonal: five unordered pairs per run, both orders (one process: order-keyed caches), in bulk
        und = sorted({tuple(sorted(p)) for p in key})
        for i in rng.choice(len(und), 5, replace=False):
            a, b = und[int(i)]
            for kl, kr in ((a, b), (b, a)):
                ctx.count("reduce_bulk/cubic-x-hexagonal", ("rb", kl, kr), nontrivial=True)
                yield "reduce_bulk", {"kl": int(kl), "kr": int(kr), "bulk": int(rng.integers(1 << 31)), "n": 80}
        cross = [rest[i] for i in idx]
    else:
        for kl, kr in cross:
            cub_hex = {gs[kl].system, gs[kr].system} & {"cubic"} and {gs[kl].system, gs[kr].system} & {"trigonal", "hexagonal"}
            if cub_hex:
                ctx.count("reduce_bulk/cubic-x-hexagonal", ("rb", kl, kr), nontrivial=True)
                yield "reduce_bulk", {"kl": int(kl), "kr": int(kr), "bulk": int(rng.integers(1 << 31)), "n": 400}
    # the same groups with their operations stored in another order
    for _ in range(6 if ctx.tier == "quick" else 40):
        kl, kr = int(reps[rng.integers(len(reps))]), int(reps[rng.integers(len(reps))])
        if gs[kl].size * gs[kr].size > 300 and ctx.tier == "quick":
            kr = kl = int(reps[rng.integers(4)])
        ctx.count("reduce_bulk/reordered-operations", ("rbp", kl, kr, _), nontrivial=True)
        yield "reduce_bulk", {"kl": kl, "kr": kr, "bulk": int(rng.integers(1 << 31)), "n": 60, "perm": int(rng.integers(1 << 31))}
    # improper pairs in bulk (region construction goes through get_proper_groups)
    imp = [k for k, g in enumerate(gs) if not g.is_proper]
    for _ in range(8 if ctx.tier == "quick" else 60):
        kl, kr = int(imp[rng.integers(len(imp))]), int(rng.integers(nG))
        if rng.random() < 0.5:
            kl, kr = kr, kl
        if gs[kl].size * gs[kr].size > 300 and ctx.tier == "quick":
            continue
        if _inv_improper({"kl": kl, "kr": kr}):
            continue        # open finding C05-laue-proper-subgroup-operations (reported by site reduce)
        ctx.count("reduce_bulk/improper", ("rbi", kl, kr), nontrivial=True)
        yield "reduce_bulk", {"kl": kl, "kr": kr, "bulk": int(rng.integers(1 << 31)), "n": 60, "verbose": bool(_ % 2)}
    pairs += cross
    per = 1 if ctx.tier == "quick" else 2
    for kl, kr in pairs:
        Gl, Gr = gs[kl], gs[kr]
        if Gl.size * Gr.size > 600 and ctx.tier == "quick":
            continue
        cubic_hex = {Gl.system, Gr.system} & {"cubic"} and {Gl.system, Gr.system} & {"trigonal", "hexagonal"}
        for _ in range(per * (2 if cubic_hex and ctx.tier != 'quick' else 1)):
            shape = [(1,), (2,), (1, 2), (2, 1), (2, 3), (3, 2), (2, 2, 2)][rng.integers(7)]
            n = int(np.prod(shape))
            q = [GQ.unit_quat(rng)[0] for _ in range(n)]
            if region_defined(Gl, Gr):
                bp = boundary_points(rng, kl, kr)
                if bp and rng.random() < 0.5:
                    q[0] = bp[0]
            c = {"kl": kl, "kr": kr, "q": q, "shape": list(shape), "gl": int(rng.integers(48)), "gr": int(rng.integers(48)),
                 "verbose": bool((kl + kr) % 3 == 0 or not (Gl.is_proper and Gr.is_proper) and (kl + 2 * kr) % 2 == 0)}
            ctx.count("reduce/" + ("defined" if region_defined(Gl, Gr) else "undefined") + ("/verbose" if c["verbose"] else ""),
                      ("r", kl, kr, tuple(q[0])),
                      nontrivial=Gl.size * Gr.size > 1)
            yield "reduce", c
            if region_defined(Gl, Gr) and _ == 0:
                ctx.count("large_cell_normals", ("n", kl, kr))
                yield "large_cell_normals", {"kl": kl, "kr": kr}
                ctx.count("loop_model", ("l", kl, kr, tuple(q[0])), nontrivial=Gl.size * Gr.size > 1)
                yield "loop_model", {"kl": kl, "kr": kr, "q": q[0]}
    ctx.sample({"site": "reduce", **c})
    # order independence of the region construction (last: after every other pair of this run)
    rp = [[int(rng.integers(nG)), int(rng.integers(nG))] for _ in range(24 if ctx.tier == "quick" else 120)]
    rp += [[k, k] for k in rng.choice(nG, 6, replace=False).tolist()]
    ctx.count("region_order", ("ro", repr(rp)), nontrivial=True)
    yield "region_order", {"pairs": rp}


def run(ctx, status):
    driver_ok = lean_phase(ctx, status, ["OrixProofs.Properties.C05"])
    if ctx.replay:
        site, case, body = sites.load_replay(ctx.replay)
        if site in SITES:
            sites.run_cases(ctx, SITES, [(site, case)], driver_ok)
    else:
        sites.run_cases(ctx, SITES, generate(ctx), driver_ok)
    return common.finish(
        ctx, "proof", PREDICATES,
        rule="every point group as left symmetry with C1, as right symmetry with C1 (orientations) and paired with itself, "
             "plus seeded random ordered pairs; misorientations from the stratified generator and convex combinations of "
             "region vertices (faces/edges/vertices, exact and within 1e-9); shapes (1,),(2,),(1,2),(2,1); pairs without a "
             "defined region must raise NotImplementedError",
        assumptions=["that the region orix constructs lies in the large cell and meets every orbit is measured against a "
                     "brute-force minimum over the orbit, not proved (reduce_minimal is conditional on it)"])
