"""C06 — all symmetry-aware operations agree on one equivalence relation.
Relational check: the OUTPUT of every symmetry-aware operation (equivalent(), reduced-zone representative, Euler
fundamental-region representative) is fed to every other one (reduced angle, angle to a third orientation, crystal
direction in the fundamental sector, IPF colour)."""
from __future__ import annotations

import warnings

import numpy as np

from .. import common, sites
from ..common import f2h, h2f
from ..gen import quat as GQ
from ..main import lean_phase
from . import c07
from .c04 import brute_dot, groups, rot_line, o_line, ang

TOL_ANG = 5e-6
MARGIN = 1e-6


def representatives(G, q, which):
    """list of (kind, Orientation) for the unit quaternion q with symmetry G"""
    from orix.quaternion import Orientation
    O = Orientation(np.asarray(q, float).reshape(1, 4), symmetry=G)
    out = []
    with warnings.catch_warnings():
        warnings.simplefilter("ignore")
        if which == "equivalent":
            E = O.equivalent()
            R = Orientation(E.data.reshape(-1, 4), symmetry=G)
            R.improper = E.improper.reshape(-1)
            out = R
        elif which == "zone":
            out = O.map_into_symmetry_reduced_zone()
        elif which == "euler":
            eu = O.in_euler_fundamental_region()
            out = Orientation.from_euler(eu, symmetry=G)
    return O, out


def off_boundary(k, role, h):
    G, fs, n, m = c07.sector_data(k, role)
    u = np.einsum("gij,j->gi", m, np.asarray(h, float))
    u = u / np.linalg.norm(u, axis=1, keepdims=True)
    return not len(n) or bool(np.min(np.abs(u @ n.T)) > MARGIN)


def relation_check(ctx, c, outs):
    from orix.plot import IPFColorKeyTSL
    from orix.quaternion import Orientation
    from orix.vector import Vector3d
    G = groups()[c["k"]]
    G3 = groups()[c["k3"]]
    O, R = representatives(G, c["q"], c["rep"])
    O3 = Orientation(np.asarray(c["q3"], float).reshape(1, 4), symmetry=G3)
    v = Vector3d(np.asarray(c["v"], float))
    if c["rep"] == "zone":
        # what the code documents and does: R = O*g for a proper operation g of G (the open finding is that this is not
        # a LEFT equivalent).  Anything else is a different violation and is reported under its own text.
        qo = np.asarray(c["q"], float)
        d, imp = G.data.reshape(-1, 4).astype(float), G.improper.reshape(-1).astype(bool)
        from .c04 import hmul
        cand = hmul(qo[None, :], d[~imp])
        r = R.data.reshape(-1, 4)[0]
        if np.min(np.minimum(np.abs(cand - r).max(axis=1), np.abs(cand + r).max(axis=1))) > 1e-9:
            return (f"{G.name}: the reduced-zone representative {r.tolist()} of O = {c['q']} is not of the form O*g for any "
                    f"proper operation g of the group")
    with warnings.catch_warnings():
        warnings.simplefilter("ignore")
        # (a) zero reduced angle to the orientation itself
        a0 = np.atleast_1d(R.angle_with(O))
        if np.abs(a0).max() > TOL_ANG:
            j = int(np.argmax(np.abs(a0)))
            return (f"{G.name}: the {c['rep']} representative {R.data.reshape(-1, 4)[j].tolist()} of O = {c['q']} has "
                    f"symmetry-reduced angle {float(a0[j])!r} to O (expected 0)")
        # (b) same reduced angle to a third orientation
        ref = float(np.atleast_1d(O.angle_with(O3))[0])
        a3 = np.atleast_1d(R.angle_with(O3))
        if np.abs(a3 - ref).max() > TOL_ANG:
            return (f"{G.name}: reduced angle to a third orientation ({G3.name}, {c['q3']}) is {ref!r} for O but "
                    f"{a3.tolist()} for its {c['rep']} representative")
        # (b') the outer operations (in memory and lazy) and the distance matrix use the same equivalence relation
        if c["rep"] == "equivalent" and c.get("outer"):
            for lazy in (False, True):
                ao = np.asarray(R.angle_with_outer(O3, lazy=lazy, chunk_size=20, progressbar=False)).reshape(-1)
                if ao.shape != a3.shape or np.abs(ao - ref).max() > TOL_ANG:
                    return (f"{G.name}: angle_with_outer(lazy={lazy}) to a third orientation ({G3.name}, {c['q3']}) is "
                            f"{ao.tolist()} for the members of equivalent() but angle_with gives {ref!r} for O")
            if c["k3"] == c["k"]:
                Rp = R[~R.improper.reshape(-1)] if hasattr(R, "improper") else R
                for lazy in (False, True):
                    dm = np.asarray(Rp.get_distance_matrix(lazy=lazy, chunk_size=20, progressbar=False))
                    if np.abs(dm).max() > TOL_ANG:
                        return (f"{G.name}: get_distance_matrix(lazy={lazy}) among the proper members of equivalent() has an "
                                f"entry {float(np.abs(dm).max())!r}, expected 0")
        # (c) same crystal direction in the fundamental sector, same IPF colour
        h0 = (O * v).data.reshape(3)
        hR = (R * v).data.reshape(-1, 3)
        if off_boundary(c["k"], "self", h0):
            s0 = Vector3d(h0).in_fundamental_sector(G).data.reshape(3)
            sR = Vector3d(hR).in_fundamental_sector(G).data.reshape(-1, 3)
            sc = np.linalg.norm(h0)
            if np.abs(sR - s0).max() > 1e-6 * sc:
                return (f"{G.name}: crystal direction of sample direction {c['v']} in the fundamental sector is {s0.tolist()} "
                        f"for O but {sR[int(np.argmax(np.abs(sR - s0).max(axis=1)))].tolist()} for its {c['rep']} representative")
        if off_boundary(c["k"], "laue", h0):
            key = IPFColorKeyTSL(G, direction=v)
            c0 = key.orientation2color(O).reshape(3)
            cR = key.orientation2color(R).reshape(-1, 3)
            if np.abs(cR - c0).max() > 1e-6:
                return (f"{G.name}: IPF colour is {c0.tolist()} for O but {cR[int(np.argmax(np.abs(cR - c0).max(axis=1)))].tolist()} "
                        f"for its {c['rep']} representative (sample direction {c['v']})")
    return None


def subtract_check(ctx, c, outs):
    """O1 - O2 (the misorientation mapped into the reduced zone of the two point groups) has the symmetry-reduced
    angle O1.angle_with(O2), and neither changes when O1 is replaced by an equivalent representative"""
    from orix.quaternion import Orientation
    G = groups()[c["k"]]
    G3 = groups()[c["k3"]]
    O, R = representatives(G, c["q"], c["rep"])
    O3 = Orientation(np.asarray(c["q3"], float).reshape(1, 4), symmetry=G3)
    with warnings.catch_warnings():
        warnings.simplefilter("ignore")
        ref = float(np.atleast_1d(O.angle_with(O3))[0])
        for nm, A, B in (("O - O3", O, O3), ("O3 - O", O3, O)):
            try:
                w = float(np.atleast_1d((A - B).angle)[0])
            except NotImplementedError:
                return None
            if abs(w - ref) > TOL_ANG:
                return (f"({G.name}, {G3.name}): the disorientation angle of {nm} is {w!r} but O.angle_with(O3) is {ref!r} "
                        f"(O = {c['q']}, O3 = {c['q3']})")
        if c.get("bulk"):
            # many pairs at once: interphase pairs whose failure region is a few percent of orientation space
            g = np.random.default_rng(c["bulk"])
            qa = g.normal(size=(c["n"], 4))
            qb = g.normal(size=(c["n"], 4))
            A = Orientation(qa / np.linalg.norm(qa, axis=1)[:, None], symmetry=G)
            B = Orientation(qb / np.linalg.norm(qb, axis=1)[:, None], symmetry=G3)
            refs = A.angle_with(B)
            try:
                ws = (A - B).angle
            except NotImplementedError:
                return None
            bad = np.flatnonzero(np.abs(ws - refs) > TOL_ANG)
            if bad.size:
                j = int(bad[0])
                return (f"({G.name}, {G3.name}): the disorientation angle of O - O3 is {float(ws[j])!r} but O.angle_with(O3) "
                        f"is {float(refs[j])!r} for O = {A.data[j].tolist()}, O3 = {B.data[j].tolist()} "
                        f"({bad.size} of {c['n']} random pairs)")
        wR = np.atleast_1d((R - O3).angle)
        if np.abs(wR - ref).max() > TOL_ANG:
            j = int(np.argmax(np.abs(wR - ref)))
            return (f"({G.name}, {G3.name}): the disorientation angle of R - O3 is {float(wR[j])!r} for the {c['rep']} "
                    f"representative R = {R.data.reshape(-1, 4)[j].tolist()} of O but {ref!r} for O itself")
    return None


def model_lines(c):
    G = groups()[c["k"]]
    return [f"dis brute {G.size} {G.size} {rot_line(G)} {rot_line(G)} {o_line(c['q'])} {o_line(c['q'])}"]


def model_check(ctx, c, outs):
    """model: the reduced dot of O with each member of equivalent() is 1 (theorem equivalent_dot_one), computed by
    the driver on the live group; implementation: angle_with is 0"""
    d = h2f(outs[0])
    if abs(d - 1.0) > 1e-12:
        return f"model bruteDot(O, O) = {d!r} != 1 for group {groups()[c['k']].name} (the live symmetry list is not a group of unit rotations?)"
    return None


SITES = {
    "relation": sites.Site("relation", "prop", relation_check),
    "subtract": sites.Site("subtract", "prop", subtract_check),
    "self_dot_model": sites.Site("self_dot_model", "corr", model_check, model_lines),
}


def _zone(case, what=""):
    return case.get("rep") == "zone" and "is not of the form O*g" not in str(what)


def _sector_labels(case, what=""):
    # only the sector-direction / IPF-colour clauses are explained by the sector findings
    if "fundamental sector" not in str(what) and "IPF colour" not in str(what):
        return False
    bad = set()
    for e in common.load_findings().get("findings", []):
        if e.get("id") in ("C07-sector-not-domain", "C07-numeric-centre-band"):
            bad |= set(e.get("members", []))
    name = groups()[case["k"]].name
    return name in bad or f"laue({name})" in bad


def _euler_gimbal(case):
    q = case.get("q", [1, 0, 0, 0])
    return case.get("rep") == "euler" and (q[0] ** 2 + q[3] ** 2 < 1e-9 or q[1] ** 2 + q[2] ** 2 < 1e-9)


def _euler_312(case, what=""):
    G = groups()[case["k"]]
    return case.get("rep") == "euler" and G.proper_subgroup.name == "312"


def _improper_member_subtract(case, what=""):
    G = groups()[case["k"]]
    return (case.get("rep") == "equivalent" and "equivalent representative" in str(what) and not G.is_proper
            and not G.contains_inversion)


PREDICATES = {"c06_euler_312": _euler_312, "c06_improper_member_subtract": _improper_member_subtract,
              "c06_zone_representative": _zone, "c06_bad_sector": _sector_labels, "c06_euler_gimbal": _euler_gimbal}


def generate(ctx):
    rng = ctx.rng
    gs = groups()
    reps = 3 if ctx.tier == "quick" else 12
    for k, G in enumerate(gs):
        for r in range(reps):
            for rep in ("equivalent", "zone", "euler"):
                q, s = GQ.unit_quat(rng)
                c = {"k": k, "name": G.name, "rep": rep, "q": q, "q3": GQ.unit_quat(rng)[0],
                     "k3": k if r % 2 == 0 else int(rng.integers(len(gs))), "v": GQ.vec(rng), "outer": r < 2}
                ctx.count(f"relation/{rep}/{s}", ("r", k, rep, tuple(q)), nontrivial=G.size > 1)
                yield "relation", c
        for r in range(1 if ctx.tier == "quick" else reps):
            k3 = k if (r + k) % 2 == 0 else int(rng.integers(len(gs)))
            rep = ("equivalent", "zone", "euler")[(r + k) % 3]
            q, s = GQ.unit_quat(rng)
            ctx.count(f"subtract/{rep}/{'same' if k3 == k else 'different'}", ("s", k, k3, tuple(q)), nontrivial=G.size > 1)
            yield "subtract", {"k": k, "k3": k3, "name": G.name, "rep": rep, "q": q, "q3": GQ.unit_quat(rng)[0]}
        ctx.count("self_dot_model", ("m", k))
        yield "self_dot_model", {"k": k, "q": GQ.unit_quat(rng)[0]}
    # interphase pairs from different crystal families (the two product sets Gl.Gr and Gr.Gl differ)
    names = [G.name for G in gs]
    fam = [("432", "622"), ("622", "432"), ("23", "32"), ("32", "23"), ("m-3m", "6/mmm"), ("432", "32"), ("m-3m", "6mm"),
           ("422", "32"), ("-43m", "-6m2"), ("222", "3")]
    if ctx.tier == "quick":
        fam = [fam[i] for i in [0, 2, 3] + [int(x) for x in rng.choice(np.arange(4, len(fam)), 2, replace=False)]] + [fam[1]]
    for a, b in fam:
        if a in names and b in names:
            k, k3 = names.index(a), names.index(b)
            ctx.count("subtract/bulk-interphase", ("sb", k, k3), nontrivial=True)
            yield "subtract", {"k": k, "k3": k3, "name": a, "rep": "equivalent", "q": GQ.unit_quat(rng)[0],
                               "q3": GQ.unit_quat(rng)[0], "bulk": int(rng.integers(1 << 31)),
                               "n": 200 if ctx.tier == "quick" else 3000}
    ctx.sample({"site": "relation", **c})


def run(ctx, status):
    driver_ok = lean_phase(ctx, status, ["OrixProofs.Properties.C06"])
    if ctx.replay:
        site, case, body = sites.load_replay(ctx.replay)
        if site in SITES:
            sites.run_cases(ctx, SITES, [(site, case)], driver_ok)
    else:
        sites.run_cases(ctx, SITES, generate(ctx), driver_ok)
    return common.finish(
        ctx, "proof", PREDICATES,
        rule="all 38 point-group objects x {equivalent() members, reduced-zone representative, Euler fundamental-region "
             "representative} x seeded orientations, third orientations (same and different symmetry) and sample "
             "directions; each representative is fed to angle_with, angle to the third orientation, in_fundamental_sector "
             "and the IPF colour key; non-trivial = group order > 1",
        assumptions=["sector/colour comparisons are made off the sector boundary (margin 1e-6)",
                     "the theorems assume the symmetry list is a group of unit rotations up to sign (C03/C04)"])
