"""C10 — Miller symmetry operations enumerate true orbits."""
from __future__ import annotations

import math
import warnings

import numpy as np

from .. import common, sites
from ..common import f2h, h2f
from ..extract import groups as X
from ..gen import quat as GQ
from ..main import lean_phase
from .c03 import cart_ops

TOL = 1e-8

LATTICES = {"cub": (3.0, 3.0, 3.0, 90, 90, 90), "hex": (3.0, 3.0, 5.0, 90, 90, 120)}


def groups():
    from orix.quaternion import symmetry as S
    return S._groups


_phases = {}


def phase_for(k, basis):
    from diffpy.structure import Lattice, Structure
    from orix.crystal_map import Phase
    if (k, basis) not in _phases:
        with warnings.catch_warnings():
            warnings.simplefilter("ignore")
            _phases[(k, basis)] = Phase(point_group=groups()[k], structure=Structure(lattice=Lattice(*LATTICES[basis])))
    return _phases[(k, basis)]


def basis_of(k):
    G = groups()[k]
    return "cub" if X.lattice_mats(G, X.BASES["cub"]) is not None else "hex"


class _Rows:
    """multiset of rows compared with a tolerance (never by rounding: values can sit on a rounding boundary)"""

    def __init__(self, a):
        self.a = np.asarray(a, float).reshape(-1, 3)

    def __eq__(self, o):
        a, b = self.a, o.a
        if len(a) != len(b):
            return False
        used = np.zeros(len(b), bool)
        for r in a:
            d = np.abs(b - r).max(axis=1)
            d[used] = np.inf
            j = int(np.argmin(d))
            if d[j] > 1e-7:
                return False
            used[j] = True
        return True

    def __ne__(self, o):
        return not self.__eq__(o)


def rows_set(a):
    return _Rows(a)


# ---- corr: model on integer uvw vs Miller ----------------------------------------------------
def sym_lines(c):
    flat = " ".join(str(x) for v in c["uvw"] for x in v)
    return [f"orb sym {c['k']} {c['basis']} {len(c['uvw'])} {flat}", f"orb uniq {c['k']} {c['basis']} {len(c['uvw'])} {flat}"]


def sym_check(ctx, c, outs):
    from orix.vector import Miller
    ph = phase_for(c["k"], c["basis"])
    G = groups()[c["k"]]
    m = Miller(uvw=np.array(c["uvw"], float), phase=ph)
    vec_s, mult_s, idx_s = outs[0].split("|")
    v = [int(x) for x in vec_s.split()]
    model_vecs = [tuple(v[1 + 3 * i:4 + 3 * i]) for i in range(v[0])]
    model_mult = [int(x) for x in mult_s.split()]
    model_idx = [int(x) for x in idx_s.split()]
    with warnings.catch_warnings():
        warnings.simplefilter("ignore")
        s, mult, idx = m.symmetrise(unique=True, return_multiplicity=True, return_index=True)
    got = np.rint(s.uvw).astype(int)
    if np.abs(s.uvw - got).max() > 1e-9:
        return f"{G.name}: symmetrised integer directions are not integer: {s.uvw.tolist()}"
    if [int(x) for x in mult] != model_mult:
        return f"{G.name}: multiplicities {mult.tolist()} but model {model_mult} for uvw {c['uvw']}"
    if [int(x) for x in idx] != model_idx:
        return f"{G.name}: index array {idx.tolist()} but model {model_idx} for uvw {c['uvw']}"
    pos = 0
    for i, l in enumerate(model_mult):
        a = sorted(tuple(int(x) for x in r) for r in got[pos:pos + l])
        b = sorted(model_vecs[pos:pos + l])
        if a != b:
            return f"{G.name}: distinct images of uvw {c['uvw'][i]} are {a} but model {b}"
        pos += l
    # unique(use_symmetry=True): one per orbit; compare the set of orbits represented
    u = [int(x) for x in outs[1].split()]
    model_keep = [tuple(u[1 + 3 * i:4 + 3 * i]) for i in range(u[0])]
    with warnings.catch_warnings():
        warnings.simplefilter("ignore")
        ku = m.unique(use_symmetry=True)
    if ku.size != len(model_keep):
        return (f"{G.name}: unique(use_symmetry=True) keeps {ku.size} vectors {np.rint(ku.uvw).astype(int).tolist()} but the "
                f"inputs {c['uvw']} lie in {len(model_keep)} orbits")
    return None


# ---- prop -----------------------------------------------------------------------------------
def miller(c):
    from orix.vector import Miller
    ph = phase_for(c["k"], c["basis"])
    dt = int if c.get("dtype") == "int" else float     # Python / numpy integers are legitimate input
    kw = {c["fmt"]: common.relayout(np.asarray(c["coords"], dt).reshape(tuple(c["shape"]) + (3,)), c["coords"])}
    return Miller(phase=ph, **kw)


def reuse_check(ctx, c, outs):
    """symmetry queries on ONE object before and after it is edited in place (vectors replaced, point group of the
    phase changed) agree with the same queries on a freshly constructed object in the final state"""
    from orix.vector import Miller
    m0 = miller(c)
    # own copy of the phase: the edits below must not touch the phase objects the other cases share
    m = Miller(xyz=np.array(m0.data, copy=True), phase=m0.phase.deepcopy())
    m.coordinate_format = m0.coordinate_format
    G2 = groups()[c["k2"]]
    with warnings.catch_warnings():
        warnings.simplefilter("ignore")
        _ = m.multiplicity                                   # first use
        _ = m.symmetrise(unique=True)
        new = np.asarray(c["coords2"], float).reshape(tuple(c["shape"]) + (3,))
        ed = c["edit"]
        if ed == "setitem":
            j = c["j"] % m.size
            idx = np.unravel_index(j, m.shape)
            m[idx] = Miller(phase=m.phase, **{c["fmt"]: new[idx].reshape(1, 3)})
        elif ed == "data":
            m.data = Miller(phase=m.phase, **{c["fmt"]: new}).data
        elif ed == "coords":
            setattr(m, c["fmt"] if c["fmt"] != "xyz" else "hkl", new)
        elif ed == "point_group":
            m.phase.point_group = G2
        elif ed == "phase":
            m.phase = phase_for(c["k2"], basis_of(c["k2"])).deepcopy()
        fresh = Miller(xyz=np.array(m.data, copy=True), phase=m.phase.deepcopy())
        fresh.coordinate_format = m.coordinate_format
        a, b = m.multiplicity, fresh.multiplicity
        if np.asarray(a).shape != np.asarray(b).shape or not np.array_equal(a, b):
            return (f"{groups()[c['k']].name}: multiplicity after the in-place edit '{ed}' is {np.asarray(a).tolist()} but a freshly "
                    f"constructed Miller with the same vectors and phase gives {np.asarray(b).tolist()}")
        sa, sb = m.symmetrise(unique=True), fresh.symmetrise(unique=True)
        scale = max(1.0, float(np.abs(fresh.data).max()))
        if sa.size != sb.size or rows_set(sa.data / scale) != rows_set(sb.data / scale):
            return f"symmetrise(unique=True) after the in-place edit '{ed}' differs from that of a freshly constructed object"
    return None


def images_of(G, xyz):
    M = cart_ops(G)
    return np.einsum("gij,nj->ngi", M, np.asarray(xyz, float).reshape(-1, 3))


def distinct_rows(a, tol):
    keep = []
    for r in a:
        if not any(np.abs(r - k).max() <= tol for k in keep):
            keep.append(r)
    return np.array(keep)


def symmetrise_check(ctx, c, outs):
    G = groups()[c["k"]]
    m = miller(c)
    fmt = m.coordinate_format
    flat = m.flatten().data.reshape(-1, 3)  # "input order" is the order of orix's own flatten()
    scale = max(1.0, float(np.abs(flat).max()))
    img = images_of(G, flat)  # (n, g, 3)
    with warnings.catch_warnings():
        warnings.simplefilter("ignore")
        s = m.symmetrise()
        su, mult, idx = m.symmetrise(unique=True, return_multiplicity=True, return_index=True)
        mu = m.multiplicity
        # every combination of the two flags returns the same vectors / multiplicities / indices
        su1 = m.symmetrise(unique=True)
        su2, mult2 = m.symmetrise(unique=True, return_multiplicity=True)
        su3, idx3 = m.symmetrise(unique=True, return_index=True)
        for flags in ({"return_multiplicity": True}, {"return_index": True}):
            try:
                m.symmetrise(unique=False, **flags)
                return f"{G.name}: symmetrise(unique=False, {flags}) is accepted (the flags require unique=True)"
            except ValueError:
                pass
    for other in (su1, su2, su3):
        if not np.array_equal(other.data, su.data):
            return f"{G.name}: symmetrise(unique=True) returns different vectors for different return_* flags"
    if not np.array_equal(mult2, mult) or not np.array_equal(idx3, idx):
        return (f"{G.name}: multiplicities / indices depend on which return_* flags are set: {np.asarray(mult2).tolist()} vs "
                f"{np.asarray(mult).tolist()}, {np.asarray(idx3).tolist()} vs {np.asarray(idx).tolist()}")
    for obj, name in ((s, "symmetrise()"), (su, "symmetrise(unique=True)")):
        if obj.phase is None or obj.phase.point_group.name != G.name or obj.coordinate_format != fmt:
            return f"{G.name}: {name} lost the phase or the coordinate format ({obj.coordinate_format} vs {fmt})"
    if rows_set(s.data / scale) != rows_set(img / scale):
        return f"{G.name}: symmetrise() is not the multiset of images under all {G.size} operations for {flat.tolist()}"
    if mult.shape != (len(flat),) or tuple(mu.shape) != tuple(m.shape):
        return f"{G.name}: multiplicity shapes {mult.shape}, {mu.shape}"
    pos = 0
    sd = su.data.reshape(-1, 3)
    if len(idx) != len(sd):
        return f"{G.name}: index array has {len(idx)} entries for {len(sd)} vectors"
    for i in range(len(flat)):
        d = distinct_rows(img[i], TOL * scale)
        if int(mult[i]) != len(d):
            return (f"{G.name}: multiplicity of {flat[i].tolist()} is {int(mult[i])} but it has {len(d)} distinct images")
        if G.size % int(mult[i]) != 0:
            return f"{G.name}: multiplicity {int(mult[i])} does not divide the group order {G.size}"
        blk = sd[pos:pos + int(mult[i])]
        if rows_set(blk / scale) != rows_set(d / scale):
            return f"{G.name}: the vectors listed for input {i} are not its distinct images"
        if not (idx[pos:pos + int(mult[i])] == i).all():
            return f"{G.name}: index array {idx.tolist()} does not point to input {i} for its block"
        pos += int(mult[i])
    if pos != len(sd):
        return f"{G.name}: {len(sd) - pos} extra vectors returned"
    # the multiplicity property: one value per vector, at the vector's own position
    for pos_nd in np.ndindex(*m.shape):
        d = distinct_rows(images_of(G, m.data[pos_nd].reshape(1, 3))[0], TOL * scale)
        if int(mu[pos_nd]) != len(d):
            return (f"{G.name}: multiplicity[{pos_nd}] = {int(mu[pos_nd])} but the vector at that position, "
                    f"{m.data[pos_nd].tolist()}, has {len(d)} distinct images (shape {tuple(m.shape)})")
    return None


def angle_check(ctx, c, outs):
    G = groups()[c["k"]]
    m = miller(c)
    from orix.vector import Miller
    if "others" in c:
        # several `other` vectors: shapes broadcast as without symmetry; each angle is the minimum over the orbit of the OTHER
        # VECTOR AT THE SAME (broadcast) POSITION
        oshape = tuple(c.get("oshape", c["shape"]))
        o = Miller(phase=m.phase, **{c["fmt"]: np.asarray(c["others"], float).reshape(oshape + (3,))})
    else:
        oshape = (1,)
        o = Miller(phase=m.phase, **{c["fmt"]: np.asarray(c["other"], float).reshape(1, 3)})
    with warnings.catch_warnings():
        warnings.simplefilter("ignore")
        a = m.angle_with(o, use_symmetry=True)
        a_deg = m.angle_with(o, use_symmetry=True, degrees=True)
        plain = m.angle_with(o)
    shp = np.broadcast_shapes(tuple(m.shape), oshape)
    flat = np.broadcast_to(m.data, shp + (3,)).reshape(-1, 3)
    oflat = np.broadcast_to(o.data, shp + (3,)).reshape(-1, 3)
    imgs = images_of(G, oflat)           # (n, g, 3)
    cosv = np.einsum("ni,ngi->ng", flat, imgs) / (np.linalg.norm(flat, axis=1)[:, None] * np.linalg.norm(imgs, axis=2))
    ref = np.arccos(np.clip(cosv, -1, 1)).min(axis=1).reshape(shp)
    if a.shape != tuple(shp):
        return f"angle shape {a.shape} for vectors of shape {tuple(m.shape)} and other vectors of shape {oshape} (broadcast: {tuple(shp)})"
    if np.asarray(plain).shape != tuple(shp):
        return f"plain angle shape {np.asarray(plain).shape} != {tuple(shp)}"
    if np.abs(a - ref).max() > 2e-6:
        if "others" in c:
            allimg = imgs.reshape(-1, 3)
            cu = (flat @ allimg.T) / (np.linalg.norm(flat, axis=1)[:, None] * np.linalg.norm(allimg, axis=1)[None, :])
            union = np.arccos(np.clip(cu, -1, 1)).min(axis=1).reshape(shp)
            how = ("it is the minimum over the orbits of ALL other vectors" if np.abs(a - union).max() <= 2e-6
                   else "it is not the minimum over the orbits of all other vectors either")
            return (f"{G.name}: angle_with(use_symmetry=True) of vectors of shape {tuple(m.shape)} with other vectors of shape {oshape} = "
                    f"{a.tolist()} but the minimum angles over the orbit of the other vector at the same position are {ref.tolist()}; {how} "
                    f"(without symmetry, element-wise: {np.asarray(plain).tolist()}; vectors {m.data.tolist()}, others {o.data.tolist()})")
        return (f"{G.name}: angle_with(use_symmetry=True) = {a.tolist()} but the minimum angle over the other vector's "
                f"orbit is {ref.tolist()} (vectors {flat.tolist()}, other {o.data.tolist()})")
    if np.abs(np.deg2rad(a_deg) - a).max() > 1e-12:
        return "degrees flag does not just rescale"
    return None


def unique_check(ctx, c, outs):
    G = groups()[c["k"]]
    m = miller(c)
    with warnings.catch_warnings():
        warnings.simplefilter("ignore")
        if c.get("via_symmetrise"):
            # the output of one method fed to the other: all distinct images of every input, then one per orbit
            u = m.symmetrise(unique=True).unique(use_symmetry=True)
        else:
            u = m.unique(use_symmetry=True)
    if u.phase is None or u.phase.point_group.name != G.name or u.coordinate_format != m.coordinate_format:
        return f"{G.name}: unique(use_symmetry=True) lost the phase or the coordinate format"
    flat = m.data.reshape(-1, 3)
    flat = flat[np.abs(flat).sum(axis=1) > 0]
    scale = max(1.0, float(np.abs(flat).max())) if len(flat) else 1.0
    ud = u.data.reshape(-1, 3)
    M = cart_ops(G)

    def same_orbit(a, b):
        return bool((np.abs(np.einsum("gij,j->gi", M, a) - b).max(axis=1) <= 1e-7 * scale).any())
    # one per orbit: kept vectors pairwise inequivalent, every input equivalent to a kept one, kept ones are inputs
    for i in range(len(ud)):
        for j in range(i + 1, len(ud)):
            if same_orbit(ud[i], ud[j]):
                return (f"{G.name}: unique(use_symmetry=True) keeps two vectors of one orbit: {ud[i].tolist()}, {ud[j].tolist()} "
                        f"(returned {len(ud)} vectors)")
    for v in flat:
        if not any(same_orbit(k, v) for k in ud):
            return f"{G.name}: unique(use_symmetry=True) dropped the whole orbit of {v.tolist()}"
    for k in ud:
        if c.get("via_symmetrise"):
            if not any(same_orbit(v, k) for v in flat):
                return f"{G.name}: symmetrise(unique=True).unique(use_symmetry=True) returned {k.tolist()}, which is not an image of an input"
        elif not (np.abs(flat - k).max(axis=1) <= 1e-9 * scale).any():
            return f"{G.name}: unique(use_symmetry=True) returned {k.tolist()}, which is not one of the inputs"
    return None


def round_check(ctx, c, outs):
    from orix.vector import Miller
    ph = phase_for(c["k"], c["basis"])
    base = np.asarray(c["ints"], int)
    if c["fmt"] in ("hkil", "UVTW"):
        # four-index formats: third index -(h+k) resp. T = -(U+V); may exceed max_index while the others do not
        b4 = np.column_stack([base[:, 0], base[:, 1], -(base[:, 0] + base[:, 1]), base[:, 2]])
        m = Miller(phase=ph, **{c["fmt"]: b4.astype(float) * np.asarray(c["factors"], float)[:, None]})
        with warnings.catch_warnings():
            warnings.simplefilter("ignore")
            r = m.round(max_index=c["max_index"])
        got = getattr(r, c["fmt"])
        if r.coordinate_format != c["fmt"]:
            return "round lost the coordinate format"
        gi = np.rint(got).astype(int)
        if np.abs(got - gi).max() > 1e-9:
            return f"round returned non-integer indices {got.tolist()}"
        for b, g in zip(b4, gi):
            gg = math.gcd(*[abs(int(x)) for x in b if x != 0] or [1])
            b0 = b // gg
            if not np.array_equal(g, b0):
                return (f"round({c['fmt']} = {b.tolist()} x factor, max_index={c['max_index']}) = {g.tolist()} but the parallel "
                        f"lattice vector with coprime indices is {b0.tolist()}")
        return None
    m = Miller(phase=ph, **{c["fmt"]: base.astype(float) * np.asarray(c["factors"], float)[:, None]})
    with warnings.catch_warnings():
        warnings.simplefilter("ignore")
        r = m.round(max_index=c["max_index"])
    got = getattr(r, c["fmt"])
    if r.coordinate_format != c["fmt"] or r.phase is None:
        return "round lost the coordinate format or the phase"
    gi = np.rint(got).astype(int)
    if np.abs(got - gi).max() > 1e-9:
        return f"round returned non-integer indices {got.tolist()}"
    for b, g in zip(base, gi):
        b0 = b // math.gcd(*[abs(int(x)) for x in b if x != 0] or [1])
        if not (np.array_equal(g, b0)):
            return (f"round({(b * 1.0).tolist()} x factor, max_index={c['max_index']}) = {g.tolist()} but the parallel lattice "
                    f"vector with coprime indices is {b0.tolist()}")
    return None



# ---- corr: `_round_indices` / `Miller.round` vs the model (MillerRound.lean) ---------------------------------------
INT_MIN = -2 ** 63


def _round_input(c):
    """the array handed to `_round_indices` (integer dtype when the case says so)"""
    if c.get("dtype") == "int":
        return np.asarray(c["x"], dtype=np.int64)
    return np.asarray(c["x"], dtype=float)


def roundm_lines(c):
    if c["kind"] == "indices":
        return [f"mround idx {c['max_index']} " + " ".join(f2h(v) for v in row) for row in _round_input(c).astype(float)]
    # kind "miller": the coordinates `Miller.round` reads off the object (they went through the lattice transforms)
    from orix.vector import Miller
    m = Miller(phase=phase_for(c["k"], c["basis"]), **{c["fmt"]: np.asarray(c["x"], float)})
    op = "miller4" if c["fmt"] in ("hkil", "UVTW") else "idx"
    return [f"mround {op} {c['max_index']} " + " ".join(f2h(v) for v in row) for row in m.coordinates.reshape(-1, m.coordinates.shape[-1])]


def _model_ints(o):
    """`<m> | i…` or `i…` -> (m or None, [ints]); `!err tag` -> tag"""
    if o.startswith("!err"):
        return o.split()[1]
    if "|" in o:
        a, b = o.split("|")
        return int(a), [int(t) for t in b.split()]
    return None, [int(t) for t in o.split()]


def _theorem_vs_model(c, mods):
    """the Float run of the model against what the theorems over the reals say (round_recovers_primitive,
    round4_recovers_primitive): measures that floating-point rounding does not change the selected multiplier"""
    for row, e, mod in zip(c["x"], c.get("expect") or [], mods):
        if e is not None and (isinstance(mod, str) or mod[1] != e):
            return (f"model run in Float gives {mod} for {row} (max_index={c['max_index']}) but the theorem over the reals gives {e}: "
                    "floating-point rounding changed the result")
    return None


def roundm_check(ctx, c, outs):
    from orix.vector import Miller
    from orix.vector.miller import _round_indices
    mi = c["max_index"]
    if c["kind"] == "indices":
        x = _round_input(c)
        with warnings.catch_warnings(), np.errstate(all="ignore"):
            warnings.simplefilter("ignore")
            got = _round_indices(x, max_index=mi)
        if got.shape != x.shape or got.dtype.kind != "i":
            return f"_round_indices returned shape {got.shape} dtype {got.dtype} for input of shape {x.shape}"
        for row, g, o in zip(x, got, outs):
            mod = _model_ints(o)
            if mod == "zero":
                continue      # all searched indices zero: numpy divides by zero and returns meaningless integers; no demand
            if isinstance(mod, str):
                return f"model rejects {row.tolist()} with '{mod}' but _round_indices returned {g.tolist()}"
            if [int(t) for t in g] != mod[1]:
                return (f"_round_indices({row.tolist()}, max_index={mi}) = {g.tolist()} but the model gives {mod[1]} "
                        f"(multiplier {mod[0]})")
        return _theorem_vs_model(c, [_model_ints(o) for o in outs])
    m = Miller(phase=phase_for(c["k"], c["basis"]), **{c["fmt"]: np.asarray(c["x"], float)})
    mods = [_model_ints(o) for o in outs]
    try:
        with warnings.catch_warnings(), np.errstate(all="ignore"):
            warnings.simplefilter("ignore")
            r = m.round(max_index=mi)
    except ValueError as e:
        if any(mod == "convention" for mod in mods):
            return None       # the rounded quartet violates h + k + i = 0: the constructor rejects it, and so does the model
        return f"Miller.round raised ValueError ({e}) but the model returns {mods}"
    if any(mod == "convention" for mod in mods):
        return f"the model's rounded quartet violates the four-index convention ({mods}) but Miller.round returned {getattr(r, c['fmt']).tolist()}"
    got = getattr(r, c["fmt"])
    if r.coordinate_format != c["fmt"] or r.phase is None or r.phase.point_group.name != m.phase.point_group.name:
        return "Miller.round lost the coordinate format or the phase"
    got = got.reshape(-1, got.shape[-1])
    gi = np.rint(got).astype(np.int64)
    if np.abs(got - gi).max() > 1e-9:
        return f"Miller.round returned non-integer indices {got.tolist()}"
    for row, g, mod in zip(np.asarray(c["x"], float).reshape(len(gi), -1), gi, mods):
        if mod == "zero":
            continue
        if isinstance(mod, str):
            return f"model rejects {row.tolist()} with '{mod}' but Miller.round returned {g.tolist()}"
        if [int(t) for t in g] != mod[1]:
            return f"Miller({c['fmt']}={row.tolist()}).round(max_index={mi}).{c['fmt']} = {g.tolist()} but the model gives {mod[1]}"
    return _theorem_vs_model(c, mods)


# ---- corr: angle_with(use_symmetry=True) vs the model on the live group's operations ----------------------------------
def _angle_objects(c):
    from orix.vector import Miller
    ph = phase_for(c["k"], c["basis"])
    m = Miller(phase=ph, **{c["fmt"]: np.asarray(c["coords"], float).reshape(-1, 3)})
    o = Miller(phase=ph, **{c["fmt"]: np.asarray(c["other"], float).reshape(1, 3)})
    return ph, m, o


def anglem_lines(c):
    ph, m, o = _angle_objects(c)
    Gm = np.asarray(ph.structure.lattice.metrics, float)       # direct metric tensor: xyz·xyz' = uvw G uvw'
    head = f"mround angle {c['k']} {c['basis']} " + " ".join(f2h(v) for v in Gm.reshape(-1))
    ou = " ".join(f2h(v) for v in o.uvw.reshape(-1))
    return [head + " " + " ".join(f2h(v) for v in row) + " " + ou for row in m.uvw.reshape(-1, 3)]


def anglem_check(ctx, c, outs):
    ph, m, o = _angle_objects(c)
    with warnings.catch_warnings():
        warnings.simplefilter("ignore")
        a = m.angle_with(o, use_symmetry=True)
    if a.shape != (m.size,):
        return f"angle shape {a.shape} for {m.size} vectors"
    for row, ai, out in zip(m.uvw.reshape(-1, 3), a, outs):
        if out.startswith("!err"):
            return f"model: {out}"
        am = h2f(out)
        # both round the cosine to 12 decimals before arccos: they may land on neighbouring grid points (one step 1e-12)
        tol = 1.5e-12
        d = abs(math.cos(ai) - math.cos(am))
        ctx.dev("angle_model: |cos(angle) - cos(model angle)| / tolerance", d / tol)
        if not d <= tol:
            return (f"{groups()[c['k']].name}: angle_with(use_symmetry=True) = {float(ai)!r} but the model (minimum over the images "
                    f"under the live operations) gives {am!r} for uvw {row.tolist()} vs {o.uvw.tolist()}")
    return None


SITES = {
    "symmetrise_model": sites.Site("symmetrise_model", "corr", sym_check, sym_lines),
    "symmetrise": sites.Site("symmetrise", "prop", symmetrise_check),
    "angle_sym": sites.Site("angle_sym", "prop", angle_check),
    "unique_sym": sites.Site("unique_sym", "prop", unique_check),
    "round": sites.Site("round", "prop", round_check),
    "reuse": sites.Site("reuse", "prop", reuse_check),
    "round_model": sites.Site("round_model", "corr", roundm_check, roundm_lines),
    "angle_model": sites.Site("angle_model", "corr", anglem_check, anglem_lines),
}


def round_error_grid(case, what=None):
    """finding C10-round-error-grid: three-index rounding with max_index >= 52 of vectors ALL of whose largest coprime index
    is >= 52 (below that the 1e-7 error grid cannot hide a miss: theorem round_recovers_primitive)"""
    if case.get("fmt") not in ("hkl", "uvw") or int(case.get("max_index", 0)) < 52:
        return False
    for v in case["ints"]:
        g = math.gcd(*[abs(int(t)) for t in v]) or 1
        if max(abs(int(t)) // g for t in v) < 52:
            return False
    return True


def angle_several_others(case, what=None):
    """finding C10-angle-sym-several-others: more than one `other` vector"""
    return "others" in case and len(case["others"]) > 1 and "it is the minimum over the orbits of ALL other vectors" in (what or "")


def _double_rounding_count(case):
    """number of vectors the documented mechanism keeps (independent re-implementation with the live operations as Cartesian
    matrices): rows rounded to 10 decimals and made unique, images of the ROUNDED rows rounded to 10 decimals, each image
    list sorted, unique sorted lists"""
    m = miller(case)
    with warnings.catch_warnings():
        warnings.simplefilter("ignore")
        if case.get("via_symmetrise"):
            m = m.symmetrise(unique=True)
    d = np.round(np.asarray(m.data, float).reshape(-1, 3), 10)
    d = d[np.abs(d).sum(axis=1) > 0]
    d = np.unique(d, axis=0)
    # the images are taken with orix's own rotation of vectors (C02): a value that the first rounding put on the 1e-10 grid is
    # mapped next to a boundary of the second rounding, where the last bit of the product decides
    from orix.vector import Vector3d
    img = np.asarray(m.phase.point_group.outer(Vector3d(d)).data, float)          # (g, n, 3)
    keys = set()
    for i in range(len(d)):
        a = np.round(img[:, i, :], 10) + 0.0
        a = a[np.lexsort(a.T)]
        keys.add(a.tobytes())
    return len(keys)


def unique_sym_double_rounding(case, what=None):
    """finding C10-unique-sym-double-rounding: trigonal / hexagonal groups (operations with irrational Cartesian entries), only
    the failure 'keeps two vectors of one orbit' (a lost orbit or a vector that is not an input is never matched), and only
    when the number of vectors returned is the one the double rounding predicts for this very input"""
    what = what or ""
    if basis_of(case["k"]) != "hex" or "keeps two vectors of one orbit" not in what or "(returned " not in what:
        return False
    n = int(what.split("(returned ")[1].split()[0])
    return n == _double_rounding_count(case)


def unique_sym_double_rounding_model(case, what=None):
    """the same finding seen through the correspondence site `symmetrise_model` (integer uvw input): hexagonal basis, only the
    message about too many kept vectors, and exactly the count the double rounding predicts"""
    what = what or ""
    if case.get("basis") != "hex" or "unique(use_symmetry=True) keeps " not in what or "uvw" not in case:
        return False
    n = int(what.split("unique(use_symmetry=True) keeps ")[1].split()[0])
    c2 = {"k": case["k"], "basis": case["basis"], "fmt": "uvw", "shape": [len(case["uvw"])],
          "coords": [[float(x) for x in v] for v in case["uvw"]]}
    return n > 0 and n == _double_rounding_count(c2)


PREDICATES = {"unique_sym_double_rounding_model": unique_sym_double_rounding_model,
              "unique_sym_double_rounding": unique_sym_double_rounding, "round_error_grid": round_error_grid, "angle_several_others": angle_several_others}


def vectors(rng, G, n):
    """general position, on rotation axes, in mirror planes, parallel pairs, near duplicates at the 1e-10 threshold"""
    M = cart_ops(G)
    out = []
    for i in range(n):
        s = i % 6
        if s == 0:
            v = rng.normal(size=3)
        elif s == 1:
            v = rng.integers(-3, 4, size=3).astype(float)
        elif s == 2:  # on an axis / in a mirror: fixed direction of a random operation
            g = M[rng.integers(len(M))]
            w, vec = np.linalg.eig(g)
            j = int(np.argmin(np.abs(w - 1)))
            v = np.real(vec[:, j]) if abs(w[j] - 1) < 1e-9 else rng.normal(size=3)
        elif s == 3 and out:
            v = np.array(out[-1]) * rng.choice([2.0, -1.0, 0.5])  # parallel pair
        elif s == 4 and out:
            v = np.array(out[-1]) + rng.choice([1e-11, 1e-9]) * rng.normal(size=3)  # near-duplicate around 1e-10
        else:
            v = np.zeros(3)
            v[rng.integers(3)] = 1.0
        if not np.any(np.abs(v) > 1e-12):
            v = np.array([1.0, 2.0, 3.0])
        out.append([float(x) for x in v])
    return out


def orbit_mix(rng, k, basis, n_base, n_img):
    """Cartesian vectors: `n_base` base vectors given by small integer indices (hkl or uvw, converted by orix) or in general
    position, plus `n_img` images of them under operations of the group, shuffled"""
    from orix.vector import Miller
    G = groups()[k]
    M = cart_ops(G)
    ph = phase_for(k, basis)
    base = []
    for i in range(n_base):
        if i % 3 == 2:
            base.append(rng.normal(size=3))
        else:
            w = rng.integers(-3, 4, size=3).astype(float)
            if not w.any():
                w[int(rng.integers(3))] = 1.0
            base.append(np.asarray(Miller(phase=ph, **{["hkl", "uvw"][i % 2]: w.reshape(1, 3)}).data, float).reshape(3))
    out = [b for b in base]
    for _ in range(n_img):
        b = base[int(rng.integers(len(base)))]
        out.append(M[int(rng.integers(len(M)))] @ b)
    order = rng.permutation(len(out))
    return [[float(x) for x in out[j]] for j in order], len(base)


MAX_INDICES = (1, 2, 5, 12, 20, 60)
FACTORS = (0.5, 0.37, 1.0 / 3.0, -2.5, 1e-3, 7.0 / 11.0, 123.456, -0.37)


def primitive(rng, hi, lo=0):
    """random integer triplet with gcd 1 and lo <= max |index| <= hi"""
    while True:
        w = [int(t) for t in rng.integers(-hi, hi + 1, size=3)]
        if lo:
            w[int(rng.integers(3))] = int(rng.choice([-1, 1])) * int(rng.integers(lo, hi + 1))
        if any(w) and math.gcd(*[abs(t) for t in w]) == 1:
            return w


def quartet(v):
    return [v[0], v[1], -(v[0] + v[1]), v[2]]


def times(w, f):
    """the multiple f * w of an integer vector, ONE factor for the whole vector"""
    return [float(t) * float(f) for t in w]


def round_model_cases(rng, reps):
    """(stratum, case) for the `round_model` site: every family for every max_index.  `expect[i]` is what theorem
    round_recovers_primitive / round4_recovers_primitive says about row i (sign(f) * w for the multiple f * w of a coprime w whose
    largest searched index is <= min(max_index, 51)), or None where the theorem does not apply."""
    for mi in MAX_INDICES:
        def expect(w, f):
            s3 = [abs(int(w[0])), abs(int(w[1])), abs(int(w[-1]))]
            if math.gcd(*s3) != 1 or max(s3) > min(mi, 51):
                return None
            return [(1 if f > 0 else -1) * int(t) for t in w]

        def case(items, **kw):
            """items: (w, f) multiples, or a bare row"""
            x, e = [], []
            for it in items:
                if isinstance(it, tuple):
                    w, f = it
                    if kw.get("dtype") == "int":
                        x.append([int(t) * int(f) for t in w])
                    else:
                        x.append(times(w, f))
                    e.append(expect(w, f))
                else:
                    x.append(it)
                    e.append(None)
            return dict({"kind": "indices", "max_index": mi, "x": x, "expect": e}, **kw)

        def reduced(w):
            g = math.gcd(*[abs(t) for t in w])
            return [t // g for t in w]

        for _ in range(reps):
            ws = [primitive(rng, mi) for _ in range(4)]
            yield "int_multiple", case(list(zip(ws, (1, 2, 3, -1))), dtype="int")
            yield "int_multiple", case(list(zip(ws, (1.0, -4.0, 7.0, 12.0))))
            yield "rational_multiple", case([(primitive(rng, mi), float(rng.choice(FACTORS))) for _ in range(6)])
            above = []
            for _ in range(3):
                w = primitive(rng, mi)
                w[int(rng.integers(3))] = int(rng.choice([-1, 1])) * (mi + int(rng.integers(1, 3)))
                above.append((reduced(w), float(rng.choice([1.0, 0.37, -2.0]))))
            yield "index_above_max", case(above)
            yield "real", case([[float(t) for t in rng.normal(size=3) * float(rng.choice([1e-3, 1.0, 50.0]))] for _ in range(4)])
            zs = []
            for _ in range(3):
                w = primitive(rng, mi)
                w[int(rng.integers(3))] = 0
                if not any(w):
                    w[int(rng.integers(3))] = 1
                zs.append((reduced(w), float(rng.choice(FACTORS))))
            zs.append(([0, 1, 0], float(rng.choice([-1.5, 2.0]))))
            yield "with_zeros", case(zs)
            ng = []
            for _ in range(3):
                w = primitive(rng, mi)
                w[0] = -abs(w[0]) if w[0] else -1
                ng.append((reduced(w), abs(float(rng.choice(FACTORS)))))
            yield "negative_leading", case(ng)
            yield "all_equal", case([([1, 1, 1], a) for a in (1.0, -1.0, 0.37, -2.5, float(mi), float(mi + 1), float(rng.normal()))])
            # dyadic indices: all arithmetic exact, equal errors for several multipliers (first minimum decides),
            # products exactly half-way between integers (round-half-to-even decides)
            yield "dyadic_ties", case([[4.0, 3.0, 0.0], [2.0, 1.0, 0.0], [-2.0, 1.0, 1.0], [6.0, 3.0, -9.0], [1.0, 0.5, 0.25],
                                       [-8.0, 3.0, 5.0]] + [[float(t) / 8 for t in rng.integers(-16, 17, size=3)] for _ in range(3)])
            qs = []
            for _ in range(4):
                lo = mi // 2 + 1
                h, kk = int(rng.integers(lo, mi + 1)), int(rng.integers(lo, mi + 1))
                sg = int(rng.choice([-1, 1]))
                qs.append((quartet(reduced([sg * h, sg * kk, int(rng.integers(-mi, mi + 1))])), float(rng.choice(FACTORS))))
            yield "quartet_redundant_above_max", case(qs)
            yield "quartet", case([(quartet(primitive(rng, mi)), float(rng.choice(FACTORS))) for _ in range(3)])
            yield "quartet", case([(quartet(primitive(rng, mi)), 1)], dtype="int")
            qr = []
            for _ in range(3):
                h, kk, l = (float(t) for t in rng.normal(size=3))
                qr.append([h, kk, -(h + kk), l])
            qr += [[0.3, 0.3, -0.6, 1.0], [0.35, 0.35, -0.7, 1.0]]
            yield "quartet_real", case(qr)
            yield "zero_vector", case([[0.0, 0.0, 0.0], [1.0, 0.0, 0.0]])
            yield "zero_vector", case([[0.0, 0.0, 3.0, 0.0], [0.0, 0.0, 0.0, 1.0]])
            if mi == 60:
                # largest index 52 … 60: where the 1e-7 error grid can hide a miss (finding C10-round-error-grid): the
                # model must make the same choice; 40 … 51: must still come back
                big = []
                for _ in range(3):
                    M = int(rng.integers(52, 61))
                    w = [[M, M, M - 1], [0, M, M - 1], [M - 1, -M, M], [M, 1 - M, 0]][int(rng.integers(4))]
                    big.append((w, float(rng.choice([1.0, 0.37, -2.5]))))
                big += [(primitive(rng, 60, lo=40), float(rng.choice(FACTORS))) for _ in range(3)]
                big += [([51, 51, 50], 0.37), ([0, -51, 50], -2.5)]
                yield "largest_index_40_60", case(big)
            # through the Miller object (coordinates go through the lattice transforms; four-index formats are rebuilt)
            for fmt in ("hkl", "uvw", "hkil", "UVTW"):
                four = fmt in ("hkil", "UVTW")
                basis = "hex" if four or rng.integers(2) else "cub"
                ks = [k for k in range(len(groups())) if basis_of(k) == basis]
                k = int(ks[int(rng.integers(len(ks)))])
                rows = []
                for j in range(3):
                    w = primitive(rng, mi)
                    rows.append((quartet(w) if four else w, float(rng.choice(FACTORS)) if j else 1.0))
                if four:
                    h, kk, l = (float(t) for t in rng.normal(size=3))
                    real = [[h, kk, -(h + kk), l]]
                else:
                    real = [[float(t) for t in rng.normal(size=3)]]
                yield f"miller/{fmt}", case(rows, kind="miller", k=k, basis=basis, fmt=fmt)
                yield f"miller_real/{fmt}", case(real, kind="miller", k=k, basis=basis, fmt=fmt)


def generate(ctx):
    rng = ctx.rng
    gs = groups()
    reps = 1 if ctx.tier == "quick" else 6
    for k, G in enumerate(gs):
        b = basis_of(k)
        for r in range(reps):
            uvw = [[int(x) for x in rng.integers(-3, 4, size=3)] for _ in range(int(rng.integers(1, 5)))]
            uvw = [v if any(v) else [1, 0, 0] for v in uvw]
            ctx.count("symmetrise_model", ("sm", k, tuple(map(tuple, uvw))), nontrivial=G.size > 1)
            yield "symmetrise_model", {"k": k, "basis": b, "uvw": uvw}
            shape = [(1,), (3,), (2, 2), (1, 2)][rng.integers(4)]
            n = int(np.prod(shape))
            fmt = ["hkl", "uvw", "xyz"][rng.integers(3)]
            coords = vectors(rng, G, n)
            c = {"k": k, "basis": b, "fmt": fmt, "shape": list(shape), "coords": coords}
            ctx.count(f"symmetrise/{fmt}", ("s", k, fmt, tuple(coords[0])), nontrivial=G.size > 1)
            yield "symmetrise", c
            # integer input arrays (vectors given as Python ints)
            ci = {"k": k, "basis": b, "fmt": ["xyz", "hkl", "uvw"][(k + r) % 3], "shape": [2], "dtype": "int",
                  "coords": [[int(x) for x in rng.integers(-3, 4, size=3)] for _ in range(2)]}
            ci["coords"] = [v if any(v) else [1, 2, 0] for v in ci["coords"]]
            ctx.count(f"symmetrise/int/{ci['fmt']}", ("si", k, tuple(map(tuple, ci["coords"]))), nontrivial=G.size > 1)
            yield "symmetrise", ci
            ed = ["setitem", "data", "coords", "point_group", "phase"][(k + r) % 5]
            k2 = int(rng.integers(len(gs)))
            if ed in ("point_group", "phase") and basis_of(k2) != b:
                k2 = k
            cr = dict(c, coords2=vectors(rng, G, n), edit=ed, j=int(rng.integers(16)), k2=k2)
            ctx.count(f"reuse/{ed}", ("ru", k, ed, tuple(coords[0])), nontrivial=G.size > 1)
            yield "reuse", cr
            ctx.count("unique_sym", ("u", k, tuple(coords[0])), nontrivial=G.size > 1)
            yield "unique_sym", dict(c)
            # several members of one orbit in the input; the orbit list of symmetrise fed to unique
            om, nb = orbit_mix(rng, k, b, 2 + r % 2, 4)
            cu = {"k": k, "basis": b, "fmt": "xyz", "shape": [len(om)], "coords": om}
            ctx.count("unique_sym/orbit_members", ("uo", k, tuple(om[0])), nontrivial=G.size > 1)
            yield "unique_sym", cu
            cv = {"k": k, "basis": b, "fmt": ["hkl", "uvw"][r % 2], "shape": [2], "via_symmetrise": True,
                  "coords": [[float(x) for x in rng.integers(-3, 4, size=3)] for _ in range(2)]}
            cv["coords"] = [v if any(v) else [1.0, 0.0, 2.0] for v in cv["coords"]]
            ctx.count("unique_sym/after_symmetrise", ("uv", k, tuple(cv["coords"][0])), nontrivial=G.size > 1)
            yield "unique_sym", cv
            ctx.count("angle_sym", ("a", k, tuple(coords[0])), nontrivial=G.size > 1)
            yield "angle_sym", dict(c, other=vectors(rng, G, 1)[0])
            ints = [[int(x) for x in rng.integers(-4, 5, size=3)] for _ in range(2)]
            ints = [v if any(v) else [1, 1, 0] for v in ints]
            ctx.count("round", ("r", k, tuple(map(tuple, ints))))
            yield "round", {"k": k, "basis": b, "fmt": ["hkl", "uvw"][r % 2], "ints": ints,
                            "factors": [float(rng.choice([1.0, 0.5, 2.0, 0.25, 3.0])) for _ in ints], "max_index": 20}
            if b == "hex":
                # Miller-Bravais indices whose redundant index is the largest and exceeds max_index
                mi = int(rng.choice([5, 8, 20]))
                h4 = []
                for _ in range(2):
                    h, kk = int(rng.integers(mi // 2 + 1, mi + 1)), int(rng.integers(mi // 2 + 1, mi + 1))
                    l = int(rng.integers(0, 3))
                    sgn = int(rng.choice([-1, 1]))
                    v4 = [sgn * h, sgn * kk, l]
                    g = math.gcd(*[abs(x) for x in v4 if x] or [1])
                    h4.append([x // g for x in v4])
                ctx.count("round/four_index", ("r4", k, tuple(map(tuple, h4)), mi))
                yield "round", {"k": k, "basis": b, "fmt": ["hkil", "UVTW"][r % 2], "ints": h4,
                                "factors": [float(rng.choice([0.37, 0.5, 1.0, 2.0])) for _ in h4], "max_index": mi}
    # Miller.round with max_index = 60: largest index up to 51 (must come back: round_recovers_primitive) and 52 … 60 in the
    # shape (M, M, M-1) / (0, M, M-1), where multiplier M-1 has an error below half a step of the 1e-7 grid (known finding)
    names = [g.name for g in gs]
    for r in range(2 * reps):
        Ms, Mb = int(rng.integers(30, 52)), int(rng.integers(52, 61))
        safe = [[Ms, Ms, Ms - 1], [0, -Ms, Ms - 1], primitive(rng, 51, lo=30)][r % 3]
        big = [[Mb, Mb, Mb - 1], [0, -Mb, Mb - 1], [Mb - 1, Mb, -Mb]][r % 3]
        kk = names.index(["m-3m", "6/mmm"][r % 2])
        for stratum, w in (("round/max_index_60/largest_index_le_51", safe), ("round/max_index_60/largest_index_52_60", big)):
            ctx.count(stratum, ("r60", tuple(w), r))
            yield "round", {"k": kk, "basis": basis_of(kk), "fmt": ["hkl", "uvw"][(r // 2) % 2], "ints": [w],
                            "factors": [float(rng.choice([1.0, 0.37, 2.0]))], "max_index": 60}
    # angle_with(use_symmetry=True) with as many other vectors as vectors (element-wise, like the plain angle)
    for r in range(2 * reps):
        kk = int(rng.integers(len(gs)))
        shape = [(2,), (3,), (2, 2)][r % 3]
        n = int(np.prod(shape))
        co = {"k": kk, "basis": basis_of(kk), "fmt": ["hkl", "uvw", "xyz"][r % 3], "shape": list(shape),
              "coords": vectors(rng, gs[kk], n), "others": vectors(rng, gs[kk], n)}
        ctx.count("angle_sym/several_others", ("ao", kk, tuple(co["coords"][0]), tuple(co["others"][0])))
        yield "angle_sym", co
        # shapes that broadcast: (2, 1) with (3,), (3,) with (2, 3), (2, 2) with (2, 1)
        shape, oshape = [((2, 1), (3,)), ((3,), (2, 3)), ((2, 2), (2, 1))][r % 3]
        cb = {"k": kk, "basis": basis_of(kk), "fmt": ["uvw", "xyz", "hkl"][r % 3], "shape": list(shape), "oshape": list(oshape),
              "coords": vectors(rng, gs[kk], int(np.prod(shape))), "others": vectors(rng, gs[kk], int(np.prod(oshape)))}
        ctx.count("angle_sym/several_others_broadcast", ("aob", kk, tuple(cb["coords"][0]), tuple(cb["others"][0])))
        yield "angle_sym", cb
    for stratum, cm in round_model_cases(rng, 2 if ctx.tier == "quick" else 10):
        ctx.count(f"round_model/{stratum}", ("rm", stratum, cm["max_index"], repr(cm["x"])), nontrivial=stratum != "zero_vector")
        yield "round_model", cm
    for k, G in enumerate(gs):
        b = basis_of(k)
        for r in range(reps):
            fmt = ["hkl", "uvw", "xyz"][(k + r) % 3]
            ca = {"k": k, "basis": b, "fmt": fmt, "coords": vectors(rng, G, 3), "other": vectors(rng, G, 1)[0]}
            ctx.count(f"angle_model/{fmt}", ("am", k, fmt, tuple(ca["coords"][0]), tuple(ca["other"])), nontrivial=G.size > 1)
            yield "angle_model", ca
    ctx.sample({"site": "symmetrise", **c})


def run(ctx, status):
    driver_ok = lean_phase(ctx, status, ["OrixProofs.Properties.C10", "OrixProofs.Lemmas.MillerRound",
                                         "OrixProofs.Lemmas.MillerRoundPrim", "OrixProofs.Lemmas.MillerAngle"])
    if ctx.replay:
        site, case, body = sites.load_replay(ctx.replay)
        if site in SITES:
            sites.run_cases(ctx, SITES, [(site, case)], driver_ok)
    else:
        sites.run_cases(ctx, SITES, generate(ctx), driver_ok)
    return common.finish(
        ctx, "proof", PREDICATES,
        rule="all 38 point-group objects with a cubic-metric or hexagonal lattice; integer direct-lattice indices for the "
             "exact model comparison; real vectors in general position, on rotation axes / in mirror planes (eigenvectors of "
             "operations), parallel pairs, near-duplicates at 1e-11 and 1e-9, in hkl/uvw/xyz and several shapes; non-trivial "
             "= group order > 1",
        assumptions=["the 1e-10 rounding of near-duplicates (Object3d.unique; also applied to the images angle_with(use_symmetry=True) "
                     "takes its minimum over) is compared, not proved",
                     "Miller.round / angle_with(use_symmetry=True): the theorems are about the model over the reals (MillerRound.lean: "
                     "np.round = ties-to-even rint, np.argmin = first minimum, np.max, np.min by contract); floating-point rounding is "
                     "compared exactly (integer results ==) on seeded inputs, not proved",
                     "round_recovers_primitive needs largest index <= 51 (3*50^2*51^2 < 2e7); above that the code misses "
                     "(finding C10-round-error-grid, proved counter-example round_misses_primitive_52)",
                     "the theorems use the regenerated point-group tables (C03)"])
