"""C10 — Miller symmetry operations enumerate true orbits."""
from __future__ import annotations

import math
import warnings

import numpy as np

from .. import common, sites
from ..extract import groups as X
from ..gen import quat as GQ
from ..main import lean_phase
from .c03 import cart_ops

TOL = 1e-8

LATTICES = {"cub": (3.0, 3.0, 3.0, 90, 90, 90), "hex": (3.0, 3.0, 5.0, 90, 90, 120)}


def groups():
    from orix.quaternion import symmetry as S
    return S._groups


_phases = {}


def phase_for(k, basis):
    from diffpy.structure import Lattice, Structure
    from orix.crystal_map import Phase
    if (k, basis) not in _phases:
        with warnings.catch_warnings():
            warnings.simplefilter("ignore")
            _phases[(k, basis)] = Phase(point_group=groups()[k], structure=Structure(lattice=Lattice(*LATTICES[basis])))
    return _phases[(k, basis)]


def basis_of(k):
    G = groups()[k]
    return "cub" if X.lattice_mats(G, X.BASES["cub"]) is not None else "hex"


class _Rows:
    """multiset of rows compared with a tolerance (never by rounding: values can sit on a rounding boundary)"""

    def __init__(self, a):
        self.a = np.asarray(a, float).reshape(-1, 3)

    def __eq__(self, o):
        a, b = self.a, o.a
        if len(a) != len(b):
            return False
        used = np.zeros(len(b), bool)
        for r in a:
            d = np.abs(b - r).max(axis=1)
            d[used] = np.inf
            j = int(np.argmin(d))
            if d[j] > 1e-7:
                return False
            used[j] = True
        return True

    def __ne__(self, o):
        return not self.__eq__(o)


def rows_set(a):
    return _Rows(a)


# ---- corr: model on integer uvw vs Miller ----------------------------------------------------
def sym_lines(c):
    flat = " ".join(str(x) for v in c["uvw"] for x in v)
    return [f"orb sym {c['k']} {c['basis']} {len(c['uvw'])} {flat}", f"orb uniq {c['k']} {c['basis']} {len(c['uvw'])} {flat}"]


def sym_check(ctx, c, outs):
    from orix.vector import Miller
    ph = phase_for(c["k"], c["basis"])
    G = groups()[c["k"]]
    m = Miller(uvw=np.array(c["uvw"], float), phase=ph)
    vec_s, mult_s, idx_s = outs[0].split("|")
    v = [int(x) for x in vec_s.split()]
    model_vecs = [tuple(v[1 + 3 * i:4 + 3 * i]) for i in range(v[0])]
    model_mult = [int(x) for x in mult_s.split()]
    model_idx = [int(x) for x in idx_s.split()]
    with warnings.catch_warnings():
        warnings.simplefilter("ignore")
        s, mult, idx = m.symmetrise(unique=True, return_multiplicity=True, return_index=True)
    got = np.rint(s.uvw).astype(int)
    if np.abs(s.uvw - got).max() > 1e-9:
        return f"{G.name}: symmetrised integer directions are not integer: {s.uvw.tolist()}"
    if [int(x) for x in mult] != model_mult:
        return f"{G.name}: multiplicities {mult.tolist()} but model {model_mult} for uvw {c['uvw']}"
    if [int(x) for x in idx] != model_idx:
        return f"{G.name}: index array {idx.tolist()} but model {model_idx} for uvw {c['uvw']}"
    pos = 0
    for i, l in enumerate(model_mult):
        a = sorted(tuple(int(x) for x in r) for r in got[pos:pos + l])
        b = sorted(model_vecs[pos:pos + l])
        if a != b:
            return f"{G.name}: distinct images of uvw {c['uvw'][i]} are {a} but model {b}"
        pos += l
    # unique(use_symmetry=True): one per orbit; compare the set of orbits represented
    u = [int(x) for x in outs[1].split()]
    model_keep = [tuple(u[1 + 3 * i:4 + 3 * i]) for i in range(u[0])]
    with warnings.catch_warnings():
        warnings.simplefilter("ignore")
        ku = m.unique(use_symmetry=True)
    if ku.size != len(model_keep):
        return (f"{G.name}: unique(use_symmetry=True) keeps {ku.size} vectors {np.rint(ku.uvw).astype(int).tolist()} but the "
                f"inputs {c['uvw']} lie in {len(model_keep)} orbits")
    return None


# ---- prop -----------------------------------------------------------------------------------
def miller(c):
    from orix.vector import Miller
    ph = phase_for(c["k"], c["basis"])
    dt = int if c.get("dtype") == "int" else float     # Python / numpy integers are legitimate input
    kw = {c["fmt"]: np.asarray(c["coords"], dt).reshape(tuple(c["shape"]) + (3,))}
    return Miller(phase=ph, **kw)


def reuse_check(ctx, c, outs):
    """symmetry queries on ONE object before and after it is edited in place (vectors replaced, point group of the
    phase changed) agree with the same queries on a freshly constructed object in the final state"""
    from orix.vector import Miller
    m0 = miller(c)
    # own copy of the phase: the edits below must not touch the phase objects the other cases share
    m = Miller(xyz=np.array(m0.data, copy=True), phase=m0.phase.deepcopy())
    m.coordinate_format = m0.coordinate_format
    G2 = groups()[c["k2"]]
    with warnings.catch_warnings():
        warnings.simplefilter("ignore")
        _ = m.multiplicity                                   # first use
        _ = m.symmetrise(unique=True)
        new = np.asarray(c["coords2"], float).reshape(tuple(c["shape"]) + (3,))
        ed = c["edit"]
        if ed == "setitem":
            j = c["j"] % m.size
            idx = np.unravel_index(j, m.shape)
            m[idx] = Miller(phase=m.phase, **{c["fmt"]: new[idx].reshape(1, 3)})
        elif ed == "data":
            m.data = Miller(phase=m.phase, **{c["fmt"]: new}).data
        elif ed == "coords":
            setattr(m, c["fmt"] if c["fmt"] != "xyz" else "hkl", new)
        elif ed == "point_group":
            m.phase.point_group = G2
        elif ed == "phase":
            m.phase = phase_for(c["k2"], basis_of(c["k2"])).deepcopy()
        fresh = Miller(xyz=np.array(m.data, copy=True), phase=m.phase.deepcopy())
        fresh.coordinate_format = m.coordinate_format
        a, b = m.multiplicity, fresh.multiplicity
        if np.asarray(a).shape != np.asarray(b).shape or not np.array_equal(a, b):
            return (f"{groups()[c['k']].name}: multiplicity after the in-place edit '{ed}' is {np.asarray(a).tolist()} but a freshly "
                    f"constructed Miller with the same vectors and phase gives {np.asarray(b).tolist()}")
        sa, sb = m.symmetrise(unique=True), fresh.symmetrise(unique=True)
        scale = max(1.0, float(np.abs(fresh.data).max()))
        if sa.size != sb.size or rows_set(sa.data / scale) != rows_set(sb.data / scale):
            return f"symmetrise(unique=True) after the in-place edit '{ed}' differs from that of a freshly constructed object"
    return None


def images_of(G, xyz):
    M = cart_ops(G)
    return np.einsum("gij,nj->ngi", M, np.asarray(xyz, float).reshape(-1, 3))


def distinct_rows(a, tol):
    keep = []
    for r in a:
        if not any(np.abs(r - k).max() <= tol for k in keep):
            keep.append(r)
    return np.array(keep)


def symmetrise_check(ctx, c, outs):
    G = groups()[c["k"]]
    m = miller(c)
    fmt = m.coordinate_format
    flat = m.flatten().data.reshape(-1, 3)  # "input order" is the order of orix's own flatten()
    scale = max(1.0, float(np.abs(flat).max()))
    img = images_of(G, flat)  # (n, g, 3)
    with warnings.catch_warnings():
        warnings.simplefilter("ignore")
        s = m.symmetrise()
        su, mult, idx = m.symmetrise(unique=True, return_multiplicity=True, return_index=True)
        mu = m.multiplicity
    for obj, name in ((s, "symmetrise()"), (su, "symmetrise(unique=True)")):
        if obj.phase is None or obj.phase.point_group.name != G.name or obj.coordinate_format != fmt:
            return f"{G.name}: {name} lost the phase or the coordinate format ({obj.coordinate_format} vs {fmt})"
    if rows_set(s.data / scale) != rows_set(img / scale):
        return f"{G.name}: symmetrise() is not the multiset of images under all {G.size} operations for {flat.tolist()}"
    if mult.shape != (len(flat),) or tuple(mu.shape) != tuple(m.shape):
        return f"{G.name}: multiplicity shapes {mult.shape}, {mu.shape}"
    pos = 0
    sd = su.data.reshape(-1, 3)
    if len(idx) != len(sd):
        return f"{G.name}: index array has {len(idx)} entries for {len(sd)} vectors"
    for i in range(len(flat)):
        d = distinct_rows(img[i], TOL * scale)
        if int(mult[i]) != len(d):
            return (f"{G.name}: multiplicity of {flat[i].tolist()} is {int(mult[i])} but it has {len(d)} distinct images")
        if G.size % int(mult[i]) != 0:
            return f"{G.name}: multiplicity {int(mult[i])} does not divide the group order {G.size}"
        blk = sd[pos:pos + int(mult[i])]
        if rows_set(blk / scale) != rows_set(d / scale):
            return f"{G.name}: the vectors listed for input {i} are not its distinct images"
        if not (idx[pos:pos + int(mult[i])] == i).all():
            return f"{G.name}: index array {idx.tolist()} does not point to input {i} for its block"
        pos += int(mult[i])
    if pos != len(sd):
        return f"{G.name}: {len(sd) - pos} extra vectors returned"
    # the multiplicity property: one value per vector, at the vector's own position
    for pos_nd in np.ndindex(*m.shape):
        d = distinct_rows(images_of(G, m.data[pos_nd].reshape(1, 3))[0], TOL * scale)
        if int(mu[pos_nd]) != len(d):
            return (f"{G.name}: multiplicity[{pos_nd}] = {int(mu[pos_nd])} but the vector at that position, "
                    f"{m.data[pos_nd].tolist()}, has {len(d)} distinct images (shape {tuple(m.shape)})")
    return None


def angle_check(ctx, c, outs):
    G = groups()[c["k"]]
    m = miller(c)
    from orix.vector import Miller
    o = Miller(phase=m.phase, **{c["fmt"]: np.asarray(c["other"], float).reshape(1, 3)})
    with warnings.catch_warnings():
        warnings.simplefilter("ignore")
        a = m.angle_with(o, use_symmetry=True)
        a_deg = m.angle_with(o, use_symmetry=True, degrees=True)
    flat = m.data.reshape(-1, 3)
    img = images_of(G, o.data.reshape(-1, 3))[0]
    cosv = (flat @ img.T) / (np.linalg.norm(flat, axis=1)[:, None] * np.linalg.norm(img, axis=1)[None, :])
    ref = np.arccos(np.clip(cosv, -1, 1)).min(axis=1).reshape(m.shape)
    if a.shape != tuple(m.shape):
        return f"angle shape {a.shape} for vectors of shape {tuple(m.shape)}"
    if np.abs(a - ref).max() > 2e-6:
        return (f"{G.name}: angle_with(use_symmetry=True) = {a.tolist()} but the minimum angle over the other vector's "
                f"orbit is {ref.tolist()} (vectors {flat.tolist()}, other {o.data.tolist()})")
    if np.abs(np.deg2rad(a_deg) - a).max() > 1e-12:
        return "degrees flag does not just rescale"
    return None


def unique_check(ctx, c, outs):
    G = groups()[c["k"]]
    m = miller(c)
    with warnings.catch_warnings():
        warnings.simplefilter("ignore")
        u = m.unique(use_symmetry=True)
    if u.phase is None or u.phase.point_group.name != G.name or u.coordinate_format != m.coordinate_format:
        return f"{G.name}: unique(use_symmetry=True) lost the phase or the coordinate format"
    flat = m.data.reshape(-1, 3)
    flat = flat[np.abs(flat).sum(axis=1) > 0]
    scale = max(1.0, float(np.abs(flat).max())) if len(flat) else 1.0
    ud = u.data.reshape(-1, 3)
    M = cart_ops(G)

    def same_orbit(a, b):
        return bool((np.abs(np.einsum("gij,j->gi", M, a) - b).max(axis=1) <= 1e-7 * scale).any())
    # one per orbit: kept vectors pairwise inequivalent, every input equivalent to a kept one, kept ones are inputs
    for i in range(len(ud)):
        for j in range(i + 1, len(ud)):
            if same_orbit(ud[i], ud[j]):
                return f"{G.name}: unique(use_symmetry=True) keeps two vectors of one orbit: {ud[i].tolist()}, {ud[j].tolist()}"
    for v in flat:
        if not any(same_orbit(k, v) for k in ud):
            return f"{G.name}: unique(use_symmetry=True) dropped the whole orbit of {v.tolist()}"
    for k in ud:
        if not (np.abs(flat - k).max(axis=1) <= 1e-9 * scale).any():
            return f"{G.name}: unique(use_symmetry=True) returned {k.tolist()}, which is not one of the inputs"
    return None


def round_check(ctx, c, outs):
    from orix.vector import Miller
    ph = phase_for(c["k"], c["basis"])
    base = np.asarray(c["ints"], int)
    if c["fmt"] in ("hkil", "UVTW"):
        # four-index formats: third index -(h+k) resp. T = -(U+V); may exceed max_index while the others do not
        b4 = np.column_stack([base[:, 0], base[:, 1], -(base[:, 0] + base[:, 1]), base[:, 2]])
        m = Miller(phase=ph, **{c["fmt"]: b4.astype(float) * np.asarray(c["factors"], float)[:, None]})
        with warnings.catch_warnings():
            warnings.simplefilter("ignore")
            r = m.round(max_index=c["max_index"])
        got = getattr(r, c["fmt"])
        if r.coordinate_format != c["fmt"]:
            return "round lost the coordinate format"
        gi = np.rint(got).astype(int)
        if np.abs(got - gi).max() > 1e-9:
            return f"round returned non-integer indices {got.tolist()}"
        for b, g in zip(b4, gi):
            gg = math.gcd(*[abs(int(x)) for x in b if x != 0] or [1])
            b0 = b // gg
            if not np.array_equal(g, b0):
                return (f"round({c['fmt']} = {b.tolist()} x factor, max_index={c['max_index']}) = {g.tolist()} but the parallel "
                        f"lattice vector with coprime indices is {b0.tolist()}")
        return None
    m = Miller(phase=ph, **{c["fmt"]: base.astype(float) * np.asarray(c["factors"], float)[:, None]})
    with warnings.catch_warnings():
        warnings.simplefilter("ignore")
        r = m.round(max_index=c["max_index"])
    got = getattr(r, c["fmt"])
    if r.coordinate_format != c["fmt"] or r.phase is None:
        return "round lost the coordinate format or the phase"
    gi = np.rint(got).astype(int)
    if np.abs(got - gi).max() > 1e-9:
        return f"round returned non-integer indices {got.tolist()}"
    for b, g in zip(base, gi):
        b0 = b // math.gcd(*[abs(int(x)) for x in b if x != 0] or [1])
        if not (np.array_equal(g, b0)):
            return (f"round({(b * 1.0).tolist()} x factor, max_index={c['max_index']}) = {g.tolist()} but the parallel lattice "
                    f"vector with coprime indices is {b0.tolist()}")
    return None


SITES = {
    "symmetrise_model": sites.Site("symmetrise_model", "corr", sym_check, sym_lines),
    "symmetrise": sites.Site("symmetrise", "prop", symmetrise_check),
    "angle_sym": sites.Site("angle_sym", "prop", angle_check),
    "unique_sym": sites.Site("unique_sym", "prop", unique_check),
    "round": sites.Site("round", "prop", round_check),
    "reuse": sites.Site("reuse", "prop", reuse_check),
}
PREDICATES = {}


def vectors(rng, G, n):
    """general position, on rotation axes, in mirror planes, parallel pairs, near duplicates at the 1e-10 threshold"""
    M = cart_ops(G)
    out = []
    for i in range(n):
        s = i % 6
        if s == 0:
            v = rng.normal(size=3)
        elif s == 1:
            v = rng.integers(-3, 4, size=3).astype(float)
        elif s == 2:  # on an axis / in a mirror: fixed direction of a random operation
            g = M[rng.integers(len(M))]
            w, vec = np.linalg.eig(g)
            j = int(np.argmin(np.abs(w - 1)))
            v = np.real(vec[:, j]) if abs(w[j] - 1) < 1e-9 else rng.normal(size=3)
        elif s == 3 and out:
            v = np.array(out[-1]) * rng.choice([2.0, -1.0, 0.5])  # parallel pair
        elif s == 4 and out:
            v = np.array(out[-1]) + rng.choice([1e-11, 1e-9]) * rng.normal(size=3)  # near-duplicate around 1e-10
        else:
            v = np.zeros(3)
            v[rng.integers(3)] = 1.0
        if not np.any(np.abs(v) > 1e-12):
            v = np.array([1.0, 2.0, 3.0])
        out.append([float(x) for x in v])
    return out


def generate(ctx):
    rng = ctx.rng
    gs = groups()
    reps = 1 if ctx.tier == "quick" else 6
    for k, G in enumerate(gs):
        b = basis_of(k)
        for r in range(reps):
            uvw = [[int(x) for x in rng.integers(-3, 4, size=3)] for _ in range(int(rng.integers(1, 5)))]
            uvw = [v if any(v) else [1, 0, 0] for v in uvw]
            ctx.count("symmetrise_model", ("sm", k, tuple(map(tuple, uvw))), nontrivial=G.size > 1)
            yield "symmetrise_model", {"k": k, "basis": b, "uvw": uvw}
            shape = [(1,), (3,), (2, 2), (1, 2)][rng.integers(4)]
            n = int(np.prod(shape))
            fmt = ["hkl", "uvw", "xyz"][rng.integers(3)]
            coords = vectors(rng, G, n)
            c = {"k": k, "basis": b, "fmt": fmt, "shape": list(shape), "coords": coords}
            ctx.count(f"symmetrise/{fmt}", ("s", k, fmt, tuple(coords[0])), nontrivial=G.size > 1)
            yield "symmetrise", c
            # integer input arrays (vectors given as Python ints)
            ci = {"k": k, "basis": b, "fmt": ["xyz", "hkl", "uvw"][(k + r) % 3], "shape": [2], "dtype": "int",
                  "coords": [[int(x) for x in rng.integers(-3, 4, size=3)] for _ in range(2)]}
            ci["coords"] = [v if any(v) else [1, 2, 0] for v in ci["coords"]]
            ctx.count(f"symmetrise/int/{ci['fmt']}", ("si", k, tuple(map(tuple, ci["coords"]))), nontrivial=G.size > 1)
            yield "symmetrise", ci
            ed = ["setitem", "data", "coords", "point_group", "phase"][(k + r) % 5]
            k2 = int(rng.integers(len(gs)))
            if ed in ("point_group", "phase") and basis_of(k2) != b:
                k2 = k
            cr = dict(c, coords2=vectors(rng, G, n), edit=ed, j=int(rng.integers(16)), k2=k2)
            ctx.count(f"reuse/{ed}", ("ru", k, ed, tuple(coords[0])), nontrivial=G.size > 1)
            yield "reuse", cr
            ctx.count("unique_sym", ("u", k, tuple(coords[0])), nontrivial=G.size > 1)
            yield "unique_sym", dict(c)
            ctx.count("angle_sym", ("a", k, tuple(coords[0])), nontrivial=G.size > 1)
            yield "angle_sym", dict(c, other=vectors(rng, G, 1)[0])
            ints = [[int(x) for x in rng.integers(-4, 5, size=3)] for _ in range(2)]
            ints = [v if any(v) else [1, 1, 0] for v in ints]
            ctx.count("round", ("r", k, tuple(map(tuple, ints))))
            yield "round", {"k": k, "basis": b, "fmt": ["hkl", "uvw"][r % 2], "ints": ints,
                            "factors": [float(rng.choice([1.0, 0.5, 2.0, 0.25, 3.0])) for _ in ints], "max_index": 20}
            if b == "hex":
                # Miller-Bravais indices whose redundant index is the largest and exceeds max_index
                mi = int(rng.choice([5, 8, 20]))
                h4 = []
                for _ in range(2):
                    h, kk = int(rng.integers(mi // 2 + 1, mi + 1)), int(rng.integers(mi // 2 + 1, mi + 1))
                    l = int(rng.integers(0, 3))
                    sgn = int(rng.choice([-1, 1]))
                    v4 = [sgn * h, sgn * kk, l]
                    g = math.gcd(*[abs(x) for x in v4 if x] or [1])
                    h4.append([x // g for x in v4])
                ctx.count("round/four_index", ("r4", k, tuple(map(tuple, h4)), mi))
                yield "round", {"k": k, "basis": b, "fmt": ["hkil", "UVTW"][r % 2], "ints": h4,
                                "factors": [float(rng.choice([0.37, 0.5, 1.0, 2.0])) for _ in h4], "max_index": mi}
    ctx.sample({"site": "symmetrise", **c})


def run(ctx, status):
    driver_ok = lean_phase(ctx, status, ["OrixProofs.Properties.C10"])
    if ctx.replay:
        site, case, body = sites.load_replay(ctx.replay)
        if site in SITES:
            sites.run_cases(ctx, SITES, [(site, case)], driver_ok)
    else:
        sites.run_cases(ctx, SITES, generate(ctx), driver_ok)
    return common.finish(
        ctx, "proof", PREDICATES,
        rule="all 38 point-group objects with a cubic-metric or hexagonal lattice; integer direct-lattice indices for the "
             "exact model comparison; real vectors in general position, on rotation axes / in mirror planes (eigenvectors of "
             "operations), parallel pairs, near-duplicates at 1e-11 and 1e-9, in hkl/uvw/xyz and several shapes; non-trivial "
             "= group order > 1",
        assumptions=["the 1e-10 rounding of near-duplicates and Miller.round's float search are compared, not proved",
                     "the theorems use the regenerated point-group tables (C03)"])
