"""C18 — results do not depend on evaluation strategy (lazy/chunk size, backend, dtype, whole vs element-wise)."""
from __future__ import annotations

import contextlib
import warnings

import numpy as np

from .. import common, sites
from ..gen import quat as GQ
from ..main import lean_phase
from .c04 import groups

CHUNKS = [1, 2, 3, 7, 20, 1000]
KERNELS = ["qu_conj_gufunc", "qu_multiply_gufunc", "qu_rotate_vec_gufunc", "outer_dask_qq", "outer_dask_qv"]


@contextlib.contextmanager
def backend(builtin):
    """toggle the optional accelerated quaternion backend (orix reads the flag at call time)"""
    from orix import constants
    old = constants.installed["numpy-quaternion"]
    constants.installed["numpy-quaternion"] = (not builtin) and old
    try:
        yield
    finally:
        constants.installed["numpy-quaternion"] = old


@contextlib.contextmanager
def silent():
    """swallow what dask's ProgressBar prints"""
    import io
    with contextlib.redirect_stdout(io.StringIO()), contextlib.redirect_stderr(io.StringIO()):
        yield


def Q(a):
    from orix.quaternion import Quaternion
    return Quaternion(a)


def V(a):
    from orix.vector import Vector3d
    return Vector3d(a)


# ---- corr: integer operands, exact, against the chunked model ------------------------------------------
def outer_lines(c):
    n, m = c["chunk"] - 1, c["chunk"] - 1
    A = [x for q in c["A"] for x in q]
    B = [x for q in c["B"] for x in q]
    return [f"chunk {c['kind']} {n} {m} {len(c['A'])} {len(c['B'])} " + " ".join(map(str, A + B))]


def outer_check(ctx, c, outs):
    model = np.array([int(x) for x in outs[0].split()], float)
    sa, sb = tuple(c["sa"]), tuple(c["sb"])
    dim = 4 if c["kind"] == "qq" else 3
    A = np.array(c["A"], c["dtype"]).reshape(sa + (4,))
    B = np.array(c["B"], c["dtype"]).reshape(sb + (dim,))
    model = model.reshape(sa + sb + (dim,))
    res = []
    with warnings.catch_warnings():
        warnings.simplefilter("ignore")
        for builtin in (False, True):
            with backend(builtin):
                a = Q(A)
                b = Q(B) if c["kind"] == "qq" else V(B)
                variants = {"eager": a.outer(b).data,
                            f"lazy(chunk={c['chunk']})": a.outer(b, lazy=True, chunk_size=c["chunk"], progressbar=False).data}
                # element by element
                ew = np.zeros(sa + sb + (dim,))
                for i in np.ndindex(*sa):
                    for j in np.ndindex(*sb):
                        ew[i + j] = (a[i] * b[j]).data.reshape(dim)
                variants["element-wise"] = ew
            for name, val in variants.items():
                if val.shape != model.shape:
                    res.append(f"{name} (builtin={builtin}): shape {val.shape} != self.shape + other.shape {model.shape}")
                elif not np.array_equal(val, model):
                    idx = np.unravel_index(np.argmax(np.abs(val - model).max(axis=-1)), sa + sb)
                    res.append(f"{name} (builtin={builtin}, dtype={c['dtype']}): [{tuple(int(x) for x in idx)}] = "
                               f"{val[idx].tolist()} but model = {model[idx].tolist()}")
    return "; ".join(res[:3]) if res else None


# ---- prop: all strategies agree with each other on float operands ---------------------------------------
def strategies_check(ctx, c, outs):
    sa, sb = tuple(c["sa"]), tuple(c["sb"])
    A = np.array(c["A"], float).reshape(sa + (4,))
    res = []
    ref = {}
    with warnings.catch_warnings():
        warnings.simplefilter("ignore")
        for builtin in (False, True):
            for dt in ("float64", "float32"):
                tol = 1e-12 if dt == "float64" else 5e-6
                # `int_self`: the quaternions hold integers and are handed over as an int64 array (the other operand is
                # float-valued): every strategy must still give what the float-typed object gives
                Ad = A.astype("int64") if (c.get("int_self") and dt == "float64") else A.astype(dt)
                with backend(builtin):
                    qa = Q(Ad)
                    out = {}
                    if c["op"] == "qq":
                        qb = Q(np.array(c["B"], float).reshape(sb + (4,)).astype(dt))
                        out["outer"] = qa.outer(qb).data
                        for ch in c["chunks"]:
                            out[f"outer_lazy{ch}"] = qa.outer(qb, lazy=True, chunk_size=ch, progressbar=False).data
                        with silent():          # the branch that stores under dask's progress bar
                            out[f"outer_lazy{c['chunks'][0]}_bar"] = qa.outer(qb, lazy=True, chunk_size=c["chunks"][0], progressbar=True).data
                        if sa == sb:
                            out["mul"] = (qa * qb).data
                            out["mul_elementwise"] = np.stack([(qa[i] * qb[i]).data.reshape(4) for i in np.ndindex(*sa)]
                                                              ).reshape(sa + (4,))
                        out["conj"] = (~qa).data
                    else:
                        vb = V(np.array(c["B"], float).reshape(sb + (3,)).astype(dt))
                        if not c.get("nonunit"):
                            qa = qa.unit
                        out["outer"] = qa.outer(vb).data
                        if not c.get("nonunit") or c.get("nonunit_lazy"):
                            for ch in c["chunks"]:
                                out[f"outer_lazy{ch}"] = qa.outer(vb, lazy=True, chunk_size=ch, progressbar=False).data
                            with silent():
                                out[f"outer_lazy{c['chunks'][0]}_bar"] = qa.outer(vb, lazy=True, chunk_size=c["chunks"][0], progressbar=True).data
                        if sa == sb:
                            out["qv_mul"] = (qa * vb).data
                            out["qv_mul_elementwise"] = np.stack([(qa[i] * vb[i]).data.reshape(3) for i in np.ndindex(*sa)]
                                                                 ).reshape(sa + (3,))
                        out["dot_outer"] = vb.dot_outer(vb)
                        for ch in c["chunks"][:2]:
                            out[f"dot_outer_lazy{ch}"] = vb.dot_outer(vb, lazy=True, chunk_size=ch, progressbar=False)
                        with silent():
                            out[f"dot_outer_lazy{c['chunks'][0]}_bar"] = vb.dot_outer(vb, lazy=True, chunk_size=c["chunks"][0], progressbar=True)
                for name, val in out.items():
                    base = name.replace("_elementwise", "").replace("_bar", "")
                    for ch in c["chunks"]:
                        base = base.replace(f"_lazy{ch}", "")
                    key = base
                    if key not in ref:
                        ref[key] = (val, name, builtin, dt)
                        continue
                    r = ref[key][0]
                    if val.shape != r.shape:
                        res.append(f"{name} (builtin={builtin}, {dt}) has shape {val.shape} but {ref[key][1]} has {r.shape}")
                    else:
                        sc = max(1.0, float(np.abs(r).max()))
                        d = float(np.abs(val - r).max()) / sc
                        ctx.dev("strategy_rel_" + dt, d)
                        if d > tol:
                            res.append(f"{name} (builtin={builtin}, {dt}) differs from {ref[key][1]} "
                                       f"(builtin={ref[key][2]}, {ref[key][3]}) by {d:.3e}")
    return "; ".join(res[:3]) if res else None


def rotation_strategies_check(ctx, c, outs):
    """`Rotation` objects with mixed improper flags: outer with vectors / rotations / quaternions and element-wise products are the
    same under both backends, eager and lazy (every chunk size), for `other` given as float64 / float32 / integer arrays, whole
    or element by element.  `other` holds small integers (exactly representable in every dtype); the rotations are signed
    permutations or in general position; every strategy must agree with the reference (numpy-quaternion backend, eager,
    float64) to 1e-12 (5e-6 through float32)."""
    from orix.quaternion import Rotation, Quaternion
    from orix.vector import Vector3d
    sa, sb = tuple(c["sa"]), tuple(c["sb"])
    A = np.array(c["A"], float).reshape(sa + (4,))
    fa = np.array(c["fa"], bool).reshape(sa)
    res, ref = [], {}
    with warnings.catch_warnings():
        warnings.simplefilter("ignore")
        for builtin in (False, True):
            for dt in ("float64", "int64", "float32"):
                tol = 5e-6 if dt == "float32" else 1e-12
                with backend(builtin):
                    R = Rotation(A.copy())
                    R.improper = fa.copy()
                    out = {}
                    if c["other"] == "v":
                        vb = Vector3d(np.array(c["B"]).reshape(sb + (3,)).astype(dt))
                        out["outer"] = R.outer(vb).data
                        for ch in c["chunks"]:
                            out[f"outer_lazy{ch}"] = R.outer(vb, lazy=True, chunk_size=ch, progressbar=False).data
                        with silent():
                            out[f"outer_lazy{c['chunks'][0]}_bar"] = R.outer(vb, lazy=True, chunk_size=c["chunks"][0], progressbar=True).data
                        out["outer_elementwise"] = np.stack([(R[i] * vb[j]).data.reshape(3) for i in np.ndindex(*sa)
                                                             for j in np.ndindex(*sb)]).reshape(sa + sb + (3,))
                        if sa == sb:
                            out["mul"] = (R * vb).data
                    else:
                        B = np.array(c["B"]).reshape(sb + (4,)).astype(dt)
                        ob = Rotation(B) if c["other"] == "r" else Quaternion(B)
                        if c["other"] == "r":
                            ob.improper = np.array(c["fb"], bool).reshape(sb)
                        o = R.outer(ob)
                        out["outer"] = o.data
                        if c["other"] == "r":
                            out["outer_improper"] = np.asarray(o.improper, float)
                        for ch in c["chunks"]:
                            ol = R.outer(ob, lazy=True, chunk_size=ch, progressbar=False)
                            out[f"outer_lazy{ch}"] = ol.data
                            if c["other"] == "r":
                                out[f"outer_improper_lazy{ch}"] = np.asarray(ol.improper, float)
                        if c["other"] == "r":
                            el = [(R[i] * ob[j]) for i in np.ndindex(*sa) for j in np.ndindex(*sb)]
                            out["outer_elementwise"] = np.stack([e.data.reshape(4) for e in el]).reshape(sa + sb + (4,))
                            out["outer_improper_elementwise"] = np.array([float(np.asarray(e.improper).reshape(-1)[0]) for e in el]
                                                                         ).reshape(sa + sb)
                for name, val in out.items():
                    key = name.replace("_elementwise", "").replace("_bar", "")
                    for ch in c["chunks"]:
                        key = key.replace(f"_lazy{ch}", "")
                    if key not in ref:
                        ref[key] = (val, name, builtin, dt)
                        continue
                    r = ref[key][0]
                    if val.shape != r.shape:
                        res.append(f"Rotation {name} (builtin={builtin}, other as {dt}) has shape {val.shape} but {ref[key][1]} has {r.shape}")
                        continue
                    if key == "outer" and c["other"] != "v":          # rotations up to sign
                        d = float(np.minimum(np.abs(val - r).max(axis=-1), np.abs(val + r).max(axis=-1)).max()) if val.size else 0.0
                    else:
                        d = float(np.abs(val - r).max()) / max(1.0, float(np.abs(r).max())) if val.size else 0.0
                    if d > tol:
                        res.append(f"Rotation.outer({c['other']}) {name} (builtin={builtin}, other as {dt}) differs from {ref[key][1]} "
                                   f"(builtin={ref[key][2]}, {ref[key][3]}) by {d:.3e}: {np.asarray(val).reshape(-1)[:6].tolist()} vs "
                                   f"{np.asarray(r).reshape(-1)[:6].tolist()} (improper flags {fa.reshape(-1).tolist()})")
    return "; ".join(res[:2]) if res else None


def symmetry_check(ctx, c, outs):
    """Orientation outer angles and distance matrices: lazy (every chunk size) = eager, values and layout"""
    from orix.quaternion import Orientation
    G1, G2 = groups()[c["k1"]], groups()[c["k2"]]
    s1, s2 = tuple(c["s1"]), tuple(c["s2"])
    dt = c.get("dtype", "float64")         # single-precision input arrays: the objects hold unit quaternions all the same
    O1 = Orientation(np.array(c["q1"], float).reshape(s1 + (4,)).astype(dt), symmetry=G1)
    O2 = Orientation(np.array(c["q2"], float).reshape(s2 + (4,)).astype(dt), symmetry=G2)
    with warnings.catch_warnings():
        warnings.simplefilter("ignore")
        eager = O1.angle_with_outer(O2)
        if dt != "float64" and len(s1) == 1:
            # an orientation and itself: zero angle on every path, whatever precision the input array had
            for lz in (False, True):
                dm = O1.get_distance_matrix(lazy=lz, chunk_size=2, progressbar=False) if lz else O1.get_distance_matrix()
                if np.abs(np.diag(dm)).max() > 2e-6:
                    return (f"get_distance_matrix(lazy={lz}) of orientations given as a {dt} array has {np.abs(np.diag(dm)).max():.3e} "
                            f"rad on its diagonal ({G1.name})")
        for ch in c["chunks"]:
            lz = O1.angle_with_outer(O2, lazy=True, chunk_size=ch, progressbar=False)
            if lz.shape != eager.shape:
                return (f"angle_with_outer lazy(chunk={ch}) has shape {lz.shape} but eager {eager.shape} "
                        f"({G1.name}, {G2.name}; shapes {s1}, {s2})")
            if np.abs(lz - eager).max() > 2e-6:
                return (f"angle_with_outer lazy(chunk={ch}) differs from eager by {np.abs(lz - eager).max():.3e} "
                        f"({G1.name}, {G2.name}; shapes {s1}, {s2})")
            if ch == c["chunks"][0]:
                with silent():
                    lzb = O1.angle_with_outer(O2, lazy=True, chunk_size=ch, progressbar=True)
                if lzb.shape != eager.shape or np.abs(lzb - eager).max() > 2e-6:
                    return (f"angle_with_outer lazy(chunk={ch}, progressbar=True) differs from eager ({G1.name}, {G2.name}; "
                            f"shapes {s1}, {s2})")
            lzd = O1.angle_with_outer(O2, lazy=True, chunk_size=ch, progressbar=False, degrees=True)
            if lzd.shape != eager.shape or np.abs(lzd - np.rad2deg(eager)).max() > 2e-4:
                return (f"angle_with_outer(degrees=True) lazy(chunk={ch}) = {np.asarray(lzd).tolist()} but eager (radians) "
                        f"{eager.tolist()} ({G1.name}, {G2.name}; shapes {s1}, {s2})")
        if len(s1) == 1:
            e = O1.get_distance_matrix()
            for ch in c["chunks"][:3]:
                lz = O1.get_distance_matrix(lazy=True, chunk_size=ch, progressbar=False)
                if lz.shape != e.shape or np.abs(lz - e).max() > 2e-6:
                    return f"get_distance_matrix lazy(chunk={ch}) differs from eager ({G1.name})"
                lzd = O1.get_distance_matrix(lazy=True, chunk_size=ch, progressbar=False, degrees=True)
                if lzd.shape != e.shape or np.abs(lzd - np.rad2deg(e)).max() > 2e-4:
                    return f"get_distance_matrix(degrees=True) lazy(chunk={ch}) is not the eager matrix in degrees ({G1.name})"
        # whole vs element by element
        for i in np.ndindex(*s1):
            for j in np.ndindex(*s2):
                one = float(np.atleast_1d(O1[i].angle_with(O2[j]))[0])
                if abs(one - eager[i + j]) > 2e-6:
                    return (f"angle_with_outer[{i + j}] = {eager[i + j]!r} but element by element self[{i}].angle_with(other[{j}]) "
                            f"= {one!r} ({G1.name}, {G2.name})")
    return None


SITES = {
    "outer_exact": sites.Site("outer_exact", "corr", outer_check, outer_lines),
    "strategies": sites.Site("strategies", "prop", strategies_check),
    "symmetry_lazy": sites.Site("symmetry_lazy", "prop", symmetry_check),
    "rotation_strategies": sites.Site("rotation_strategies", "prop", rotation_strategies_check),
}
PREDICATES = {"c18_nonunit_quaternion_vector": lambda case: bool(case.get("nonunit_lazy")) and case.get("op") == "qv"}
SHAPES = [(1,), (2,), (3,), (1, 2), (2, 1), (2, 2), (1, 1, 2), (5,)]


def generate(ctx):
    rng = ctx.rng
    n = 24 if ctx.tier == "quick" else 300
    for r in range(n):
        sa, sb = SHAPES[rng.integers(len(SHAPES))], SHAPES[rng.integers(len(SHAPES))]
        kind = ["qq", "qv"][r % 2]
        unit_ints = [[1, 0, 0, 0], [-1, 0, 0, 0], [0, 1, 0, 0], [0, -1, 0, 0], [0, 0, 1, 0], [0, 0, -1, 0], [0, 0, 0, 1],
                     [0, 0, 0, -1]]
        # q (x) v: eager paths rotate with the normalised quaternion, so exact comparison needs unit integer quaternions
        A = [GQ.int_quat(rng) if kind == "qq" else unit_ints[rng.integers(8)] for _ in range(int(np.prod(sa)))]
        B = [GQ.int_quat(rng) if kind == "qq" else [int(x) for x in rng.integers(-5, 6, size=3)]
             for _ in range(int(np.prod(sb)))]
        c = {"kind": kind, "sa": list(sa), "sb": list(sb), "A": A, "B": B, "chunk": int(CHUNKS[r % len(CHUNKS)]),
             "dtype": ["float64", "int64", "float32"][r % 3]}
        ctx.count(f"outer_exact/{kind}/{c['dtype']}/chunk{c['chunk']}/ndim{len(sa)}x{len(sb)}", ("oe", r, tuple(A[0])),
                  nontrivial=len(A) * len(B) > 1)
        yield "outer_exact", c
        sa, sb = SHAPES[rng.integers(len(SHAPES))], SHAPES[rng.integers(len(SHAPES))]
        op = ["qq", "qv"][r % 2]
        if op == "qq" and r % 4 == 0:
            sb = sa
        c = {"op": op, "sa": list(sa), "sb": list(sb), "A": [GQ.unit_quat(rng)[0] for _ in range(int(np.prod(sa)))],
             "B": [GQ.unit_quat(rng)[0] if op == "qq" else GQ.vec(rng) for _ in range(int(np.prod(sb)))],
             "chunks": [int(x) for x in rng.choice(CHUNKS, 3, replace=False)]}
        ctx.count(f"strategies/{op}/ndim{len(sa)}x{len(sb)}", ("st", r, tuple(c["A"][0])), nontrivial=True)
        yield "strategies", c
    ctx.sample({"site": "strategies", **c})
    # non-unit quaternions times vectors (Quaternion class only): eager normalises, see known finding
    c = {"op": "qv", "sa": [2], "sb": [2], "A": [[2.0, 0.0, 0.0, 2.0], [1.0, 2.0, 2.0, 4.0]], "B": [GQ.vec(rng), GQ.vec(rng)],
         "chunks": [1, 20], "nonunit": True, "nonunit_lazy": True}
    ctx.count("strategies/qv/nonunit_lazy", ("stn", 0))
    yield "strategies", c
    # integer-typed quaternion object, float-valued other operand (lazy buffers must not inherit the integer dtype)
    unit_ints = [[1, 0, 0, 0], [-1, 0, 0, 0], [0, 1, 0, 0], [0, -1, 0, 0], [0, 0, 1, 0], [0, 0, -1, 0], [0, 0, 0, 1], [0, 0, 0, -1]]
    for r in range(4 if ctx.tier == "quick" else 40):
        sa, sb = [((2,), (3,)), ((2, 2), (2,)), ((3,), (2, 2)), ((1,), (4,))][r % 4]
        op = ["qq", "qv"][r % 2]
        c = {"op": op, "sa": list(sa), "sb": list(sb), "int_self": True,
             "A": [[float(x) for x in unit_ints[rng.integers(8)]] for _ in range(int(np.prod(sa)))],
             "B": [GQ.unit_quat(rng)[0] if op == "qq" else GQ.vec(rng) for _ in range(int(np.prod(sb)))],
             "chunks": [int(x) for x in rng.choice(CHUNKS, 2, replace=False)]}
        ctx.count(f"strategies/{op}/int_self", ("sti", r, tuple(c["A"][0])), nontrivial=True)
        yield "strategies", c
    # non-unit quaternions: eager / element-wise results must not depend on the backend or dtype
    for r in range(4 if ctx.tier == "quick" else 40):
        sa = SHAPES[rng.integers(len(SHAPES))]
        n = int(np.prod(sa))
        c = {"op": "qv", "sa": list(sa), "sb": list(sa), "A": [[float(x) for x in GQ.int_quat(rng)] for _ in range(n)],
             "B": [GQ.vec(rng) for _ in range(n)], "chunks": [1], "nonunit": True}
        ctx.count("strategies/qv/nonunit_backends", ("stb", r, tuple(c["A"][0])))
        yield "strategies", c
    # Rotation objects with mixed improper flags: exact inputs (signed-permutation rotations scaled to unit, integer vectors)
    perm = [[1, 0, 0, 0], [0, 1, 0, 0], [0, 0, 1, 0], [0, 0, 0, 1], [-1, 0, 0, 0], [0, 0, -1, 0]]
    for r in range(9 if ctx.tier == "quick" else 60):
        sa, sb = SHAPES[rng.integers(len(SHAPES))], SHAPES[rng.integers(len(SHAPES))]
        other = ["v", "r", "q"][r % 3]
        if r % 6 == 0:
            sb = sa
        if r < 6:                           # always: operands with two axes longer than 1 (a wrong flatten order shows)
            sa, sb = [((2,), (2, 3)), ((3, 2), (2, 3)), ((2, 3), (2,)), ((2, 3), (3, 2)), ((2, 2), (2, 3)), ((1, 3), (3, 2))][r]
        na, nb = int(np.prod(sa)), int(np.prod(sb))
        # every second case: rotations in general position (results are not integers although `other` holds integers)
        c = {"other": other, "sa": list(sa), "sb": list(sb),
             "A": [perm[rng.integers(len(perm))] if (r // 3) % 2 == 0 else GQ.unit_quat(rng)[0] for _ in range(na)],
             "fa": [bool((j + r) % 2) for j in range(na)] if na > 1 else [True],
             "B": ([[int(x) for x in rng.integers(-5, 6, size=3)] for _ in range(nb)] if other == "v"
                   else [perm[rng.integers(len(perm))] for _ in range(nb)]),
             "fb": [bool(rng.integers(2)) for _ in range(nb)], "chunks": [int(x) for x in rng.choice(CHUNKS, 2, replace=False)]}
        ctx.count(f"rotation_strategies/{other}/ndim{len(sa)}x{len(sb)}", ("rs", r, other, tuple(c["A"][0])), nontrivial=True)
        yield "rotation_strategies", c
    m = 12 if ctx.tier == "quick" else 150
    gs = groups()
    small = [i for i, g in enumerate(gs) if g.size <= 12]
    for r in range(m):
        k1 = small[rng.integers(len(small))]
        k2 = k1 if r % 2 == 0 else small[rng.integers(len(small))]
        s1, s2 = SHAPES[rng.integers(len(SHAPES) - 1)], SHAPES[rng.integers(len(SHAPES) - 1)]
        c = {"k1": k1, "k2": k2, "s1": list(s1), "s2": list(s2), "dtype": ["float64", "float32", "float64"][r % 3],
             "q1": [GQ.unit_quat(rng)[0] for _ in range(int(np.prod(s1)))],
             "q2": [GQ.unit_quat(rng)[0] for _ in range(int(np.prod(s2)))],
             "chunks": [int(x) for x in rng.choice(CHUNKS, 3, replace=False)]}
        ctx.count(f"symmetry_lazy/ndim{len(s1)}x{len(s2)}", ("sl", r, k1, k2, tuple(c["q1"][0])))
        yield "symmetry_lazy", c


def run(ctx, status):
    driver_ok = lean_phase(ctx, status, ["OrixProofs.Properties.C18"], kernels=KERNELS)
    if ctx.replay:
        site, case, body = sites.load_replay(ctx.replay)
        if site in SITES:
            sites.run_cases(ctx, SITES, [(site, case)], driver_ok)
    else:
        sites.run_cases(ctx, SITES, generate(ctx), driver_ok)
    return common.finish(
        ctx, "proof", PREDICATES,
        rule="seeded operands x {eager, lazy with chunk sizes 1,2,3,7,20,1000 (beyond the operand size)} x {numpy-quaternion, "
             "built-in kernels} x {float64, float32, int64} x {whole, element by element}, shape pairs with different numbers "
             "of dimensions; integer operands compared exactly with the chunked model; symmetry-reduced outer angles and "
             "distance matrices lazy vs eager vs element-wise",
        assumptions=["dask scheduling and numpy-quaternion arithmetic are exercised, not verified",
                     "float32 inputs are compared with a float32-sized tolerance (input rounding)"])
