"""C04 — the symmetry-reduced misorientation angle is the true minimum over equivalents."""
from __future__ import annotations

import warnings

import numpy as np

from .. import common, sites
from ..common import f2h, h2f
from ..gen import quat as GQ
from ..main import lean_phase

TOL_DOT = 1e-9
TOL_ANG = 2e-6   # arccos(2d^2-1) has condition ~1/sqrt(1-d) near d = 1: 1e-12 in d -> 1e-6 in the angle
# maximum disorientation angles (degrees) of the proper point groups; groups with inversion inherit their
# proper subgroup's value.  Only used as an upper bound (measured clause).
MAX_DIS = {"1": 180.0, "211": 180.0, "121": 180.0, "112": 180.0, "222": 120.0, "4": 180.0, "422": 98.43,
           "3": 180.0, "321": 104.48, "312": 104.48, "32": 104.48, "6": 180.0, "622": 93.85, "23": 90.0,
           "432": 62.80}


def groups():
    from orix.quaternion import symmetry as S
    return S._groups


def hmul(p, q):
    a1, b1, c1, d1 = np.moveaxis(p, -1, 0)
    a2, b2, c2, d2 = np.moveaxis(q, -1, 0)
    return np.stack([a1 * a2 - b1 * b2 - c1 * c2 - d1 * d2, a1 * b2 + b1 * a2 + c1 * d2 - d1 * c2,
                     a1 * c2 - b1 * d2 + c1 * a2 + d1 * b2, a1 * d2 + b1 * c2 - c1 * b2 + d1 * a2], axis=-1)


def gdata(G):
    return G.data.reshape(-1, 4).astype(float), G.improper.reshape(-1).astype(bool)


def brute_dot(G1, G2, q1, q2):
    """max |(g2 q2)·(g1 q1)| over pairs of equal properness; independent numpy arithmetic"""
    d1, i1 = gdata(G1)
    d2, i2 = gdata(G2)
    A = hmul(d1, np.asarray(q1, float)[None, :])      # g1 q1
    B = hmul(d2, np.asarray(q2, float)[None, :])      # g2 q2
    dots = np.abs(B @ A.T)
    same = i2[:, None] == i1[None, :]
    return float(np.max(np.where(same, dots, 0.0)))


def ang(d):
    return float(np.arccos(np.clip(2 * d * d - 1, -1, 1)))


def ori(G, qs, shape=None):
    from orix.quaternion import Orientation
    q = np.asarray(qs, float)
    if shape is not None:
        q = q.reshape(tuple(shape) + (4,))
    # the values in a memory layout chosen by the data themselves (C / Fortran / strided view / read-only / negative stride)
    return Orientation(common.relayout(q, int(abs(float(q.reshape(-1)[0])) * 1e6) if q.size else 0), symmetry=G)


def rot_line(G):
    d, i = gdata(G)
    return " ".join(" ".join(f2h(x) for x in row) + " " + f2h(1.0 if f else 0.0) for row, f in zip(d, i))


def o_line(q):
    return " ".join(f2h(x) for x in q) + " " + f2h(0.0)


# ---- corr -------------------------------------------------------------------------------
def dot_lines(c):
    G1, G2 = groups()[c["k1"]], groups()[c["k2"]]
    return [f"dis brute {G1.size} {G2.size} {rot_line(G1)} {rot_line(G2)} {o_line(c['q1'])} {o_line(c['q2'])}"]


def dot_check(ctx, c, outs):
    G1, G2 = groups()[c["k1"]], groups()[c["k2"]]
    model = h2f(outs[0])
    O1, O2 = ori(G1, [c["q1"]]), ori(G2, [c["q2"]])
    with warnings.catch_warnings():
        warnings.simplefilter("ignore")
        impl = float(O1.dot(O2).reshape(-1)[0])
    ctx.dev("dot_abs", abs(impl - model))
    if abs(impl - model) > TOL_DOT:
        return (f"Orientation.dot = {impl!r} but the brute-force maximum over equivalents (model) = {model!r} for symmetries "
                f"{G1.name}, {G2.name}")
    return None


# ---- prop ---------------------------------------------------------------------------------
def pair_check(ctx, c, outs):
    G1, G2 = groups()[c["k1"]], groups()[c["k2"]]
    q1, q2 = np.asarray(c["q1"], float), np.asarray(c["q2"], float)
    O1, O2 = ori(G1, q1), ori(G2, q2)
    with warnings.catch_warnings():
        warnings.simplefilter("ignore")
        d = O1.dot(O2)
        a = O1.angle_with(O2)
        a_deg = O1.angle_with(O2, degrees=True)
        d_rev = O2.dot(O1)
        a_rev = O2.angle_with(O1)
    n = len(q1)
    if d.shape != (n,) or a.shape != (n,):
        return f"pairwise result shapes {d.shape}, {a.shape} for {n} orientations"
    for i in range(n):
        bd = brute_dot(G1, G2, q1[i], q2[i])
        if abs(d[i] - bd) > TOL_DOT:
            return (f"dot = {d[i]!r} but brute-force maximum over equivalent pairs = {bd!r} "
                    f"({G1.name}, {G2.name}; q1 = {q1[i].tolist()}, q2 = {q2[i].tolist()})")
        if abs(a[i] - ang(bd)) > TOL_ANG:
            return (f"angle_with = {a[i]!r} but brute-force minimum angle = {ang(bd)!r} "
                    f"({G1.name}, {G2.name}; q1 = {q1[i].tolist()}, q2 = {q2[i].tolist()})")
        if abs(np.deg2rad(a_deg[i]) - a[i]) > 1e-12:
            return "degrees flag does not just rescale"
        if abs(d_rev[i] - d[i]) > TOL_DOT or abs(a_rev[i] - a[i]) > TOL_ANG:
            return (f"not symmetric in its arguments: dot {d[i]!r} vs {d_rev[i]!r} ({G1.name}, {G2.name}; "
                    f"q1 = {q1[i].tolist()}, q2 = {q2[i].tolist()})")
    # invariance under replacing an argument by an equivalent one, zero for equivalents
    from orix.quaternion import Orientation
    g1 = G1[c["g1"] % G1.size]
    g2 = G2[c["g2"] % G2.size]
    with warnings.catch_warnings():
        warnings.simplefilter("ignore")
        E1 = Orientation(g1 * Orientation(q1), symmetry=G1) if not bool(g1.improper.reshape(-1)[0]) else None
        E2 = Orientation(g2 * Orientation(q2), symmetry=G2) if not bool(g2.improper.reshape(-1)[0]) else None
        if E1 is not None:
            a1 = E1.angle_with(O2)
            if np.abs(a1 - a).max() > TOL_ANG:
                return (f"angle changes when the first argument is replaced by an equivalent: {a.tolist()} -> {a1.tolist()} "
                        f"({G1.name}, {G2.name}, operation {g1.data.tolist()})")
            z = E1.angle_with(O1)
            if np.abs(z).max() > TOL_ANG:
                return f"angle between symmetrically equivalent orientations is {z.tolist()}, not 0 ({G1.name})"
        if E2 is not None:
            a2 = O1.angle_with(E2)
            if np.abs(a2 - a).max() > TOL_ANG:
                return (f"angle changes when the second argument is replaced by an equivalent: {a.tolist()} -> {a2.tolist()} "
                        f"({G1.name}, {G2.name})")
    # upper bound by the maximum disorientation angle (same symmetry, proper group or group with inversion)
    if c["k1"] == c["k2"]:
        name = G1.name if G1.is_proper else (G1.proper_subgroup.name if G1.contains_inversion else None)
        if name in MAX_DIS and np.rad2deg(a).max() > MAX_DIS[name] + 0.01:
            return f"reduced angle {np.rad2deg(a).max():.3f} deg exceeds the maximum disorientation angle of {name}"
    return None


def difference_check(ctx, c, outs):
    """the angle of the difference O2 - O1 (and of O1 - O2, computed afterwards in the same process) is the
    brute-force minimum over equivalent pairs, for many seeded pairs at once"""
    G1, G2 = groups()[c["k1"]], groups()[c["k2"]]
    g = np.random.default_rng(c["bulk"])
    qa = g.normal(size=(c["n"], 4))
    qb = g.normal(size=(c["n"], 4))
    qa /= np.linalg.norm(qa, axis=1)[:, None]
    qb /= np.linalg.norm(qb, axis=1)[:, None]
    # the pairs in a 1-d, 2-d or 3-d arrangement: each difference belongs to the pair at its own position
    shp = tuple(c.get("shape") or (c["n"],))
    O1, O2 = ori(G1, qa.reshape(shp + (4,))), ori(G2, qb.reshape(shp + (4,)))
    with warnings.catch_warnings():
        warnings.simplefilter("ignore")
        try:
            w21 = (O2 - O1).angle
            w12 = (O1 - O2).angle
        except NotImplementedError:
            return None
    ref = np.array([ang(brute_dot(G1, G2, qa[i], qb[i])) for i in range(c["n"])])
    for nm, w in (("O2 - O1", w21), ("O1 - O2", w12)):
        if w.shape != shp:
            return f"angle of {nm} has shape {w.shape} for pairs arranged as {shp}"
        w = w.reshape(-1)
        bad = np.flatnonzero(np.abs(w - ref) > TOL_ANG)
        if bad.size:
            i = int(bad[0])
            return (f"angle of the difference {nm} = {float(w[i])!r} but the brute-force minimum over equivalent pairs = "
                    f"{float(ref[i])!r} ({G1.name}, {G2.name}; q1 = {qa[i].tolist()}, q2 = {qb[i].tolist()}; "
                    f"{bad.size} of {c['n']} pairs)")
    return None


def _same_name_pairs():
    """pairs (derived group, named group) of DIFFERENT groups carrying the same name: the Laue groups of the axis-setting
    variants are named after their Laue class ('2/m', '-3m'), like the standard-setting groups"""
    from orix.quaternion import symmetry as S
    named = {g.name: g for g in S._groups}
    out = []
    for g in S._groups:
        L = g.laue
        if L.name in named and L.name != g.name:
            H = named[L.name]
            if L.size == H.size and not same_group(L, H):
                out.append((g.name, L, H))
    return out


def _same_data_pairs():
    """pairs of DIFFERENT named groups that store the same quaternions in the same order and differ only in their improper
    flags (2 / m, 4 / -4, 422 / 4mm, 32 / 3m, 6 / -6, 622 / 6mm, ...): a comparison of the raw data cannot tell them apart"""
    from orix.quaternion import symmetry as S
    out = []
    gs = list(S._groups)
    for i, A in enumerate(gs):
        for B in gs[i + 1:]:
            if A.shape == B.shape and np.allclose(A.data, B.data) and not np.array_equal(A.improper, B.improper):
                out.append((f"{A.name} / {B.name}: equal quaternion data, different improper flags", A, B))
    return out


def _lookalike_pairs():
    return _same_name_pairs() + _same_data_pairs()


def same_group(A, B):
    a, b = A.data.reshape(-1, 4), B.data.reshape(-1, 4)
    return all(np.min(np.minimum(np.abs(b - x).max(axis=1), np.abs(b + x).max(axis=1))) < 1e-9 for x in a)


def same_name_check(ctx, c, outs):
    """two-phase comparison of orientations whose groups are different but carry the same name: every API still gives the
    brute-force value for the operations the groups actually hold, in both orders"""
    pairs = _lookalike_pairs()
    if not pairs:
        return None
    src, A, B = pairs[c["pair"] % len(pairs)]
    q1, q2 = np.asarray(c["q1"], float), np.asarray(c["q2"], float)
    with warnings.catch_warnings():
        warnings.simplefilter("ignore")
        for G1, G2 in ((A, B), (B, A)):
            O1, O2 = ori(G1, q1), ori(G2, q2)
            a = O1.angle_with(O2)
            ao = O1.angle_with_outer(O2)
            al = O1.angle_with_outer(O2, lazy=True, chunk_size=2, progressbar=False)
            for i in range(len(q1)):
                ref = ang(brute_dot(G1, G2, q1[i], q2[i]))
                if abs(a[i] - ref) > TOL_ANG:
                    return (f"angle_with = {float(a[i])!r} but brute force = {ref!r} for two different groups that are both named "
                            f"{G1.name!r} / {G2.name!r} ({src}); q1 = {q1[i].tolist()}, q2 = {q2[i].tolist()}")
                for j in range(len(q2)):
                    rj = ang(brute_dot(G1, G2, q1[i], q2[j]))
                    if abs(ao[i, j] - rj) > TOL_ANG or abs(al[i, j] - rj) > TOL_ANG:
                        return (f"angle_with_outer[{i},{j}] = {float(ao[i, j])!r} (lazy {float(al[i, j])!r}) but brute force = {rj!r} for two "
                                f"look-alike groups {G1.name!r} / {G2.name!r} ({src})")
    return None


def outer_check(ctx, c, outs):
    G1, G2 = groups()[c["k1"]], groups()[c["k2"]]
    s1, s2 = tuple(c["s1"]), tuple(c["s2"])
    q1 = np.asarray(c["q1"], float).reshape(s1 + (4,))
    q2 = np.asarray(c["q2"], float).reshape(s2 + (4,))
    O1, O2 = ori(G1, q1), ori(G2, q2)
    with warnings.catch_warnings():
        warnings.simplefilter("ignore")
        if c["lazy"]:
            a = O1.angle_with_outer(O2, lazy=True, chunk_size=c["chunk"], progressbar=False)
            a_deg = O1.angle_with_outer(O2, lazy=True, chunk_size=c["chunk"], progressbar=False, degrees=True)
            d = None
        else:
            a = O1.angle_with_outer(O2)
            a_deg = O1.angle_with_outer(O2, degrees=True)
            d = O1.dot_outer(O2)
    if np.shape(a_deg) != np.shape(a) or (np.size(a) and np.abs(np.deg2rad(a_deg) - a).max() > 1e-12):
        return (f"angle_with_outer(degrees=True) = {np.asarray(a_deg).tolist()} is not the angle in radians {np.asarray(a).tolist()} "
                f"rescaled (lazy={c['lazy']}, {G1.name}, {G2.name})")
    if a.shape != s1 + s2 or (d is not None and d.shape != s1 + s2):
        return (f"outer result has shape {a.shape}, expected self.shape + other.shape = {s1 + s2} "
                f"(lazy={c['lazy']})")
    for i in np.ndindex(*s1):
        for j in np.ndindex(*s2):
            bd = brute_dot(G1, G2, q1[i], q2[j])
            if d is not None and abs(d[i + j] - bd) > TOL_DOT:
                return (f"dot_outer[{i + j}] = {d[i + j]!r} but brute force for (self[{i}], other[{j}]) = {bd!r} "
                        f"({G1.name}, {G2.name})")
            if abs(a[i + j] - ang(bd)) > TOL_ANG:
                return (f"angle_with_outer[{i + j}] = {a[i + j]!r} (lazy={c['lazy']}, chunk={c['chunk']}) but brute force "
                        f"for (self[{i}], other[{j}]) = {ang(bd)!r} ({G1.name}, {G2.name}; shapes {s1}, {s2})")
    return None


def distance_check(ctx, c, outs):
    G = groups()[c["k1"]]
    q = np.asarray(c["q1"], float)
    O = ori(G, q)
    with warnings.catch_warnings():
        warnings.simplefilter("ignore")
        D = O.get_distance_matrix(lazy=c["lazy"], chunk_size=c["chunk"], progressbar=False)
        Dd = O.get_distance_matrix(lazy=c["lazy"], chunk_size=c["chunk"], progressbar=False, degrees=True)
    n = len(q)
    if D.shape != (n, n):
        return f"distance matrix shape {D.shape}"
    if Dd.shape != D.shape or (n and np.abs(np.deg2rad(Dd) - D).max() > 1e-12):
        return (f"Orientation.get_distance_matrix(degrees=True) = {np.asarray(Dd).tolist()} is not the matrix in radians "
                f"{np.asarray(D).tolist()} rescaled ({G.name}, lazy={c['lazy']})")
    for i in range(n):
        for j in range(n):
            b = ang(brute_dot(G, G, q[i], q[j]))
            if abs(D[i, j] - b) > TOL_ANG:
                return (f"Orientation.get_distance_matrix[{i},{j}] = {D[i, j]!r} but brute-force minimum angle = {b!r} "
                        f"({G.name}, lazy={c['lazy']})")
    return None


def brute_mis(Gl, Gr, m, n):
    dl, il = gdata(Gl)
    dr, ir = gdata(Gr)
    A = hmul(hmul(dl[:, None, :], np.asarray(m, float)[None, None, :]), dr[None, :, :]).reshape(-1, 4)
    B = hmul(hmul(dl[:, None, :], np.asarray(n, float)[None, None, :]), dr[None, :, :]).reshape(-1, 4)
    ia = (il[:, None] ^ ir[None, :]).reshape(-1)
    dots = np.abs(A @ B.T)
    return float(np.max(np.where(ia[:, None] == ia[None, :], dots, 0.0)))


def mis_lines(c):
    Gl, Gr = groups()[c["k1"]], groups()[c["k2"]]
    m, n = c["q1"][0], c["q1"][1]
    return [f"dis brutemis {Gl.size} {Gr.size} {rot_line(Gl)} {rot_line(Gr)} {o_line(m)} {o_line(n)}"]


def mis_check(ctx, c, outs):
    from orix.quaternion import Misorientation
    Gl, Gr = groups()[c["k1"]], groups()[c["k2"]]
    q = np.asarray(c["q1"], float)
    M = Misorientation(q, symmetry=(Gl, Gr))
    with warnings.catch_warnings():
        warnings.simplefilter("ignore")
        D = M.get_distance_matrix(chunk_size=c["chunk"], progressbar=False)
        Dd = M.get_distance_matrix(chunk_size=c["chunk"], progressbar=False, degrees=True)
    if np.shape(Dd) != np.shape(D) or (np.size(D) and np.abs(np.deg2rad(Dd) - D).max() > 1e-12):
        return "Misorientation.get_distance_matrix(degrees=True) is not the matrix in radians rescaled"
    with warnings.catch_warnings():
        warnings.simplefilter("ignore")
    n = len(q)
    model01 = h2f(outs[0]) if outs else None
    for i in range(n):
        for j in range(n):
            b = brute_mis(Gl, Gr, q[i], q[j])
            if model01 is not None and (i, j) == (0, 1) and abs(b - model01) > 1e-9:
                return f"harness brute force {b!r} != model brute force {model01!r}"
            if abs(D[i, j] - ang(b)) > TOL_ANG:
                return (f"Misorientation.get_distance_matrix[{i},{j}] = {D[i, j]!r} but the minimum angle over equivalents "
                        f"gl*M*gr is {ang(b)!r} (symmetries {Gl.name}, {Gr.name}; M = {q[i].tolist()}, N = {q[j].tolist()})")
    return None


def rotgroup_check(ctx, c, outs):
    """the hypothesis `IsRotGroup` of the theorems, for the live symmetry list: unit quaternions, closed under product and
    conjugation as rotations (same properness flag, quaternion up to sign), contains the identity"""
    G = groups()[c["k1"]]
    d, i = gdata(G)
    if np.abs(np.linalg.norm(d, axis=1) - 1).max() > 1e-12:
        return f"{G.name}: symmetry operations are not unit quaternions"

    def member(q, flag):
        m = np.minimum(np.abs(d - q).max(axis=1), np.abs(d + q).max(axis=1)) <= 1e-9
        return bool((m & (i == flag)).any())
    if not member(np.array([1.0, 0, 0, 0]), False):
        return f"{G.name}: identity missing"
    for a in range(len(d)):
        if not member(d[a] * np.array([1, -1, -1, -1.0]), i[a]):
            return f"{G.name}: inverse of operation {a} missing"
        P = hmul(d[a][None, :], d)
        for b in range(len(d)):
            if not member(P[b], bool(i[a] ^ i[b])):
                return f"{G.name}: product of operations {a} and {b} is not an operation (as a rotation with parity flag)"
    return None


SITES = {
    "is_rot_group": sites.Site("is_rot_group", "prop", rotgroup_check),
    "dot_model": sites.Site("dot_model", "corr", dot_check, dot_lines),
    "pairwise": sites.Site("pairwise", "prop", pair_check),
    "outer": sites.Site("outer", "prop", outer_check),
    "difference": sites.Site("difference", "prop", difference_check),
    "same_name_groups": sites.Site("same_name_groups", "prop", same_name_check),
    "distance_matrix": sites.Site("distance_matrix", "prop", distance_check),
    "mis_distance": sites.Site("mis_distance", "prop", mis_check, mis_lines),
}
PREDICATES = {"mis_different_symmetries": lambda case: case.get("k1") != case.get("k2")}


def near_equivalent(rng, G, q):
    """an orientation equal to / within 1e-8 of an equivalent of q"""
    d, i = gdata(G)
    proper = np.where(~i)[0]
    g = d[proper[rng.integers(len(proper))]]
    e = hmul(g, np.asarray(q, float))
    eps = float(rng.choice([0.0, 1e-8, 1e-10]))
    if eps:
        ax = rng.normal(size=3)
        ax /= np.linalg.norm(ax)
        dq = np.concatenate([[np.cos(eps / 2)], np.sin(eps / 2) * ax])
        e = hmul(e, dq)
    e = e * rng.choice([-1.0, 1.0])
    return [float(x) for x in e]


def generate(ctx):
    rng = ctx.rng
    gs = groups()
    nG = len(gs)
    reps = 2 if ctx.tier == "quick" else 12
    for k in range(nG):
        ctx.count("is_rot_group", ("g", k), nontrivial=gs[k].size > 1)
        yield "is_rot_group", {"k1": k}
    # every group alone
    for k in range(nG):
        for r in range(reps):
            n = int(rng.integers(1, 4))
            q1 = [GQ.unit_quat(rng)[0] for _ in range(n)]
            q2 = [near_equivalent(rng, gs[k], q) if (r + j) % 3 == 0 else GQ.unit_quat(rng)[0] for j, q in enumerate(q1)]
            c = {"k1": k, "k2": k, "q1": q1, "q2": q2, "g1": int(rng.integers(48)), "g2": int(rng.integers(48))}
            ctx.count("pairwise/same", ("p", k, tuple(q1[0])), nontrivial=gs[k].size > 1)
            yield "pairwise", c
            ctx.count("dot_model/same", ("m", k, tuple(q1[0])), nontrivial=gs[k].size > 1)
            yield "dot_model", {"k1": k, "k2": k, "q1": q1[0], "q2": q2[0]}
        ctx.sample({"site": "pairwise", **c})
    # pairs of different groups (every pair of crystal systems is hit over the seeds; fixed count per run)
    npairs = 40 if ctx.tier == "quick" else 600
    for r in range(npairs):
        k1, k2 = int(rng.integers(nG)), int(rng.integers(nG))
        q1 = [GQ.unit_quat(rng)[0] for _ in range(2)]
        q2 = [GQ.unit_quat(rng)[0] for _ in range(2)]
        c = {"k1": k1, "k2": k2, "q1": q1, "q2": q2, "g1": int(rng.integers(48)), "g2": int(rng.integers(48))}
        ctx.count("pairwise/two_groups", ("p2", k1, k2, tuple(q1[0])), nontrivial=k1 != k2)
        yield "pairwise", c
        ctx.count("dot_model/two_groups", ("m2", k1, k2, tuple(q1[0])))
        yield "dot_model", {"k1": k1, "k2": k2, "q1": q1[0], "q2": q2[0]}
    # the angle of the difference, both orders in one process: every group with itself (few pairs), interphase pairs
    # from different crystal families (product sets G1.G2 != G2.G1) in bulk, seeded random pairs
    names = [G.name for G in gs]
    nb = 200 if ctx.tier == "quick" else 2000
    fam = [("432", "622"), ("23", "32"), ("m-3m", "6/mmm"), ("432", "32"), ("m-3m", "6mm"), ("422", "32"), ("-43m", "-6m2"),
           ("222", "3"), ("m-3", "-3m"), ("432", "6"),
           # one group improper, the other proper, different proper parts (both orders are computed by the site)
           ("m-3m", "622"), ("m-3m", "32"), ("-43m", "6"), ("4/mmm", "3"), ("6/mmm", "23"), ("mmm", "4")]
    plist = [(names.index(a), names.index(b), nb) for a, b in fam if a in names and b in names]
    plist += [(k, k, 12) for k in range(nG)]
    plist += [(int(rng.integers(nG)), int(rng.integers(nG)), 40) for _ in range(10 if ctx.tier == "quick" else 100)]
    for r in range(max(6, len(_lookalike_pairs())) if ctx.tier == "quick" else 60):
        n = 3
        c = {"pair": r, "q1": [GQ.unit_quat(rng)[0] for _ in range(n)], "q2": [GQ.unit_quat(rng)[0] for _ in range(n)]}
        ctx.count("same_name_groups", ("sng", r, tuple(c["q1"][0])), nontrivial=True)
        yield "same_name_groups", c
    for j, (k1, k2, n) in enumerate(plist):
        shape = [[n], [2, n // 2], [n // 4, 4], [2, n // 4, 2]][j % 4]          # every n used here is a multiple of 4
        ctx.count("difference/" + ("same" if k1 == k2 else "two_groups") + f"/ndim{len(shape)}", ("df", k1, k2, n),
                  nontrivial=gs[k1].size > 1)
        yield "difference", {"k1": k1, "k2": k2, "bulk": int(rng.integers(1 << 31)), "n": n, "shape": shape}
    # outer products: shape pairs with different numbers of dimensions, eager and lazy
    shapes = [(1,), (2,), (3,), (1, 2), (2, 1), (2, 2), (1, 1, 2)]
    nout = 24 if ctx.tier == "quick" else 300
    for r in range(nout):
        s1, s2 = shapes[rng.integers(len(shapes))], shapes[rng.integers(len(shapes))]
        k1 = int(rng.integers(nG))
        k2 = k1 if r % 2 == 0 else int(rng.integers(nG))
        c = {"k1": k1, "k2": k2, "s1": list(s1), "s2": list(s2),
             "q1": [GQ.unit_quat(rng)[0] for _ in range(int(np.prod(s1)))],
             "q2": [GQ.unit_quat(rng)[0] for _ in range(int(np.prod(s2)))],
             "lazy": bool(r % 3 == 0), "chunk": int(rng.choice([1, 2, 3, 20]))}
        ctx.count(f"outer/{'lazy' if c['lazy'] else 'eager'}/ndim{len(s1)}x{len(s2)}", ("o", r, k1, k2, tuple(c["q1"][0])),
                  nontrivial=len(c["q1"]) * len(c["q2"]) > 1)
        yield "outer", c
    ndm = 10 if ctx.tier == "quick" else 120
    for r in range(ndm):
        k = int(rng.integers(nG))
        n = int(rng.integers(2, 4))
        c = {"k1": k, "k2": k, "q1": [GQ.unit_quat(rng)[0] for _ in range(n)], "lazy": bool(r % 2),
             "chunk": int(rng.choice([1, 2, 20]))}
        ctx.count("distance_matrix", ("d", k, tuple(c["q1"][0])))
        yield "distance_matrix", c
        # misorientations: proper groups (two-sided symmetry), equal and different
        from orix.quaternion import symmetry as S
        prop_idx = [i for i, g in enumerate(gs) if g.is_proper and g.size <= 12]
        kl = prop_idx[rng.integers(len(prop_idx))]
        kr = kl if r % 2 == 0 else prop_idx[rng.integers(len(prop_idx))]
        c = {"k1": kl, "k2": kr, "q1": [GQ.unit_quat(rng)[0] for _ in range(2)], "chunk": 20}
        ctx.count("mis_distance/" + ("same" if kl == kr else "different"), ("md", kl, kr, tuple(c["q1"][0])))
        yield "mis_distance", c


def run(ctx, status):
    driver_ok = lean_phase(ctx, status, ["OrixProofs.Properties.C04", "OrixProofs.Properties.C05"])  # C05: difference_* theorems
    if ctx.replay:
        site, case, body = sites.load_replay(ctx.replay)
        if site in SITES:
            sites.run_cases(ctx, SITES, [(site, case)], driver_ok)
    else:
        sites.run_cases(ctx, SITES, generate(ctx), driver_ok)
    return common.finish(
        ctx, "proof", PREDICATES,
        rule="all 38 point-group objects alone and seeded pairs of groups; orientations from the stratified quaternion "
             "generator plus orientations equal to / within 1e-8 of an equivalent; outer products over shape pairs with "
             "different numbers of dimensions, eager and lazy with several chunk sizes; distance matrices; non-trivial = "
             "group order > 1 (pairs: different groups)",
        assumptions=["the theorems assume the symmetry list is a group of unit rotations up to sign (IsRotGroup); for the "
                     "live objects this is C03 (matrix level) and is exercised numerically here",
                     "the bound by the maximum disorientation angle is measured against tabulated values, not proved",
                     "dask/numpy-quaternion arithmetic is exercised, not verified"])
