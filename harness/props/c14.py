"""C14 — .ang export/import preserves the map up to the format's precision.

Sites
  ang_corr (corr)  the Lean model of `ang.file_writer` / `ang.file_reader` vs the implementation on the same map
                   and writer keywords: (a) the written file (structured header lines, every data row as text),
                   (b) the map `io.load` returns vs the model's `readAng (writeAng …)`.
  ang_prop (prop)  the property's own predicate on the implementation alone (shape, steps, indexed pattern,
                   rotations = written 5-decimal Euler angles, chosen columns to 5 decimals of a float32, phases
                   in order with names / lattice constants / proper point groups, renumbering, sentinels, extras).
"""
from __future__ import annotations

import os
import re
import warnings
from decimal import Decimal

import numpy as np

from .. import common, sites
from ..gen import codecwire as W
from ..gen import maps as G
from ..main import lean_phase

SCALE = 100000
STD = ["iq", "ci", "detector_signal", "fit"]
KW = ["image_quality_prop", "confidence_index_prop", "detector_signal_prop", "pattern_fit_prop"]
# documented defaults (docstring of file_writer / lists in _get_prop_arrays)
EXPECTED = [["iq", "imagequality"], ["ci", "confidenceindex", "scores", "correlation"],
            ["ss", "semsignal", "detectorsignal"], ["fit", "patternfit"]]


def fval(k, nd=5):
    """the double a text token with nd decimals denotes"""
    return float(Decimal(int(k)).scaleb(-nd))


# ---------------- model input ------------------------------------------------------------
def steps_units(case):
    shape, su = case["shape"], case["steps_u"]
    if len(shape) == 2:
        return (su[0] if shape[0] > 1 else 0), (su[1] if shape[1] > 1 else 0)
    if case["axis"] == "x":
        return 0, (su[0] if shape[0] > 1 else 0)
    return (su[0] if shape[0] > 1 else 0), 0


def prop_units(pr, n):
    """per point list of the integers `%.5f` prints for the float32 column value"""
    a = np.array(pr["vals"], dtype=pr["dtype"])
    a = a.reshape((n, pr["k"])) if pr["k"] else a.reshape((n, 1))
    with np.errstate(all="ignore"):
        r = np.round(a, 5).astype(np.float32).astype(float)
    return [[G.q(v, 5) for v in row] for row in r]


def euler_units(case):
    from orix.quaternion import Rotation
    n = int(np.prod(case["shape"]))
    k = case["k"]
    eu = Rotation(np.array(case["quats"], float).reshape(n, k, 4)).to_euler()
    return [[[G.q(v, 5) for v in eu[i, j]] for j in range(k)] for i in range(n)]


def phases_public(xmap):
    out = []
    for i, p in xmap.phases:
        out.append({"id": int(i), "name": p.name, "pg": None if p.point_group is None else p.point_group.name,
                    "sg": None, "lat": [G.q(v, 3) for v in p.structure.lattice.abcABG()], "atoms": []})
    return out


def opts_tokens(o):
    return (W.t_opt(o.get("index"), W.t_int) + W.t_opt(o.get(KW[0]), W.t_str) + W.t_opt(o.get(KW[1]), W.t_str)
            + W.t_opt(o.get(KW[2]), W.t_str) + W.t_opt(o.get(KW[3]), W.t_str)
            + W.t_opt(o.get("extra_prop"), lambda xs: W.t_list(xs, W.t_str)))


def model_tokens(case, phases):
    n = int(np.prod(case["shape"]))
    oneD, nrows, ncols, full = G.view(case)
    dy, dx = steps_units(case)
    mask = [True] * n if case.get("mask") is None else case["mask"]
    eus = euler_units(case)
    pus = [prop_units(pr, n) for pr in case["props"]]
    toks = W.t_bool(oneD) + [nrows, ncols, dy, dx]
    toks += W.t_list(case["props"], lambda pr: W.t_str(pr["name"]) + W.t_bool(pr["k"] > 0))

    def pt(j):
        return (W.t_bool(mask[j]) + [case["phase_id"][j]] + W.t_list(eus[j], lambda e: list(e))
                + W.t_list(pus, lambda pu: W.t_list(pu[j], W.t_int)))

    toks += W.t_list(full, pt)
    toks += W.t_list(phases, W.t_phaseinfo)
    return toks


def ang_lines(c):
    # the phase list is part of the public state of the map that is written
    with warnings.catch_warnings():
        warnings.simplefilter("ignore")
        xmap = G.build(c)
    return [W.line("ang", opts_tokens(c["opts"]) + model_tokens(c, phases_public(xmap)))]


# ---------------- the real file ------------------------------------------------------------
def parse_ang_text(path):
    hdr, rows = [], []
    with open(path) as f:
        for line in f:
            line = line.rstrip("\n")
            if line.startswith("#"):
                body = line[1:].strip()
                toks = body.split()
                if not toks:
                    continue
                k = toks[0]
                if k == "Phase" and len(toks) == 2:
                    hdr.append({"t": "phase", "id": int(toks[1])})
                elif k == "MaterialName":
                    hdr.append({"t": "name", "toks": toks[1:]})
                elif k == "Formula":
                    hdr.append({"t": "formula", "toks": toks[1:]})
                elif k == "Symmetry":
                    hdr.append({"t": "sym", "s": toks[1]})
                elif k == "LatticeConstants":
                    hdr.append({"t": "lat", "v": [G.q(float(t), 3) for t in toks[1:]]})
                elif body.startswith("Column names:"):
                    hdr.append({"t": "cols", "names": [t.strip() for t in body.split(":", 1)[1].split(",")]})
                elif k in ("XSTEP:", "YSTEP:"):
                    hdr.append({"t": "grid", "k": k[:-1], "v": G.q(float(toks[1]), 5)})
                elif k in ("NCOLS_ODD:", "NCOLS_EVEN:", "NROWS:"):
                    hdr.append({"t": "grid", "k": k[:-1], "v": int(toks[1])})
            else:
                rows.append(line)
    return hdr, rows


def model_header(h):
    out = []
    for l in h:
        t = l["t"]
        if t in ("other", "mark"):
            continue
        if t == "phase":
            out.append({"t": t, "id": l["id"]})
        elif t in ("name", "formula"):
            out.append({"t": t, "toks": [W.s_of(x) for x in l["toks"]]})
        elif t == "sym":
            out.append({"t": t, "s": W.s_of(l["s"])})
        elif t == "lat":
            out.append({"t": t, "v": l["v"]})
        elif t == "cols":
            out.append({"t": t, "names": [W.s_of(x) for x in l["names"]]})
        elif t == "grid":
            out.append({"t": t, "k": W.s_of(l["k"]), "v": l["v"]})
    return out


def render_row(row, widths, nextra):
    w = widths
    fmt = (f"%8.5f  %8.5f  %8.5f  %{w[0]}.5f  %{w[1]}.5f  %{w[2]}.5f  %{w[3]}.5f  %2i  %{w[4]}.5f  %{w[5]}.5f"
           + "".join(f"  %{w[6 + i]}.5f" for i in range(nextra)))
    vals = [fval(v) for v in row]
    vals[7] = int(row[7])
    return fmt % tuple(vals)


NEGZERO = re.compile(r"-(0\.0+)(?![0-9])")


def norm_line(s):
    return NEGZERO.sub(lambda m: " " + m.group(1), s)


# ---------------- comparison of a loaded map with a model map ---------------------------------
def map_vs_model(y, pm, rot_tol=1e-12):
    """differences between a CrystalMap and a PMap (JSON from the driver); [] when equal"""
    from orix.quaternion import Rotation
    diffs = []
    pts = pm["pts"]
    n = len(pts)
    if y.size != n:
        return [f"loaded map has {y.size} points, model {n}"]
    for name, attr in (("x", "x"), ("y", "y")):
        exp = np.array([fval(p[attr]) for p in pts])
        got = getattr(y, attr)
        if got is None:
            if len(set(exp.tolist())) > 1:
                diffs.append(f"{name} coordinates absent but model has {sorted(set(exp.tolist()))[:4]}…")
        elif not np.array_equal(got, exp):
            i = int(np.argmax(got != exp))
            diffs.append(f"{name}[{i}] = {got[i]!r} but model {exp[i]!r}")
    ph = [int(p["ph"]) for p in pts]
    if y.phase_id.tolist() != ph:
        diffs.append(f"phase_id {y.phase_id.tolist()[:12]}… vs model {ph[:12]}…")
    eu = np.array([[fval(v) for v in p["eu"]] for p in pts]).reshape(n, 3)
    if pm["deg"]:
        eu = np.deg2rad(eu)
    exp_q = Rotation.from_euler(eu).data
    got_q = y.rotations.data.reshape(n, -1)
    # as rotations: q and -q are the same rotation (eu2qu makes the scalar part non-negative; for a scalar part within
    # rounding of zero the sign depends on the last bit of the angles, e.g. after a float32 round trip of a vendor file)
    if got_q.shape != exp_q.shape or (n and np.minimum(np.abs(got_q - exp_q).max(axis=1),
                                                       np.abs(got_q + exp_q).max(axis=1)).max() > rot_tol):
        diffs.append("rotations differ from from_euler(model Euler angles)")
    names = [W.s_of(s) for s in pm["props"]]
    if list(y.prop.keys()) != names:
        diffs.append(f"property names {list(y.prop.keys())} vs model {names}")
    else:
        for k, nm in enumerate(names):
            exp = np.array([fval(p["v"][k]) for p in pts])
            got = np.asarray(y.prop[nm], float)
            if not np.array_equal(got, exp):
                i = int(np.argmax(got != exp))
                diffs.append(f"prop {nm}[{i}] = {got[i]!r} but model {exp[i]!r}")
    got_ph = [(int(i), p.name, None if p.point_group is None else p.point_group.name,
               [round(float(v), 9) for v in p.structure.lattice.abcABG()]) for i, p in y.phases]
    exp_ph = []
    for p in pm["phases"]:
        lat = [round(fval(v, 3), 9) for v in p["lat"]] if p["lat"] else [1.0, 1.0, 1.0, 90.0, 90.0, 90.0]
        exp_ph.append((int(p["id"]), W.s_of(p["name"]), W.s_of(p["pg"]), lat))
    if got_ph != exp_ph:
        diffs.append(f"phases {got_ph} vs model {exp_ph}")
    if y.scan_unit != W.s_of(pm["unit"]):
        diffs.append(f"scan unit {y.scan_unit!r} vs model {W.s_of(pm['unit'])!r}")
    return diffs


def save_load(ctx, c, xmap):
    from orix import io
    path = os.path.join(ctx.scratch, f"m{os.getpid()}.ang")
    kw = {k: v for k, v in c["opts"].items() if v is not None}
    with warnings.catch_warnings(record=True) as wl:
        warnings.simplefilter("always")
        io.save(path, xmap, overwrite=True, **kw)
        y = io.load(path)
    warned = any("Number of columns" in str(w.message) for w in wl)
    return path, y, warned


def ang_corr_check(ctx, c, outs):
    res = W.parse(outs[0])
    with warnings.catch_warnings():
        warnings.simplefilter("ignore")
        xmap = G.build(c)
    try:
        path, y, warned = save_load(ctx, c, xmap)
    except Exception as e:
        # model: the writer raises; implementation: raises -> agreement.  Otherwise the crash is a failing input
        # of the property itself and is reported (once) by the ang_prop site on the same case.
        key = "impl-raises/model-raises" if "err" in res else "impl-raises (reported by ang_prop)"
        ctx.strata[key] = ctx.strata.get(key, 0) + 1
        return None
    try:
        if "err" in res:
            return f"model says the writer raises ({res['err']}) but the implementation wrote a file"
        f = res["file"]
        hdr, rows = parse_ang_text(path)
        mh = model_header(f["header"])
        if hdr != mh:
            d = next((i for i, (a, b) in enumerate(zip(hdr, mh)) if a != b), min(len(hdr), len(mh)))
            return (f"written header differs from the model at structured line {d}: "
                    f"{hdr[d] if d < len(hdr) else None} vs {mh[d] if d < len(mh) else None}")
        nextra = f["ncols"] - 10
        if len(rows) != len(f["rows"]):
            return f"file has {len(rows)} data rows, model {len(f['rows'])}"
        for i, (got, mr) in enumerate(zip(rows, f["rows"])):
            exp = render_row(mr, f["widths"], nextra)
            if norm_line(got) != norm_line(exp):
                return f"data row {i}: file {got!r} vs model {exp!r}"
        if res["read"] is None:
            return "model reader fails on the model writer's file but the implementation loads it"
        if warned != res["read"]["warned"]:
            return f"column-count warning: implementation {warned}, model {res['read']['warned']}"
        d = map_vs_model(y, res["read"]["map"])
        if d:
            return "loaded map vs model readAng(writeAng): " + "; ".join(d[:3])
        if res["spec"] is not None and res["read"]["map"] != res["spec"]:
            ctx.strata["model:read!=spec (outside WF)"] = ctx.strata.get("model:read!=spec (outside WF)", 0) + 1
        else:
            ctx.strata["model:read==spec"] = ctx.strata.get("model:read==spec", 0) + 1
        return None
    finally:
        try:
            os.remove(path)
        except OSError:
            pass


# ---------------- the property on the implementation --------------------------------------
def chosen_prop(c, slot):
    """name of the map property the writer must use for standard column `slot` (docstring rule), or None"""
    kw = c["opts"].get(KW[slot])
    if kw:
        return kw
    names = [p["name"] for p in c["props"]]
    lower = [n.lower().replace("_", "") for n in names]
    for k in EXPECTED[slot]:
        if k in lower:
            return names[lower.index(k)]
    return None


def ang_prop_check(ctx, c, outs):
    from orix.quaternion import Rotation
    with warnings.catch_warnings():
        warnings.simplefilter("ignore")
        xmap = G.build(c)
    path, y, warned = save_load(ctx, c, xmap)
    try:
        os.remove(path)
    except OSError:
        pass
    if warned:
        return "loading orix's own .ang file issues the unexpected-number-of-columns warning"
    shape_msg = None
    if tuple(y.shape) != tuple(xmap.shape):
        squeezed = tuple(d for d in xmap.shape if d != 1)
        if len(xmap.shape) == 2 and 1 in xmap.shape and xmap.size > 1 and tuple(y.shape) == squeezed:
            # known finding C14-singleton-extent: reported only if nothing else is wrong (everything else is still checked)
            shape_msg = (f"shape {tuple(xmap.shape)} came back as {tuple(y.shape)}: a 2-D map whose in-data extent is a single "
                         f"row or column comes back 1-D, without the step size along the lost axis")
        else:
            return f"shape {tuple(xmap.shape)} came back as {tuple(y.shape)}"
    for a, ax in (("dx", 1), ("dy", 0)):
        if shape_msg is not None and xmap.shape[ax] == 1:
            continue                                       # the step along the lost axis belongs to the same finding
        if abs(float(getattr(y, a)) - float(getattr(xmap, a))) > 1e-9:
            return f"step size {a} = {getattr(xmap, a)} came back as {getattr(y, a)}"
    n = int(np.prod(c["shape"]))
    oneD, nrows, ncols, full = G.view(c)
    mask = np.ones(n, bool) if c.get("mask") is None else np.array(c["mask"], bool)
    pid = np.array(c["phase_id"])
    indexed = np.array([bool(mask[j]) and pid[j] != -1 for j in full])
    if y.is_indexed.tolist() != indexed.tolist():
        return f"indexed pattern {indexed.astype(int).tolist()} came back as {y.is_indexed.astype(int).tolist()}"
    index = c["opts"].get("index")
    k = c["k"]
    R = Rotation(np.array(c["quats"], float).reshape(n, k, 4))
    layer = R[:, index if index is not None else 0]
    written = np.round(layer.to_euler(), 5)[full]
    got = y.rotations
    exp = Rotation.from_euler(written)
    ang = 2 * np.arctan2(np.linalg.norm((~exp * got).data[..., 1:], axis=-1), np.abs((~exp * got).data[..., 0]))
    bad = np.nonzero(indexed & (ang > 1e-7))[0]
    if bad.size:
        return f"rotation of point {int(bad[0])} differs from its written 5-decimal Euler angles by {ang[bad[0]]:.2e} rad"
    # chosen property columns, to 5 decimals of a float32
    names = list(y.prop.keys())
    extras = c["opts"].get("extra_prop") or []
    if names != STD + list(extras):
        return f"property columns came back as {names}, expected {STD + list(extras)}"
    srcs = [chosen_prop(c, s) for s in range(4)] + list(extras)
    by_name = {p["name"]: p for p in c["props"]}
    for nm, src in zip(names, srcs):
        gotv = np.asarray(y.prop[nm], float)
        if src is None:
            expv = np.zeros(len(full))
        else:
            pr = by_name[src]
            a = np.array(pr["vals"], dtype=pr["dtype"]).astype(float)
            a = a.reshape(n, pr["k"])[:, (index or 0)] if pr["k"] else a
            expv = a[full]
        tol = 0.5e-5 + 1e-9 + 2.0 ** -23 * np.abs(expv)
        bad = np.nonzero(indexed & (np.abs(gotv - expv) > tol))[0]
        if bad.size:
            i = int(bad[0])
            return f"column {nm} (from {src}) at point {i}: {expv[i]!r} came back as {gotv[i]!r}"
    # sentinels of not-indexed points
    ni = ~indexed
    if ni.any():
        if not np.all(y.phase_id[ni] == -1):
            return "a not-indexed point came back with a phase id other than -1"
        sent = {"iq": 0.0, "ci": -1.0, "detector_signal": 0.0, "fit": 180.0}
        for nm in names:
            v = sent.get(nm, 0.0)
            if not np.all(np.asarray(y.prop[nm], float)[ni] == v):
                return f"not-indexed points carry {nm} = {np.asarray(y.prop[nm])[ni][:3].tolist()}, documented {v}"
        e = y.rotations[ni].to_euler()
        if not np.allclose(Rotation.from_euler(np.full((1, 3), round(4 * np.pi, 5))).data, y.rotations[ni].data, atol=1e-12):
            return f"not-indexed points do not carry Euler angles 4π: {e[:2].tolist()}"
    # phases: same order, names, lattice constants (3 decimals), proper point groups; ids 1..n
    orig = [(i, p) for i, p in xmap.phases if i != -1]
    back = [(i, p) for i, p in y.phases if i != -1]
    dropped_msg = None
    if len(orig) != len(back):
        # known finding: a phase without a point in the written data is dropped on load.  Everything ELSE is still
        # checked (remaining phases keep their position-based ids, points keep their phase) and reported first.
        used = {int(pid[j]) for j in full if mask[j] and pid[j] != -1}
        kept = [(k + 1, i0, p0) for k, (i0, p0) in enumerate(orig) if i0 in used]
        if len(kept) != len(back) or len(kept) == len(orig):
            return f"{len(orig)} phases {[p.name for _, p in orig]} came back as {len(back)} {[p.name for _, p in back]}"
        dropped_msg = (f"unused phase dropped: {len(orig)} phases {[p.name for _, p in orig]} came back as {len(back)} "
                       f"{[p.name for _, p in back]}")
        if [i for i, _ in back] != [k for k, _, _ in kept]:
            return f"phase ids came back as {[i for i, _ in back]}, expected {[k for k, _, _ in kept]} (position in the written list)"
        orig_cmp = [(i0, p0) for _, i0, p0 in kept]
    else:
        orig_cmp = orig
        if [i for i, _ in back] != list(range(1, len(back) + 1)):
            return f"phase ids came back as {[i for i, _ in back]}, expected 1..{len(back)} in list order"
    for (i0, p0), (i1, p1) in zip(orig_cmp, back):
        if p0.name != p1.name and not (p0.name == "" and p1.name == f"phase{i1}"):
            return f"phase name {p0.name!r} came back as {p1.name!r}"
        if np.abs(np.array(p0.structure.lattice.abcABG()) - np.array(p1.structure.lattice.abcABG())).max() > 5.0001e-4:
            return f"lattice constants of {p0.name} came back as {p1.structure.lattice.abcABG()}"
        pp0 = "1" if p0.point_group is None else p0.point_group.proper_subgroup.name
        pp1 = None if p1.point_group is None else p1.point_group.proper_subgroup.name
        if pp0 != pp1:
            return f"proper point group {pp0} of {p0.name} came back as {pp1}"
    # renumbering follows list order: the point's phase is the same phase
    order = {i0: k + 1 for k, (i0, _) in enumerate(orig)}
    exp_ids = [order.get(int(pid[j]), -1) if (mask[j] and pid[j] != -1) else -1 for j in full]
    if y.phase_id.tolist() != exp_ids:
        return f"phase ids {exp_ids[:12]}… came back as {y.phase_id.tolist()[:12]}…"
    return shape_msg or dropped_msg


SITES = {
    "ang_corr": sites.Site("ang_corr", "corr", ang_corr_check, ang_lines),
    "ang_prop": sites.Site("ang_prop", "prop", ang_prop_check),
}


# ---------------- known-finding classifiers (narrow) ------------------------------------------
def _n_in_data(c):
    n = int(np.prod(c["shape"]))
    return n if c.get("mask") is None else int(np.sum(c["mask"]))


def pred_single_point(c):
    return int(np.prod(c["shape"])) == 1


def pred_column_map(c):
    dy, dx = steps_units(c)
    oneD = G.view(c)[0]
    return oneD and dx == 0 and int(np.prod(c["shape"])) > 1


def pred_multiword_name(c):
    return any(len(p["name"].split()) > 1 for p in c["phases"])


def pred_unused_phase(c, what=""):
    return str(what).startswith("unused phase dropped") and has_unused_phase(c)


def has_unused_phase(c):
    n = int(np.prod(c["shape"]))
    mask = [True] * n if c.get("mask") is None else c["mask"]
    pts = [j for j in G.view(c)[3] if mask[j]]
    used = {c["phase_id"][j] for j in pts}
    return any(p["id"] not in used for p in c["phases"])


def pred_extra_prop_name(c):
    ex = c["opts"].get("extra_prop") or []
    return any((" " in e) or ("," in e) or (":" in e) or e in STD or e in ("x", "y", "prop", "phase_id") for e in ex)


def pred_nan_or_bool_property(c):
    return any(p["dtype"] == "bool" or any(isinstance(v, float) and v != v for v in p["vals"]) for p in c["props"])


def pred_singleton_extent(c, what=None):
    """finding C14-singleton-extent: a 2-D grid whose in-data mask leaves a single row or a single column (more than one point)"""
    if len(c["shape"]) != 2 or c.get("mask") is None or "single row or column comes back 1-D" not in (what or ""):
        return False
    m = np.array(c["mask"], bool).reshape(tuple(c["shape"]))
    rows, cols = np.nonzero(m.any(axis=1))[0], np.nonzero(m.any(axis=0))[0]
    if not len(rows):
        return False
    ext = (rows.max() - rows.min() + 1, cols.max() - cols.min() + 1)
    return 1 in ext and max(ext) > 1


PREDICATES = {"singleton_extent": pred_singleton_extent, "unused_phase": pred_unused_phase, "extra_prop_name": pred_extra_prop_name,
              "nan_or_bool_property": pred_nan_or_bool_property, "single_point": pred_single_point,
              }


# ---------------- generation ---------------------------------------------------------------
def rand_opts(rng, c, subset):
    """writer keywords: `subset` is a 6-bit mask over (index, iq, ci, ds, fit, extra)"""
    names = [p["name"] for p in c["props"]]
    o = {"index": None, KW[0]: None, KW[1]: None, KW[2]: None, KW[3]: None, "extra_prop": None}
    if subset & 1 and c["k"] > 1:
        o["index"] = int(rng.integers(-c["k"], c["k"]))
    for b in range(4):
        if subset & (2 << b) and names:
            o[KW[b]] = names[int(rng.integers(len(names)))]
    # extra columns called like a standard column would collide with it in the reader's dict (outside the model)
    free = [nm for nm in names if nm not in STD]
    if subset & 32 and free:
        m = int(rng.integers(1, min(3, len(free)) + 1))
        o["extra_prop"] = [free[i] for i in rng.permutation(len(free))[:m]]
    return o


PROP_POOL = ["iq", "ci", "fit", "dp", "Image_Quality", "scores", "detector_signal", "Pattern_Fit", "osm", "mad",
             "correlation", "SEM_signal", "ss", "ConfidenceIndex", "kam"]


def rand_props(rng, k):
    m = int(rng.integers(0, 5))
    names = [PROP_POOL[i] for i in rng.permutation(len(PROP_POOL))[:m]]
    # do not offer two names that normalise to the same key (the writer's choice is then by dict order; still fine)
    out = []
    for nm in names:
        dtype = ["float64", "float32", "int64", "uint8", "float64"][int(rng.integers(5))]
        pk = k if (k > 1 and rng.random() < 0.5) else 0
        out.append((nm, dtype, pk))
    return out


def finish_case(rng, c, subset):
    # ci == -1 at an indexed point is the format's own not-indexed marker: keep generated values away from it
    for pr in c["props"]:
        if pr["dtype"].startswith("int"):
            pr["vals"] = [v if v != -1 else -2 for v in pr["vals"]]
    c["opts"] = rand_opts(rng, c, subset)
    if not c.get("keep_unused_phase"):
        # every phase of the list keeps at least one indexed point in the written view (a phase without points is
        # dropped by CrystalMap.__init__ on load: separate stratum, see known findings)
        n = int(np.prod(c["shape"]))
        mask = [True] * n if c.get("mask") is None else c["mask"]
        pts = [j for j in G.view(c)[3] if mask[j]]
        ids = [p["id"] for p in c["phases"]]
        if len(pts) >= len(ids):
            for t, pid in enumerate(ids):
                if not any(c["phase_id"][j] == pid for j in pts):
                    # take a point whose phase occurs more than once
                    for j in pts:
                        if sum(1 for i in pts if c["phase_id"][i] == c["phase_id"][j]) > 1 or c["phase_id"][j] == -1:
                            c["phase_id"][j] = pid
                            break
    return c


def generate(ctx):
    rng = ctx.rng
    quick = ctx.tier == "quick"
    reps = 4 if quick else 24
    pg_cycle = 0
    subset = 0

    def emit(stratum, c):
        nonlocal subset
        c = finish_case(rng, c, subset % 64)
        subset += 1
        n = int(np.prod(c["shape"]))
        ctx.count(f"{stratum}", ("c14", c["shape"], c["phase_id"], c["opts"], c["quats"][:2]), nontrivial=n > 1)
        ctx.sample({"site": "ang_corr", "shape": c["shape"], "axis": c["axis"], "steps_u": c["steps_u"],
                    "phases": [(p["id"], p["name"], p["pg"], p["sg"]) for p in c["phases"]], "opts": c["opts"],
                    "props": [(p["name"], p["dtype"], p["k"]) for p in c["props"]],
                    "n_masked": 0 if c["mask"] is None else int(n - sum(c["mask"]))}, cap=4)
        yield "ang_corr", c
        yield "ang_prop", c

    for _ in range(reps):
        # 2-D grids, 1-3 phases, point groups cycled through all names
        for nph in (1, 2, 3):
            for rep in range(6 if quick else 12):
                shape = [int(rng.integers(2, 8)), int(rng.integers(2, 8))]
                pool = [G.GROUP_NAMES[(pg_cycle + i) % len(G.GROUP_NAMES)] for i in range(3)]
                pg_cycle += 3
                k = int(rng.choice([1, 1, 2, 3, 4]))
                c = G.grid_case(rng, shape, nphases=nph, not_indexed=float(rng.choice([0, 0, 0.15, 0.4])), k=k,
                                props=rand_props(rng, k), pg_pool=pool, with_structure=False,
                                ids=None if rng.random() < 0.6 else sorted(int(x) for x in rng.choice(9, nph, replace=False)))
                yield from emit(f"grid2d/{nph}ph/k{min(k, 2)}", c)
        # masks: random, rectangular sub-box, rows/cols removed
        for rep in range(10 if quick else 20):
            shape = [int(rng.integers(3, 8)), int(rng.integers(3, 8))]
            n = shape[0] * shape[1]
            kind = ["random", "box", "random"][rep % 3]
            if kind == "random":
                m = rng.random(n) < 0.7
                if m.sum() < 2:
                    m[:2] = True
            else:
                mm = np.zeros(shape, bool)
                r0, c0 = int(rng.integers(0, shape[0] - 1)), int(rng.integers(0, shape[1] - 1))
                mm[r0:r0 + int(rng.integers(2, shape[0] - r0 + 1)), c0:c0 + int(rng.integers(2, shape[1] - c0 + 1))] = True
                m = mm.ravel()
            k = int(rng.choice([1, 2]))
            c = G.grid_case(rng, shape, nphases=int(rng.integers(1, 4)), not_indexed=float(rng.choice([0, 0.2])),
                            mask=m, k=k, props=rand_props(rng, k), with_structure=False)
            # every phase must keep an indexed point in the view (else the phase is unused, see known findings)
            yield from emit(f"mask/{kind}", c)
        # 1-D maps along x, single-row 2-D grids, large coordinates
        for rep in range(8 if quick else 16):
            n = int(rng.integers(4, 14))
            kind = rep % 4
            if kind == 0:
                c = G.grid_case(rng, [n], axis="x", nphases=int(rng.integers(1, 3)), props=rand_props(rng, 1),
                                not_indexed=float(rng.choice([0, 0.2])), with_structure=False)
            elif kind == 1:
                c = G.grid_case(rng, [1, n], nphases=int(rng.integers(1, 3)), props=rand_props(rng, 1),
                                with_structure=False)
            elif kind == 2:
                c = G.grid_case(rng, [int(rng.integers(2, 4)), n], steps_u=[int(rng.choice([1000000, 99999900])),
                                                                          int(rng.choice([10000000, 123456700]))],
                                nphases=2, props=[("iq", "float64", 0), ("fit", "float64", 0)], with_structure=False)
                c["props"][0] = G.prop(rng, "iq", "float64", int(np.prod(c["shape"])), 0, kind="large")
            else:
                c = G.grid_case(rng, [n], axis="x", steps_u=[int(rng.choice([100000000, 5]))], nphases=1,
                                props=rand_props(rng, 1), with_structure=False)
            yield from emit(f"oned_x_or_row/{kind}", c)
        # column maps (1-D along y)
        for rep in range(3 if quick else 6):
            n = int(rng.integers(4, 9))
            c = G.grid_case(rng, [n, 1] if rep % 2 else [n], axis="y", nphases=1, with_structure=False)
            yield from emit("oned_y/column_map", c)
        # tiny maps: one point (known: crash), two or three points, three points of a larger map in the data
        for shape in ([1], [1, 1]):
            c = G.grid_case(rng, shape, nphases=1, with_structure=False)
            yield from emit("known/single_point", c)
        for shape in ([2], [3], [1, 2], [1, 3], [2, 1]):
            c = G.grid_case(rng, shape, nphases=1, with_structure=False, props=rand_props(rng, 1))
            yield from emit("tiny/column_map" if shape == [2, 1] else "tiny/two_or_three_points", c)
        for rep in range(2):
            shape = [3, 3]
            m = np.zeros(9, bool)
            m[rng.permutation(9)[:3]] = True
            c = G.grid_case(rng, shape, nphases=1, mask=m, with_structure=False, props=rand_props(rng, 1))
            yield from emit("tiny/three_points_in_data", c)
        # a 2-D grid whose in-data mask leaves one row / one column (known: comes back 1-D, finding C14-singleton-extent)
        for rep in range(2):
            shape = [3, 4]
            mm = np.zeros(shape, bool)
            if rep == 0:
                mm[int(rng.integers(3)), :] = True
            else:
                mm[:, int(rng.integers(4))] = True
            c = G.grid_case(rng, shape, nphases=1, mask=mm.ravel(), with_structure=False, props=rand_props(rng, 1))
            yield from emit("known/singleton_extent", c)
        # multi-word phase names
        for rep in range(2 if quick else 4):
            c = G.grid_case(rng, [3, 4], nphases=2, with_structure=False)
            c["phases"][0]["name"] = ["Iron fcc", "Iron Titanium Oxide", "alpha Ti"][rep % 3]
            yield from emit("phase/multiword_name", c)
        # a phase of the list without any point in the written data (known: dropped on load)
        for rep in range(2 if quick else 4):
            c = G.grid_case(rng, [3, 4], nphases=3, with_structure=False)
            c["phase_id"] = [p if p != c["phases"][1]["id"] else c["phases"][0]["id"] for p in c["phase_id"]]
            c["mask"] = [True] * 11 + [False]
            c["phase_id"][11] = c["phases"][1]["id"]
            c["keep_unused_phase"] = True
            yield from emit("known/unused_phase", c)
        # extra property names the `Column names:` line cannot carry (known: altered, lost or crash)
        for nm, both in (("my prop", True), (" lead", False), ("a,b", False), ("a:b", False), ("iq", False)):
            c = G.grid_case(rng, [2, 3], nphases=1, with_structure=False,
                            props=[(nm, "float64", 0)] + ([("dp", "float64", 0)] if nm == "iq" else []))
            c = finish_case(rng, c, 0)
            c["opts"]["extra_prop"] = [nm]
            if nm == "iq":
                c["opts"]["image_quality_prop"] = "dp"
            ctx.count("known/extra_prop_name", ("c14x", nm))
            if both:
                yield "ang_corr", c
            yield "ang_prop", c
        # NaN values / boolean properties (known: the writer raises)
        for kind in ("nan", "bool"):
            c = G.grid_case(rng, [2, 3], nphases=1, with_structure=False,
                            props=[("iq", "float64", 0)] if kind == "nan" else [("flag", "bool", 0)])
            c = finish_case(rng, c, 0)
            if kind == "nan":
                c["props"][0]["vals"][0] = float("nan")
            else:
                c["opts"]["extra_prop"] = ["flag"]
            ctx.count("known/nan_or_bool_property", ("c14n", kind))
            yield "ang_prop", c
        # phases without point group / with space group
        for rep in range(4 if quick else 8):
            c = G.grid_case(rng, [3, 5], nphases=2, with_structure=False, not_indexed=0.2 * (rep % 2))
            c["phases"][0]["pg"] = None
            c["phases"][0]["sg"] = None if rep % 2 else int(rng.integers(1, 231))
            yield from emit("phase/no_point_group_or_space_group", c)


def run(ctx, status):
    from ..extract import gen
    io_status = gen.regen_io()
    if "__crash__" in io_status:
        ctx.fail("tgen:io_tables", io_status["__crash__"], {"stage": "I/O table extraction"}, found_input=False, kind="obligation")
        io_status = {}
    for k, v in io_status.items():
        if v not in ("extracted", "extracted (ast)", "extracted (ast+exec agree)") and k.startswith(("ang.", "symmetry.")):
            ctx.note(f"T-gen: {k} {v}")
    ctx.extra["tgen_io_tables"] = {k: v for k, v in io_status.items() if k.startswith(("ang.", "symmetry."))}
    driver_ok = lean_phase(ctx, status, ["OrixProofs.Properties.C14"])
    if ctx.replay:
        site, case, body = sites.load_replay(ctx.replay)
        if site in SITES:
            sites.run_cases(ctx, SITES, [(site, case)], driver_ok)
    else:
        sites.run_cases(ctx, SITES, generate(ctx), driver_ok)
    return common.finish(
        ctx, "proof", PREDICATES,
        rule="seeded stratified maps built through the public API (2-D grids 2..7 x 2..7, 1-D along x, single-row "
             "grids, column maps, <=3 points, coordinates up to 1e5 (column widths), 1-3 phases with ids in list "
             "order cycling through all 38 point-group names / space groups / no symmetry, not-indexed fractions, "
             "random and rectangular masks, 0-4 properties of several dtypes and 1 or k values per point, k=1..4 "
             "rotations per point with any layer index incl. negative, all 64 subsets of the writer keywords in "
             "rotation); non-trivial = more than one point; distinct by hash of shape, ids, options, rotations",
        assumptions=["the theorems are about the format model (AngFile records, integers in units of 1e-5); numpy's "
                     "decimal formatting/parsing (savetxt/loadtxt) and the text rendering of header lines are outside "
                     "them and exercised by the correspondence check, which compares every written data row as text",
                     "the view of the map the writer sees (in-data extent, row-major) is computed by the harness from "
                     "the generation parameters; CrystalMap.get_map_data itself belongs to C11",
                     "Euler angles written are taken from Rotation.to_euler (C01); C14 demands equality with the "
                     "written angles only"])
