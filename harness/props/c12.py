"""C12 — crystal-map phase bookkeeping stays consistent."""
from __future__ import annotations

import copy
import warnings

import numpy as np

from .. import common, sites
from ..gen import xmap as G
from ..main import lean_phase
from . import xmap_views
from .c11 import try_, lst, shrink_history

SG = [225, 229, 194, 62, 2, 221]


# ---------------------------------------------------------------------------------------------------
# orix objects from a case
# ---------------------------------------------------------------------------------------------------
def mk_struct(tag):
    from diffpy.structure import Lattice, Structure
    return Structure(lattice=Lattice(1 + tag, 1, 1, 90, 90, 90))


def mk_phase(p):
    from orix.crystal_map import Phase
    name, sym, tag = p
    return Phase(name=name, point_group=sym, structure=mk_struct(tag))


def sg_label(n):
    from orix.crystal_map import Phase
    return None if n is None else Phase(space_group=n).point_group.name


def mk_phase_list(pl):
    from orix.crystal_map import PhaseList
    f = pl["form"]
    if f == "none":
        return None
    if f == "L":
        return PhaseList([mk_phase(p) for p in pl["phases"]], ids=pl["ids"])
    if f == "D":
        return PhaseList({e[0]: mk_phase(e[1:]) for e in pl["entries"]})
    if f == "S":
        return PhaseList(mk_phase(pl["phase"]), ids=pl["id"])
    st = None if pl["tags"] is None else [mk_struct(t) for t in pl["tags"]]
    return PhaseList(names=pl["names"], space_groups=pl["sgs"], point_groups=pl["pgs"], ids=pl["ids"], structures=st)


def entries_of(pl):
    out = []
    for i, p in pl:
        out.append((int(i), p.name, None if p.point_group is None else p.point_group.name,
                    int(round(p.structure.lattice.a)) - 1))
    return out


def show_entries(es):
    return G.enc_entries(es)


def enc_plform(pl):
    f = pl["form"]
    if f == "none":
        return "none"
    if f == "L":
        ps = "&".join(G.enc_phase(*p) for p in pl["phases"]) if pl["phases"] else "-"
        return f"L@{ps}@{'N' if pl['ids'] is None else G.ints(pl['ids'])}"
    if f == "D":
        return "D@" + G.enc_entries([tuple(e) for e in pl["entries"]])
    if f == "S":
        return f"S@{G.enc_phase(*pl['phase'])}@{'N' if pl['id'] is None else pl['id']}"

    def ol(l, conv=lambda v: "" if v is None else str(v)):
        return "N" if l is None else "=" + "&".join(conv(v) for v in l)
    return "K@" + "@".join([ol(pl["names"]), ol(None if pl["sgs"] is None else [sg_label(n) for n in pl["sgs"]]),
                            ol(pl["pgs"]), ol(pl["ids"]), ol(pl["tags"])])


def enc_val(v):
    return "s" + str(v["s"]) if "s" in v else "a" + G.ints(v["a"])


def py_val(v):
    """the assigned value as the caller passes it: a Python int, or a numpy array / Python list / tuple of ints"""
    if "s" in v:
        return v["s"]
    if v.get("as") == "list":
        return [int(x) for x in v["a"]]
    if v.get("as") == "tuple":
        return tuple(int(x) for x in v["a"])
    return np.array(v["a"], dtype=int)


def enc_gkey(k):
    t = k["t"]
    if t == "id":
        return f"i{k['v']}"
    if t == "name":
        return "n" + k["v"]
    if t == "ids":
        return "J" + G.ints(k["v"])
    if t == "names":
        return "M" + ";".join(k["v"])
    return "S" + ":".join("" if v is None else str(v) for v in k["v"])


def py_gkey(k):
    t = k["t"]
    if t in ("id", "name"):
        return k["v"]
    if t in ("ids", "names"):
        a = k.get("as", "list")
        return list(k["v"]) if a == "list" else tuple(k["v"]) if a == "tuple" else np.array(k["v"])
    return slice(*k["v"])


def enc_op(o):
    n = o["op"]
    if n == "sel":
        return f"sel@{o['v']}@{G.enc_key(o['key'])}"
    if n == "pid":
        return f"pid@{o['v']}@{enc_val(o['val'])}"
    if n == "prop":
        return f"prop@{o['v']}@{o['name']}@{enc_val(o['val'])}"
    if n == "add":
        return "add@" + "&".join(G.enc_phase(*p) for p in o["phases"])
    if n == "deli":
        return f"deli@{o['id']}"
    if n == "deln":
        return "deln@" + o["name"]
    if n in ("ani", "sort"):
        return n
    return "get@" + enc_gkey(o["k"])


def case_line(c):
    return " ".join(["xmap", "c12", str(c["ny"]), str(c["nx"]), G.ints(c["pid"]), G.bits(c["mask"]),
                     G.enc_props(c["props"]), enc_plform(c["pl"])] + [enc_op(o) for o in c["ops"]])


def build(c):
    from orix.crystal_map import CrystalMap
    from orix.quaternion import Rotation
    n = c["ny"] * c["nx"]
    x = np.tile(np.arange(c["nx"]), c["ny"])
    y = np.repeat(np.arange(c["ny"]), c["nx"])
    pl = mk_phase_list(c["pl"])
    before = None if pl is None else entries_of(pl)
    kw = {} if all(c["mask"]) else {"is_in_data": np.array(c["mask"], bool)}
    xm = CrystalMap(point_rotations(n, c.get("rpp", 1)), phase_id=np.array(c["pid"]), x=x, y=y, phase_list=pl,
                    prop={k: np.array(v) for k, v in c["props"].items()}, **kw)
    return xm, pl, before


def point_rotation_data(ids, k=0):
    """the quaternion of rotation number `k` of the points `ids`: a rotation about z by 0.01 (1 + 4 id + k) rad"""
    a = 0.01 * (1 + 4 * np.asarray(ids, float) + k)
    return np.stack([np.cos(a / 2), 0 * a, 0 * a, np.sin(a / 2)], axis=-1)


def point_rotations(n, rpp):
    """`rpp` distinguishable rotations per point (shape (n,) for one, (n, rpp) otherwise)"""
    from orix.quaternion import Rotation
    if rpp == 1:
        return Rotation(point_rotation_data(np.arange(n)))
    return Rotation(np.stack([point_rotation_data(np.arange(n), k) for k in range(rpp)], axis=1))


def apply_op(xm, views, o):
    """returns (ret, err) of one operation on the orix objects"""
    n = o["op"]
    if n == "sel":
        if o["v"] >= len(views):
            return None, "bad-view"
        r, e = try_(lambda: views[o["v"]][G.py_key(o["key"])])
        if e is None:
            views.append(r)
        return None, e
    if n == "pid":
        if o["v"] >= len(views):
            return None, "bad-view"

        def f():
            views[o["v"]].phase_id = py_val(o["val"])
        return None, try_(f)[1]
    if n == "prop":
        if o["v"] >= len(views):
            return None, "bad-view"

        def f():
            views[o["v"]].prop[o["name"]] = py_val(o["val"])
        return None, try_(f)[1]
    if n == "add":
        ps = [mk_phase(p) for p in o["phases"]]
        if o.get("as_phase_list") and len({p.name for p in ps}) == len(ps):
            # the phases handed over as a PhaseList object (its own ids are ignored by `add`, like those of a list)
            from orix.crystal_map import PhaseList
            arg = PhaseList(ps)
        else:
            arg = ps[0] if len(ps) == 1 and o.get("bare") else ps
        return None, try_(lambda: xm.phases.add(arg))[1]
    if n == "deli":
        def f():
            del xm.phases[o["id"]]
        return None, try_(f)[1]
    if n == "deln":
        def f():
            del xm.phases[o["name"]]
        return None, try_(f)[1]
    if n == "ani":
        return None, try_(lambda: xm.phases.add_not_indexed())[1]
    if n == "sort":
        return None, try_(lambda: xm.phases.sort_by_id())[1]
    from orix.crystal_map import Phase
    r, e = try_(lambda: xm.phases[py_gkey(o["k"])])
    if e is not None:
        return None, e
    if isinstance(r, Phase):
        p = r
        return [(None, p.name, None if p.point_group is None else p.point_group.name,
                 int(round(p.structure.lattice.a)) - 1)], None
    return entries_of(r), None


def observe(xm, views):
    d = {"phases": entries_of(xm.phases), "pid": [int(v) for v in xm._phase_id],
         "props": {k: [int(v) for v in dict.__getitem__(xm._prop, k)] for k in xm._prop.keys()}, "views": []}
    for v in views:
        pin, e1 = try_(lambda: entries_of(v.phases_in_data))

        def osym():
            try:
                return "s" + v.orientations.symmetry.name
            except TypeError as ex:
                if "must be an instance of" in str(ex):
                    return "N"      # the single phase has no point group
                raise
        osy, e2 = try_(osym)
        d["views"].append(([int(i) for i in v.id], [int(i) for i in v.phase_id],
                           "!" + e1 if e1 else show_entries(pin), "!" + e2 if e2 else osy))
    return d


def parse_obs(s):
    d = {"views": [], "props": {}}
    for f in s.split(";"):
        k, _, v = f.partition("=")
        if k == "V":
            a, b, cc, dd = v.split("^")
            d["views"].append((lst(a), lst(b), cc, dd))
        elif k.startswith("P"):
            d["props"][k[1:]] = lst(v)
        else:
            d[k] = v
    return d


def compare(o, m, where):
    if show_entries(o["phases"]) != m["phases"]:
        return f"{where}: xmap.phases (id~name~point group~tag) orix {show_entries(o['phases'])} model {m['phases']}"
    if o["pid"] != lst(m["pid"]):
        return f"{where}: _phase_id orix {o['pid']} model {m['pid']}"
    if o["props"] != m["props"]:
        return f"{where}: properties orix {o['props']} model {m['props']}"
    if len(o["views"]) != len(m["views"]):
        return f"{where}: number of selections orix {len(o['views'])} model {len(m['views'])}"
    for j, (a, b) in enumerate(zip(o["views"], m["views"])):
        if tuple(a) != tuple(b):
            return f"{where}: selection {j} (ids, phase_id, phases_in_data, orientations symmetry) orix {a} model {b}"
    return None


def run_case(c, out_line):
    """correspondence of a whole history; returns (text | None, failing step | None)"""
    obs = out_line.split(" | ")
    if out_line.startswith("!err") or len(obs) != len(c["ops"]) + 1:
        return f"driver answered {out_line[:150]}", None
    with warnings.catch_warnings():
        warnings.simplefilter("ignore")
        r, e = try_(lambda: build(c))
        m0 = parse_obs(obs[0])
        if e is not None or m0.get("C", "").startswith("!"):
            if "!" + str(e) != m0.get("C"):
                return f"constructor: orix {'raises ' + e if e else 'ok'} model {m0.get('C')}", -1
            return None, None
        xm, pl, before = r
        if pl is not None:
            if show_entries(before) != m0["C"]:
                return f"caller's PhaseList after its own construction: orix {show_entries(before)} model {m0['C']}", -1
            if entries_of(pl) != before:
                return f"constructing the map altered the caller's phase list: {before} -> {entries_of(pl)}", -1
        views = [xm]
        r = compare(observe(xm, views), m0, "after construction")
        if r:
            return r, -1
        for t, o in enumerate(c["ops"]):
            ret, err = apply_op(xm, views, o)
            m = parse_obs(obs[t + 1])
            if o["op"] != "get" and (err or "-") != m["err"]:
                return f"step {t} {o}: orix {'raises ' + err if err else 'succeeds'}, model err={m['err']}", t
            if o["op"] == "get":
                want = m["ret"]
                if err is None:
                    got = show_entries([(0 if e_[0] is None else e_[0],) + tuple(e_[1:]) for e_ in ret])
                    w = want
                    if len(ret) == 1 and ret[0][0] is None:      # a bare Phase: the id is not observable
                        w = "0~" + want.split("~", 1)[1] if "~" in want else want
                    if got != w:
                        return f"step {t} phases[{o['k']}]: orix {got} model {want}", t
                elif want != "!" + err:
                    return f"step {t} phases[{o['k']}]: orix raises {err} model {want}", t
            r = compare(observe(xm, views), m, f"step {t} {o}")
            if r:
                return r, t
            if pl is not None and entries_of(pl) != before:
                return f"step {t}: the caller's phase list changed", t
    return None, None


def hist_lines(c):
    return [case_line(c)]


def hist_check(ctx, c, outs):
    res, t = run_case(c, outs[0])
    if res is None:
        return None
    if t is not None and t >= 0 and len(c["ops"]) > 1:
        full = len(c["ops"])
        drv = common.Driver(ctx)

        def with_ops(base, ops):
            d = dict(base)
            d["ops"] = ops
            return d

        def fails(cand):
            return run_case(cand, drv.run([case_line(cand)])[0])[0] is not None
        cand = with_ops(c, c["ops"][:t + 1])
        # dropping a `sel` renumbers later views: only drop steps that are not selections referenced later
        best = cand
        i = len(best["ops"]) - 2
        budget = 12
        while i >= 0 and budget > 0:
            if best["ops"][i]["op"] != "sel":
                trial = with_ops(best, best["ops"][:i] + best["ops"][i + 1:])
                budget -= 1
                try:
                    if fails(trial):
                        best = trial
                except Exception:  # noqa: BLE001
                    pass
            i -= 1
        c["ops"] = best["ops"]
        res2, _ = run_case(c, drv.run([case_line(c)])[0])
        res = (res2 or res) + f" [history shrunk from {full} to {len(c['ops'])} steps]"
    return res


def plget_lines(c):
    return [f"xmap plget {G.enc_entries([tuple(e) for e in c['entries']])} {enc_gkey(k)}" for k in c["keys"]]


def plget_check(ctx, c, outs):
    from orix.crystal_map import Phase, PhaseList
    with warnings.catch_warnings():
        warnings.simplefilter("ignore")
        pl = PhaseList({e[0]: mk_phase(e[1:]) for e in c["entries"]})
        for k, o in zip(c["keys"], outs):
            r, e = try_(lambda: pl[py_gkey(k)])
            if e is not None:
                if o != "!" + e:
                    return f"phases[{k}]: orix raises {e} model {o}"
                continue
            if isinstance(r, Phase):
                got = [(None, r.name, None if r.point_group is None else r.point_group.name,
                        int(round(r.structure.lattice.a)) - 1)]
                want = o.split("&")
                if len(want) != 1 or want[0].split("~", 1)[1] != show_entries([(0,) + got[0][1:]]).split("~", 1)[1]:
                    return f"phases[{k}]: orix returns the single phase {got[0][1:]} model {o}"
            elif show_entries(entries_of(r)) != o:
                return f"phases[{k}]: orix {show_entries(entries_of(r))} model {o}"
    return None


# ---------------------------------------------------------------------------------------------------
# prop sites: the invariant and the frame conditions evaluated directly on orix
# ---------------------------------------------------------------------------------------------------
def admissible(xm, o, views):
    """the guard of the property: assigned ids are -1 or already in the phase list; deletions do not remove a
    phase that is in use; no added phase is called 'not_indexed'"""
    n = o["op"]
    ids = set(int(i) for i in xm.phases.ids)
    if n == "pid":
        vals = [o["val"]["s"]] if "s" in o["val"] else o["val"]["a"]
        return all(v == -1 or v in ids for v in vals)
    if n == "deli":
        return o["id"] not in set(int(v) for v in xm._phase_id)
    if n == "deln":
        hit = [int(i) for i, p in xm.phases if p.name == o["name"]]
        return not hit or hit[0] not in set(int(v) for v in xm._phase_id)
    if n == "add":
        return all(p[0] != "not_indexed" for p in o["phases"])
    return True


def invariant(xm, views, where):
    ids = [int(i) for i in xm.phases.ids]
    if len(set(ids)) != len(ids):
        return f"{where}: phase ids not unique: {ids}"
    if ids != sorted(ids):
        return f"{where}: phase ids not sorted: {ids}"
    present = sorted(set(int(v) for v in xm._phase_id))
    missing = [i for i in present if i not in ids]
    if missing:
        return f"{where}: phase ids {missing} occur in the data but have no entry in the phase list {ids}"
    for i, p in xm.phases:
        if (int(i) == -1) != (p.name == "not_indexed"):
            return f"{where}: phase id {int(i)} is named {p.name!r} (id -1 and only id -1 must be 'not_indexed')"
    for j, v in enumerate(views):
        pres = sorted(set(int(i) for i in v.phase_id))
        if not pres:
            continue
        r, e = try_(lambda: [int(i) for i in v.phases_in_data.ids])
        if e is not None or r != pres:
            return (f"{where}: selection {j} holds phase ids {pres} but phases_in_data lists "
                    f"{r if e is None else 'raises ' + e}")
        if len(pres) == 1:
            ph = xm.phases[pres[0]]
            if ph.point_group is not None:
                r, e = try_(lambda: v.orientations.symmetry.name)
                if e is not None or r != ph.point_group.name:
                    return f"{where}: selection {j} is single-phase ({pres[0]}) but orientations carry {r} {e or ''}"
                # … and are the (best-matching, i.e. first) rotation of each selected point
                od, e = try_(lambda: np.asarray(v.orientations.data, float).reshape(-1, 4))
                want = point_rotation_data(np.asarray(v.id), 0)
                if e is not None or od.shape != want.shape or np.minimum(np.abs(od - want).max(axis=1), np.abs(od + want).max(axis=1)).max() > 1e-12:
                    return (f"{where}: orientations of selection {j} (points {np.asarray(v.id).tolist()}) are not the first rotation of "
                            f"each selected point ({e or ''})")
    return None


def inv_run(c):
    with warnings.catch_warnings():
        warnings.simplefilter("ignore")
        r, e = try_(lambda: build(c))
        if e is not None:
            return None          # constructor rejected the input
        xm, pl, before = r
        if pl is not None and entries_of(pl) != before:
            return f"constructing the map altered the caller's phase list: {before} -> {entries_of(pl)}"
        views = [xm]
        r = invariant(xm, views, "after construction")
        if r:
            return r
        for t, o in enumerate(c["ops"]):
            if not admissible(xm, o, views):
                return None      # outside the property's quantifier from here on
            snap_pid = xm._phase_id.copy()
            snap_props = {k: np.array(dict.__getitem__(xm._prop, k)).copy() for k in xm._prop.keys()}
            snap_names = list(xm.phases.names)
            sel = None
            if o["op"] in ("pid", "prop") and o["v"] < len(views):
                sel = views[o["v"]].is_in_data.copy()
            ret, err = apply_op(xm, views, o)
            where = f"step {t} {o}"
            # frame conditions
            if o["op"] == "pid" and sel is not None:
                if not np.array_equal(xm._phase_id[~sel], snap_pid[~sel]):
                    return f"{where}: phase ids of points outside the selection changed"
                if err is None:
                    want = py_val(o["val"])
                    if not np.array_equal(xm._phase_id[sel], np.broadcast_to(want, (int(sel.sum()),))):
                        return f"{where}: selected points did not receive the assigned phase ids"
                elif not np.array_equal(xm._phase_id, snap_pid):
                    return f"{where}: raised {err} after modifying phase ids"
            elif not np.array_equal(xm._phase_id, snap_pid):
                return f"{where}: phase ids changed by an operation that does not assign them"
            for k, old in snap_props.items():
                new = np.array(dict.__getitem__(xm._prop, k))
                if o["op"] == "prop" and o["name"] == k and sel is not None:
                    if not np.array_equal(new[~sel], old[~sel]):
                        return (f"{where}: property {k} of points outside the selection changed: "
                                f"{old.tolist()} -> {new.tolist()}")
                    if err is None and not np.array_equal(new[sel], np.broadcast_to(py_val(o["val"]), (int(sel.sum()),))):
                        return f"{where}: selected points did not receive the assigned property values"
                elif not np.array_equal(new, old):
                    return f"{where}: property {k} changed by an unrelated operation"
            if o["op"] == "add":
                dup = [p[0] for i, p in enumerate(o["phases"])
                       if p[0] in snap_names or p[0] in [q[0] for q in o["phases"][:i]]]
                if dup and err != "duplicate-name":
                    return f"{where}: adding a phase named {dup[0]!r} that is already present was not rejected ({err})"
                if not dup and err is not None:
                    return f"{where}: add raised {err} although no name was present"
                names = list(xm.phases.names)
                if len(set(snap_names)) == len(snap_names) and len(set(names)) != len(names):
                    return f"{where}: phase names no longer unique after add: {names}"
            if o["op"] == "get" and err is None:
                k = o["k"]
                allp = entries_of(xm.phases)
                if k["t"] == "id":
                    exp = [e_ for e_ in allp if e_[0] == k["v"]]
                elif k["t"] == "name":
                    exp = [e_ for e_ in allp if e_[1] == k["v"]]
                elif k["t"] == "ids":
                    exp = [e_ for e_ in allp if e_[0] in k["v"]]
                elif k["t"] == "names":
                    exp = [e_ for e_ in allp if e_[1] in k["v"]]
                else:
                    lo = -1 if allp and allp[0][0] == -1 else 0
                    idr = list(range(lo, max(e_[0] for e_ in allp) + 1))[slice(*k["v"])]
                    exp = [e_ for e_ in allp if e_[0] in idr]
                got = [e_[1:] for e_ in ret] if (len(ret) == 1 and ret[0][0] is None) else ret
                exp2 = [e_[1:] for e_ in exp] if (len(ret) == 1 and ret[0][0] is None) else exp
                if got != exp2:
                    return f"{where}: returned {ret}, exactly the phases with those ids/names are {exp}"
            r = invariant(xm, views, where)
            if r:
                return r
            if pl is not None and entries_of(pl) != before:
                return f"{where}: the caller's phase list changed"
    return None


def inv_check(ctx, c, outs):
    res = inv_run(c)
    if res is not None and len(c["ops"]) > 1:
        full = len(c["ops"])

        def fails(cand):
            return inv_run(cand) is not None
        best = c
        i = len(best["ops"]) - 1
        while i >= 0:
            if best["ops"][i]["op"] != "sel":
                trial = dict(best)
                trial["ops"] = best["ops"][:i] + best["ops"][i + 1:]
                if fails(trial):
                    best = trial
            i -= 1
        # selections at the end that nothing refers to
        while best["ops"] and best["ops"][-1]["op"] == "sel":
            trial = dict(best)
            trial["ops"] = best["ops"][:-1]
            if not fails(trial):
                break
            best = trial
        c["ops"] = best["ops"]
        res = (inv_run(c) or res) + f" [history shrunk from {full} to {len(c['ops'])} steps]"
    return res


def dtype_check(ctx, c, outs):
    """assignment of a property through a selection, value of another dtype than the stored array"""
    from orix.crystal_map import CrystalMap
    from orix.quaternion import Rotation
    n = c["n"]
    arr = np.array(c["old"], dtype=float) / 4 if c["old_dtype"] == "float" else np.array(c["old"], dtype=int)
    xm = CrystalMap(Rotation.identity((n,)), x=np.arange(n), prop={"p": arr.copy()})
    sel = np.array(c["sel"], bool)
    val = (np.array(c["val"], float) / 4 if c["val_dtype"] == "float" else np.array(c["val"], int))
    if c["scalar"]:
        val = val[0]
    else:
        val = val[:int(sel.sum())]
    xm[sel].prop["p"] = val
    new = np.array(dict.__getitem__(xm._prop, "p"))
    if not np.array_equal(new[~sel], arr[~sel]):
        return (f"property of points outside the selection changed: {arr.tolist()} -> {new.tolist()} after assigning "
                f"{np.asarray(val).tolist()} ({np.asarray(val).dtype}) to points {np.nonzero(sel)[0].tolist()}")
    return None


SITES = {
    "history": sites.Site("history", "corr", hist_check, hist_lines),
    "phaselist_getitem": sites.Site("phaselist_getitem", "corr", plget_check, plget_lines),
    "invariant": sites.Site("invariant", "prop", inv_check),
    "prop_assign_dtype": sites.Site("prop_assign_dtype", "prop", dtype_check),
    "live_views_assign": sites.Site("live_views_assign", "prop", xmap_views.views_assign_check),
    "input_isolation": sites.Site("input_isolation", "prop", xmap_views.input_isolation_check),
}


# no open finding for C12: the three defects found by this check were repaired by `fix:` commits 1077dd8,
# bb01d48 and fe80c2f; the model follows the repaired code, so a reverted fix is a VIOLATION

PREDICATES = {}


# ---------------------------------------------------------------------------------------------------
# generators
# ---------------------------------------------------------------------------------------------------
def gen_phase(rng, tag, names_pool):
    name = names_pool[rng.integers(len(names_pool))]
    r = rng.integers(10)
    if r == 0:
        name = ""
    sym = G.SYMS[rng.integers(len(G.SYMS))] if rng.integers(4) else None
    return [str(name), sym, int(tag)]


def gen_plform(rng, uniq):
    """caller's phase list: shorter / equal / longer than the ids in the data, matching or foreign ids"""
    k = len(uniq)
    rel = ["equal", "equal", "shorter", "longer", "longer"][rng.integers(5)]
    m = k if rel == "equal" else max(0, k - int(rng.integers(1, 3))) if rel == "shorter" else k + int(rng.integers(1, 3))
    form = ["none", "L", "L", "D", "K", "K", "S"][rng.integers(7)]
    pool = list(G.NAMES) + ["p", "q"]
    idk = ["same", "same", "arange", "foreign", "shifted", "with-1"][rng.integers(6)]
    if idk == "same":
        ids = (list(uniq) + [max(uniq + [0]) + 3 + j for j in range(m)])[:m]
    elif idk == "arange":
        ids = None
    elif idk == "foreign":
        ids = sorted(set(int(v) for v in rng.integers(0, 15, m + 2)))[:m]
        while len(ids) < m:
            ids.append(max(ids + [0]) + 1)
    elif idk == "shifted":
        ids = [i + 1 for i in (list(uniq) + [max(uniq + [0]) + 2 + j for j in range(m)])[:m]]
    else:
        ids = ([-1] + list(uniq) + [max(uniq + [0]) + 2 + j for j in range(m)])[:m]
    if ids is not None and rng.integers(3) == 0:
        ids = [int(v) for v in rng.permutation(ids)]
    if form == "none":
        return {"form": "none"}, "none"
    if form == "S":
        return {"form": "S", "phase": gen_phase(rng, 1, pool), "id": None if ids is None or not ids else int(ids[0])}, "single"
    phases = [gen_phase(rng, j + 1, pool) for j in range(m)]
    if idk == "with-1" and phases and ids is not None and -1 in ids[:len(phases)]:
        j = ids.index(-1)        # a caller list in which -1 (and only -1) is the not_indexed phase
        phases[j] = ["not_indexed", None, phases[j][2]]
    # mostly distinct names (duplicates are allowed by the constructor and appear sometimes)
    if rng.integers(3):
        seen = set()
        for j, p in enumerate(phases):
            while p[0] in seen and p[0] != "":
                p[0] = p[0] + "x"
            seen.add(p[0])
    if form == "L":
        if ids is not None and rng.integers(4) == 0 and len(ids) > 1:
            ids = ids[:-1] if rng.integers(2) else ids + [max(ids) + 5]      # zip truncation
        for j, ph in enumerate(phases):
            if ph[0] == "not_indexed" and (ids is None or j >= len(ids) or ids[j] != -1):
                ph[0] = "nidx"
        return {"form": "L", "phases": phases, "ids": ids}, f"list/{rel}/{idk}"
    if form == "D":
        ids2 = ids if ids is not None else list(range(m))
        es = [[int(i)] + p for i, p in zip(ids2, phases)]
        seen = set()
        es = [e for e in es if not (e[0] in seen or seen.add(e[0]))]
        return {"form": "D", "entries": es}, f"dict/{rel}/{idk}"
    # keyword lists of different lengths (padding rules)
    def cut(l):
        r = rng.integers(4)
        return None if r == 0 else l[:max(1, len(l) - int(rng.integers(0, 2)))] if l else None
    names = cut([p[0] for p in phases])
    use_sg = bool(rng.integers(3) == 0)
    pgs = cut([p[1] for p in phases])
    sgs = None
    if use_sg and phases:
        sgs = [SG[rng.integers(len(SG))] if (pgs is None or j >= len(pgs) or pgs[j] is None) and rng.integers(2) else None
               for j in range(len(phases))]
    tags = cut([p[2] for p in phases])
    kid = None if ids is None else (ids[:max(1, len(ids) - int(rng.integers(0, 2)))] if ids else None)
    if names is None and pgs is None and sgs is None and tags is None and kid is None:
        names = ["p"]
    if names is not None:
        # keep the caller's list well formed: only the phase with id -1 may be called not_indexed
        names = [("nidx" if nm == "not_indexed" and (kid is None or j >= len(kid) or kid[j] != -1) else nm)
                 for j, nm in enumerate(names)]
    return {"form": "K", "names": names, "sgs": sgs, "pgs": pgs, "ids": kid, "tags": tags}, f"keywords/{rel}/{idk}"


class Track:
    """what the generator needs to know about the evolving state to emit meaningful operations"""

    def __init__(self, c, xm):
        self.n = c["ny"] * c["nx"]
        self.refs = [G.Ref(c["ny"], c["nx"], list(c["pid"]), [], [p for p in range(self.n) if c["mask"][p]])]
        self.xm = xm
        self.views = [xm]


def gen_ops(rng, c, length):
    """operations generated while replaying them on orix itself (only to know sizes / ids / names; the checks do
    not rely on it)"""
    with warnings.catch_warnings():
        warnings.simplefilter("ignore")
        r, e = try_(lambda: build(c))
    ops, strata = [], []
    if e is not None:
        return ops, ["constructor-raises"]
    xm, _, _ = r
    views = [xm]
    tag = 20
    for _ in range(length):
        r = rng.integers(100)
        ids = [int(i) for i in xm.phases.ids]
        names = list(xm.phases.names)
        v = int(rng.integers(len(views))) if rng.integers(3) == 0 or len(views) == 1 else int(rng.integers(1, len(views)))
        size = int(views[v].size)
        if r < 22 or (len(views) == 1 and r < 45):
            ref = G.Ref(c["ny"], c["nx"], [int(p) for p in xm._phase_id], [(int(i), p.name) for i, p in xm.phases],
                        [int(i) for i in views[v].id])
            rr = rng.integers(3)
            key, st = (G.gen_idx_key(rng, ref, err_ok=False) if rr == 0 else G.gen_mask_key(rng, ref, err_ok=False)
                       if rr == 1 else G.gen_names_key(rng, ref))
            o = {"op": "sel", "v": v, "key": key}
            st = "select/" + st.split("/")[0]
        elif r < 50:
            kind = rng.integers(10 if rng.integers(3) == 0 else 8)
            pool = ids + [-1] if rng.integers(2) else (ids or [-1])
            if kind < 4:
                val = {"s": int(pool[rng.integers(len(pool))])}
                st = "assign-phase-id/scalar" + ("/-1" if val["s"] == -1 else "")
            elif kind < 8:
                val = {"a": [int(pool[rng.integers(len(pool))]) for _ in range(size)],
                       "as": ["array", "list", "tuple", "array"][int(rng.integers(4))]}
                st = "assign-phase-id/" + val["as"] + ("/with-1" if -1 in val["a"] else "")
            elif kind == 8:
                val = {"a": [int(pool[rng.integers(len(pool))]) for _ in range(size + 2)]}
                st = "assign-phase-id/array-wrong-length"
            else:
                val = {"s": int(max(ids + [0]) + 4)}
                st = "assign-phase-id/inadmissible"
            st += "/through-selection" if v > 0 else "/direct"
            o = {"op": "pid", "v": v, "val": val}
        elif r < 66:
            pn = list(xm._prop.keys())
            name = pn[rng.integers(len(pn))] if pn and rng.integers(4) else "newp"
            kind = rng.integers(5)
            if kind < 2:
                val = {"s": int(rng.integers(-9, 10))}
            elif kind < 4:
                val = {"a": [int(x) for x in rng.integers(-9, 10, size)], "as": ["array", "list", "array"][int(rng.integers(3))]}
            else:
                val = {"a": [int(x) for x in rng.integers(-9, 10, size + 1)]}
            st = "assign-prop/" + ("scalar" if "s" in val else "array" if kind < 4 else "array-wrong-length") + \
                 ("/new" if name not in pn else "/existing") + ("/through-selection" if v > 0 else "/direct")
            o = {"op": "prop", "v": v, "name": name, "val": val}
        elif r < 76:
            k = int(rng.integers(1, 3))
            ps = []
            for _ in range(k):
                tag += 1
                nm = (names[rng.integers(len(names))] if names and rng.integers(3) == 0
                      else ["ti", "mg", "w", "co"][rng.integers(4)] + str(tag))
                ps.append([str(nm), G.SYMS[rng.integers(len(G.SYMS))] if rng.integers(2) else None, tag])
            if k == 2 and rng.integers(5) == 0:
                ps[1][0] = ps[0][0]
            dup = any(p[0] in names for p in ps) or (k == 2 and ps[0][0] == ps[1][0])
            o = {"op": "add", "phases": ps, "bare": bool(k == 1 and rng.integers(2)), "as_phase_list": bool(rng.integers(3) == 0)}
            st = "phaselist/add" + ("/duplicate-name" if dup else "")
        elif r < 84:
            used = set(int(p) for p in xm._phase_id)
            free = [i for i in ids if i not in used]
            if rng.integers(2) and names:
                j = int(rng.integers(len(names)))
                o = {"op": "deln", "name": names[j]}
                st = "phaselist/del-name"
            else:
                pool = free if free and rng.integers(4) else ids + [max(ids + [0]) + 7]
                o = {"op": "deli", "id": int(pool[rng.integers(len(pool))])}
                st = "phaselist/del-id" + ("/unused" if o["id"] in free else "")
        elif r < 88:
            o = {"op": ["ani", "sort"][rng.integers(2)]}
            st = "phaselist/" + o["op"]
        else:
            kk = rng.integers(6)
            if kk == 0 and ids:
                k = {"t": "id", "v": int((ids + [max(ids) + 3])[rng.integers(len(ids) + 1)])}
            elif kk == 1 and names:
                k = {"t": "name", "v": str((names + ["nosuch"])[rng.integers(len(names) + 1)])}
            elif kk == 2 and ids:
                k = {"t": "ids", "v": [int(ids[rng.integers(len(ids))]) for _ in range(int(rng.integers(1, 4)))],
                     "as": ["list", "tuple", "array"][rng.integers(3)]}
            elif kk == 3 and names:
                k = {"t": "names", "v": [str(names[rng.integers(len(names))]) for _ in range(int(rng.integers(1, 4)))],
                     "as": ["list", "tuple"][rng.integers(2)]}
            elif ids:
                L = max(ids) + 2
                k = {"t": "slice", "v": G.gen_slice(rng, L)[0]}
            else:
                k = {"t": "id", "v": 0}
            o = {"op": "get", "k": k}
            st = "phaselist/getitem/" + k["t"]
        ops.append(o)
        strata.append(st)
        with warnings.catch_warnings():
            warnings.simplefilter("ignore")
            apply_op(xm, views, o)
    return ops, strata


def gen_case(rng, tier):
    ny, nx = [(1, int(rng.integers(2, 9))), (int(rng.integers(2, 5)), int(rng.integers(2, 5)))][rng.integers(2)]
    n = ny * nx
    pat = ["contig", "with-1", "sparse", "all-1", "single", "gap"][rng.integers(6)]
    if pat == "contig":
        pid = [int(v) for v in rng.integers(0, int(rng.integers(1, 4)), n)]
    elif pat == "with-1":
        pid = [int(v) for v in rng.integers(-1, 3, n)]
    elif pat == "sparse":
        pool = sorted(set(int(v) for v in rng.integers(0, 12, 3)))
        pid = [pool[rng.integers(len(pool))] for _ in range(n)]
    elif pat == "all-1":
        pid = [-1] * n
    elif pat == "single":
        pid = [int(rng.integers(0, 6))] * n
    else:
        pid = [[-1, 2, 5][rng.integers(3)] for _ in range(n)]
    uniq = sorted(set(pid) - {-1})
    pl, plst = gen_plform(rng, uniq)
    mask = [1] * n if rng.integers(4) else G.gen_mask(rng, n, 0.8)
    if not any(mask):
        mask[0] = 1
    props = {nm: [int(v) for v in rng.integers(-20, 20, n)] for nm in ["iq", "dp"][:int(rng.integers(0, 3))]}
    c = {"ny": ny, "nx": nx, "pid": pid, "pid_pattern": pat, "mask": mask, "props": props, "pl": pl, "ops": [],
         "rpp": int(rng.choice([1, 1, 2, 3]))}
    maxlen = 6 if tier == "quick" else 12
    c["ops"], strata = gen_ops(rng, c, int(rng.integers(1, maxlen + 1)))
    return c, ["construct/" + plst, "ids/" + pat] + strata


def generate(ctx):
    rng = ctx.rng
    quick = ctx.tier == "quick"
    n_hist = 500 if quick else 3000
    for i in range(n_hist):
        c, strata = gen_case(rng, ctx.tier)
        ctx.count("history", ("h12", c["ny"], c["nx"], c["pid"], c["mask"], repr(c["pl"]), repr(c["ops"])),
                  nontrivial=len(c["ops"]) >= 2)
        for st in set(strata):
            ctx.strata[st] = ctx.strata.get(st, 0) + 1
        ctx.strata[f"history/len={len(c['ops'])}"] = ctx.strata.get(f"history/len={len(c['ops'])}", 0) + 1
        if i % 50 == 0:
            ctx.sample({"site": "history", **c})
        yield "history", c
        ctx.count("invariant", None)
        yield "invariant", copy.deepcopy(c)
    # PhaseList.__getitem__ on its own
    for i in range(40 if quick else 300):
        k = int(rng.integers(1, 6))
        ids = sorted(set(int(v) for v in rng.integers(-1, 9, k)))
        pool = list(G.NAMES) + ["", "al"]
        es = [[i_, str(pool[rng.integers(len(pool))]), G.SYMS[rng.integers(len(G.SYMS))] if rng.integers(3) else None, j + 1]
              for j, i_ in enumerate(ids)]
        if es and es[0][0] == -1:
            es[0][1] = "not_indexed"
        names = [e[1] for e in es]
        keys = []
        for _ in range(12):
            kk = rng.integers(5)
            if kk == 0:
                keys.append({"t": "id", "v": int(rng.integers(-1, 10))})
            elif kk == 1:
                keys.append({"t": "name", "v": str((names + ["zz"])[rng.integers(len(names) + 1)])})
            elif kk == 2:
                keys.append({"t": "ids", "v": [int(ids[rng.integers(len(ids))]) for _ in range(int(rng.integers(1, 4)))]
                             + ([int(rng.integers(9, 12))] if rng.integers(5) == 0 else []),
                             "as": ["list", "tuple", "array"][rng.integers(3)]})
            elif kk == 3:
                keys.append({"t": "names", "v": [str((names + ["zz"])[rng.integers(len(names) + 1)])
                                                 for _ in range(int(rng.integers(1, 4)))],
                             "as": ["list", "tuple"][rng.integers(2)]})
            else:
                keys.append({"t": "slice", "v": G.gen_slice(rng, max(ids) + 2)[0]})
        c = {"entries": es, "keys": keys}
        ctx.count("phaselist_getitem", ("pg", repr(es), repr(keys)))
        yield "phaselist_getitem", c
    for i in range(120 if quick else 600):
        n = int(rng.integers(2, 9))
        sel = G.gen_mask(rng, n, 0.5)
        if not any(sel):
            sel[0] = 1
        if all(sel):
            sel[-1] = 0
        c = {"n": n, "old": [int(v) for v in rng.integers(-30, 30, n)], "old_dtype": ["int", "float"][rng.integers(2)],
             "val": [int(v) for v in rng.integers(-30, 30, n)], "val_dtype": ["int", "float"][rng.integers(2)],
             "scalar": bool(rng.integers(2)), "sel": sel}
        ctx.count(f"prop_assign_dtype/{c['old_dtype']}<-{c['val_dtype']}", ("dt", repr(c)))
        yield "prop_assign_dtype", c


def generate_views(ctx):
    rng = ctx.rng
    for i in range(80 if ctx.tier == "quick" else 800):
        c = xmap_views.gen_views_case(rng, assign=True)
        ctx.count("live_views_assign", ("lva", i, tuple(c["shape"]), len(c["ops"])))
        yield "live_views_assign", c
    for i in range(24 if ctx.tier == "quick" else 300):
        c = xmap_views.gen_input_isolation(rng)
        ctx.count(f"input_isolation/{c['dtype']}{'/strided' if c['strided'] else ''}", ("iso", i, tuple(c["phase_id"])))
        yield "input_isolation", c


def run(ctx, status):
    driver_ok = lean_phase(ctx, status, ["OrixProofs.Properties.C12"])
    if ctx.replay:
        site, case, body = sites.load_replay(ctx.replay)
        if site in SITES:
            sites.run_cases(ctx, SITES, [(site, case)], driver_ok)
    else:
        sites.run_cases(ctx, SITES, list(generate(ctx)) + list(generate_views(ctx)), driver_ok)
    return common.finish(
        ctx, "proof", PREDICATES,
        rule="seeded stratified generation of phase-id arrays (contiguous, with -1, sparse, all -1, single, gaps), "
             "caller phase lists in every constructor form (none, list, dict, single, keyword lists with padding; "
             "shorter/equal/longer than the ids in the data; same, arange, foreign, shifted ids, with a not_indexed "
             "entry; missing names and symmetries) and histories mixing selections, scalar/array phase-id assignment "
             "(direct and through selections, admissible and not), property assignment, PhaseList add/del/"
             "add_not_indexed/sort and item access; a history is non-trivial with at least two operations; distinct by "
             "hash of the whole case",
        assumptions=["numpy boolean-mask assignment, np.unique and np.intersect1d follow their documented semantics",
                     "Phase objects are compared by (name, point-group name, tag carried in the lattice parameter a); "
                     "colours are outside the property and not modelled"])
