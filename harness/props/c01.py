"""C01 — rotation representations convert consistently and round-trip.

corr sites  : generated kernel (T-ast) vs hand-written Lean model (Conv.*) vs the real numba kernel on the same
              hex floats; wrapper models vs the public API.
prop sites  : the property's own clauses on the public API of Quaternion / Rotation / Orientation, one site per
              entry point, evaluated per element (a failing element is reported as a one-element case, so that a
              known finding never hides a different failure in the same array).
"""
from __future__ import annotations

import math
import warnings

import numpy as np

from .. import common, sites
from ..common import f2h, h2f
from ..gen import quat as G
from ..main import lean_phase

# ---- constants of the property (never derived from the code under test) --------------------------------------
TAU = 1e-7           # "the same rotation": misorientation angle <= TAU [rad]
TAU_OM = 1e-4        # ... for paths through the thresholded square roots of the matrix -> quaternion kernel
TAU_F32 = 1e-3       # float32 input: data are unit only to 6e-8 and normalised in float32; arccos / sqrt at angle 0 and
                     # pi have condition sqrt(8 ulp32) = 7e-4
TAU_OM_F32 = 3e-3    # float32 through matrix -> quaternion (sqrt of a 1e-7 perturbation)
SLACK = 1e-12        # absolute slack of range clauses
HO_MAX = (3 * math.pi / 4) ** (1 / 3)
KERNELS = ["qu2om_single", "om2qu_single", "eu2qu_single", "qu2eu_single", "ax2qu_single", "qu2ax_single",
           "qu2ho_single", "ho2ax_single"]
TAST_NOTE = ("T-ast: ho2ax_single, ax2ro_single, ro2ax_single have no obligation (fitted polynomial / np.inf) and are "
             "tied by the correspondence check alone; om2qu_single's obligation abstracts the four first-stage "
             "assignments and is generated only while they keep their shape")


def _imp():
    from orix.quaternion import Quaternion, Rotation, Orientation
    from orix.quaternion import _conversions as cv
    from orix.vector import Vector3d, AxAngle, Rodrigues, Homochoric
    from scipy.spatial.transform import Rotation as SR
    return {"Quaternion": Quaternion, "Rotation": Rotation, "Orientation": Orientation, "cv": cv, "V": Vector3d,
            "AxAngle": AxAngle, "Rodrigues": Rodrigues, "Homochoric": Homochoric, "SR": SR}


def hexes(xs):
    return " ".join(f2h(x) for x in xs)


# ---- geometry helpers (numpy only; independent of orix) -------------------------------------------------------
def normalise(q):
    q = np.asarray(q, float).reshape(-1, 4)
    return q / np.linalg.norm(q, axis=1, keepdims=True)


def mis(q1, q2):
    """misorientation angle 2*atan2(|vec(conj(q1) q2)|, |scal(conj(q1) q2)|), element-wise, inputs normalised here"""
    q1, q2 = normalise(q1), normalise(q2)
    a1, v1, a2, v2 = q1[:, 0], q1[:, 1:], q2[:, 0], q2[:, 1:]
    s = a1 * a2 + (v1 * v2).sum(1)
    v = a1[:, None] * v2 - a2[:, None] * v1 - np.cross(v1, v2)
    return 2 * np.arctan2(np.linalg.norm(v, axis=1), np.abs(s))


def ref_matrix(q):
    """passive orientation matrix of unit quaternions via scipy (same components, scalar last)"""
    return _imp()["SR"].from_quat(normalise(q)[:, [1, 2, 3, 0]]).as_matrix()


def quat_of_sr(r):
    x = np.atleast_2d(r.as_quat())
    return x[:, [3, 0, 1, 2]]


def quat_of_euler(e):
    """reference: Bunge ZXZ angles (radians) -> orix-convention quaternion, via scipy"""
    SR = _imp()["SR"]
    return quat_of_sr(SR.from_euler("ZXZ", np.asarray(e, float).reshape(-1, 3)).inv())


def quat_of_rotvec(v):
    return quat_of_sr(_imp()["SR"].from_rotvec(np.asarray(v, float).reshape(-1, 3)))


def quat_of_rodrigues(r):
    r = np.asarray(r, float).reshape(-1, 3)
    with np.errstate(over="ignore", invalid="ignore"):
        n = np.linalg.norm(r, axis=1)
        big = n > 1e150
        q = np.concatenate([np.ones((len(r), 1)), r], axis=1)
        q[big] = np.concatenate([np.zeros((big.sum(), 1)), r[big] / n[big, None]], axis=1)
    return q


def ho_angle(hn):
    """independent inverse of |h|^3 = 3/4 (w - sin w) on [0, pi] by bisection (w - sin w is increasing)"""
    hn = np.asarray(hn, float)
    f = hn ** 3 * 4 / 3
    lo, hi = np.zeros_like(f), np.full_like(f, 2 * math.pi)
    for _ in range(200):
        mid = (lo + hi) / 2
        g = mid - np.sin(mid)
        lo = np.where(g < f, mid, lo)
        hi = np.where(g < f, hi, mid)
    w = (lo + hi) / 2
    small = hn < 1e-3   # w - sin w = w^3/6 (1 - w^2/20 + ...): cancellation-free series inverse
    w0 = (6 * f) ** (1 / 3)
    ws = w0 * (1 + w0 ** 2 / 60)
    return np.where(small, ws, w)


def quat_of_homochoric(h):
    h = np.asarray(h, float).reshape(-1, 3)
    n = np.linalg.norm(h, axis=1)
    w = ho_angle(n)
    ax = np.where(n[:, None] > 0, h / np.where(n > 0, n, 1)[:, None], 0.0)
    return np.concatenate([np.cos(w / 2)[:, None], ax * np.sin(w / 2)[:, None]], axis=1)


def cdiff(a, b):
    """circular difference of angles"""
    d = np.abs(np.asarray(a, float) - np.asarray(b, float)) % (2 * math.pi)
    return np.minimum(d, 2 * math.pi - d)


# ---- cases ----------------------------------------------------------------------------------------------------
def build(c):
    """object under test, reference unit quaternions (n,4) of the data as stored, shape"""
    I = _imp()
    shp = tuple(c["shape"])
    data = common.relayout(np.array(c["q"], float).reshape(shp + (4,)) * float(c.get("scale", 1.0)), c["q"])
    dt = c.get("dtype", "float64")
    if dt == "float32":
        data = data.astype(np.float32)
    elif dt == "int":
        data = np.rint(data).astype(np.int64)
    obj = I[c["cls"]](data)
    ref = normalise(np.asarray(data, float)) if data.size else np.zeros((0, 4))
    return obj, ref, shp


def one(c, i):
    """the one-element case of element i"""
    d = {k: v for k, v in c.items() if k not in ("q", "shape")}
    d["q"] = [c["q"][i]]
    d["shape"] = [1]
    return d


def taus(c):
    f32 = c.get("dtype") == "float32"
    return (TAU_F32 if f32 else TAU), (TAU_OM_F32 if f32 else TAU_OM)


class Rep:
    """collects per-element failures of one site run; reports each as a one-element case"""

    def __init__(self, ctx, site, c, one_fn=one):
        self.ctx, self.site, self.c, self.n, self.one_fn = ctx, site, c, 0, one_fn

    def elems(self, clause, bad, msg):
        bad = np.atleast_1d(np.asarray(bad, bool)).reshape(-1)
        for i in np.flatnonzero(bad)[:3]:
            self.n += 1
            self.ctx.fail(self.site, f"{clause}: " + (msg(i) if callable(msg) else msg), self.one_fn(self.c, int(i)),
                          found_input=True, kind="prop")

    def whole(self, clause, msg):
        self.n += 1
        self.ctx.fail(self.site, f"{clause}: {msg}", self.c, found_input=True, kind="prop")


def quiet():
    w = warnings.catch_warnings()
    w.__enter__()
    warnings.simplefilter("ignore")
    return w


# ---- prop sites: one per public entry point -------------------------------------------------------------------
def p_to_matrix(ctx, c, outs):
    I = _imp()
    w = quiet()
    try:
        obj, ref, shp = build(c)
        r = Rep(ctx, "to_matrix", c)
        M = obj.to_matrix()
        if tuple(M.shape) != shp + (3, 3):
            r.whole("shape", f"to_matrix shape {tuple(M.shape)} for input shape {shp}")
            return None
        back = I[c["cls"]].from_matrix(M)
        if tuple(back.shape) != (shp if shp else (1,)):
            r.whole("shape", f"from_matrix(to_matrix) shape {tuple(back.shape)} for input shape {shp}")
        if not isinstance(back, I[c["cls"]]):
            r.whole("type", f"{c['cls']}.from_matrix returned {type(back).__name__}")
        if obj.size == 0:
            return None
        t, tom = taus(c)
        Mf = M.reshape(-1, 3, 3)
        Mr = ref_matrix(ref)
        etol = 1e-6 if c.get("dtype") == "float32" else 1e-12
        d = np.abs(Mf - Mr).max(axis=(1, 2))
        ctx.dev("to_matrix_vs_scipy_abs", float(d.max()))
        r.elems("reference", d > etol, lambda i: f"to_matrix = {Mf[i].tolist()} but scipy matrix of the same quaternion = {Mr[i].tolist()}")
        orth = np.abs(np.einsum("nij,nkj->nik", Mf, Mf) - np.eye(3)).max(axis=(1, 2))
        r.elems("orthogonal", orth > 10 * etol, lambda i: f"M M^T - 1 has entry {orth[i]:.3g}")
        r.elems("det", np.abs(np.linalg.det(Mf) - 1) > 10 * etol, lambda i: f"det = {np.linalg.det(Mf[i])!r}")
        m = mis(back.data.reshape(-1, 4), ref)
        ctx.dev("from_matrix_roundtrip_rad", float(m.max()))
        if c.get("dtype") == "float32":
            # float32 data are normalised in float32 (|q|^2 - 1 ~ 1e-7): where 4a^2 is below that the matrix ->
            # quaternion path is ill-conditioned without bound (outside the property: not unit quaternions)
            m = np.where(4 * ref[:, 0] ** 2 < 1e-5, 0.0, m)
        r.elems("roundtrip", m > tom, lambda i: f"from_matrix(to_matrix(q)) = {back.data.reshape(-1, 4)[i].tolist()} differs from q = {ref[i].tolist()} by {m[i]:.3g} rad")
        # matrix times vector equals quaternion times vector
        v = I["V"](np.array([[1.0, 2.0, -3.0]]))
        qv = (I["Quaternion"](obj.data.reshape(-1, 4)) * v).data.reshape(-1, 3)
        mv = Mf @ np.array([1.0, 2.0, -3.0])
        dv = np.abs(qv - mv).max(axis=1)
        r.elems("action", dv > (1e-5 if c.get("dtype") == "float32" else 1e-11), lambda i: f"Q*v = {qv[i].tolist()} but to_matrix()@v = {mv[i].tolist()}")
    finally:
        w.__exit__(None, None, None)
    return None


def p_neo_euler(ctx, c, outs):
    """the neo-Eulerian vector classes of `orix.vector.neo_euler` built FROM a rotation: each describes the rotation it was
    built from (Rodrigues: axis * tan(w/2), where finite; axis-angle: axis * w; homochoric: the same vector as
    `to_homochoric`), and `AxAngle.from_axes_angles(axes, angles, degrees)` = angle * unit axis"""
    I = _imp()
    w = quiet()
    try:
        from orix.vector.neo_euler import AxAngle, Homochoric, Rodrigues
        from orix.quaternion import Rotation
        obj, ref, shp = build(c)
        if obj.size == 0 or c["cls"] == "Quaternion":
            return None
        r = Rep(ctx, "neo_euler", c)
        t, tom = taus(c)
        R = Rotation(obj)
        refq = ref.reshape(-1, 4)
        ang = 2 * np.arctan2(np.linalg.norm(refq[:, 1:], axis=1), np.abs(refq[:, 0]))
        # axis-angle vector
        ax = np.asarray(AxAngle.from_rotation(R).data, float).reshape(-1, 3)
        m1 = mis(quat_of_rotvec(ax), refq)
        r.elems("axangle", ~(m1 <= t), lambda i: f"AxAngle.from_rotation of q = {refq[i].tolist()} is {ax[i].tolist()}, a rotation {m1[i]:.3g} rad away")
        # Rodrigues vector: defined away from two-fold rotations
        with np.errstate(all="ignore"):
            ro = Rodrigues.from_rotation(R)
            rod = np.asarray(ro.data, float).reshape(-1, 3)
            fin = (ang < math.pi - 1e-3) & np.isfinite(rod).all(axis=1)
            m2 = np.where(fin, mis(quat_of_rodrigues(np.where(fin[:, None], rod, 0.0)), refq), 0.0)
            ra = np.asarray(ro.angle, float).reshape(-1)
        r.elems("rodrigues", fin & ~(m2 <= t * (1 + np.tan(np.minimum(ang, 3.0) / 2) ** 2)), lambda i: f"Rodrigues.from_rotation of q = {refq[i].tolist()} is {rod[i].tolist()}, a rotation {m2[i]:.3g} rad away")
        r.elems("rodrigues_angle", fin & ~(np.abs(ra - ang) <= t * (1 + np.tan(np.minimum(ang, 3.0) / 2) ** 2)), lambda i: f"Rodrigues(...).angle = {ra[i]!r} for a rotation by {ang[i]!r}")
        # homochoric vector: the same as the method of the rotation
        ho = np.asarray(Homochoric.from_rotation(R).data, float).reshape(-1, 3)
        ho2 = np.asarray(R.to_homochoric().data if hasattr(R.to_homochoric(), "data") else R.to_homochoric(), float).reshape(-1, 3)
        pos = refq[:, 0] >= 0                      # (for a negative scalar part to_homochoric has an open finding)
        r.elems("homochoric", pos & ~(np.abs(ho - ho2).max(axis=1) <= 1e-7), lambda i: f"Homochoric.from_rotation = {ho[i].tolist()} but to_homochoric = {ho2[i].tolist()} for q = {refq[i].tolist()}")
        # ... and, for EVERY rotation (either sign of the scalar part), the closed form: axis * (3/4 (w - sin w))^(1/3) with
        # the rotation angle w in [0, pi] about the axis of the representative with non-negative scalar part
        sgn = np.where(refq[:, 0] < 0, -1.0, 1.0)
        vn = np.linalg.norm(refq[:, 1:], axis=1)
        want_len = (0.75 * (ang - np.sin(ang))) ** (1.0 / 3.0)
        want_ho = np.where(vn[:, None] > 0, sgn[:, None] * refq[:, 1:] / np.where(vn > 0, vn, 1.0)[:, None], 0.0) * want_len[:, None]
        two_fold = ang > math.pi - 1e-7               # the axis of a half turn is defined up to sign
        err = np.where(two_fold, np.minimum(np.abs(ho - want_ho).max(axis=1), np.abs(ho + want_ho).max(axis=1)),
                       np.abs(ho - want_ho).max(axis=1))
        r.elems("homochoric_closed_form", ~(err <= 1e-7), lambda i: f"Homochoric.from_rotation = {ho[i].tolist()} for q = {refq[i].tolist()}, expected {want_ho[i].tolist()} (length {np.linalg.norm(ho[i])!r}, bound (3 pi/4)^(1/3) = {(0.75 * math.pi) ** (1 / 3)!r})")
        # constructor from axes and angles
        axes = refq[:, 1:] + np.array([1e-3, 2e-3, 3e-3])
        for deg in (False, True):
            aa = np.asarray(AxAngle.from_axes_angles(axes * 2.5, np.rad2deg(ang) if deg else ang, degrees=deg).data, float).reshape(-1, 3)
            want = ang[:, None] * axes / np.linalg.norm(axes, axis=1, keepdims=True)
            r.elems("from_axes_angles", ~(np.abs(aa - want).max(axis=1) <= 1e-12 * np.maximum(1.0, ang)), lambda i: f"AxAngle.from_axes_angles(axis {axes[i].tolist()}, angle {ang[i]!r}, degrees={deg}) = {aa[i].tolist()}, expected {want[i].tolist()}")
    finally:
        w.__exit__(None, None, None)
    return None


def p_sequence(ctx, c, outs):
    """all conversions (and the axis / angle reads they share code with) on ONE object, in a seeded order: the object's
    data must not change, so a later conversion of the same object still describes the same rotation"""
    I = _imp()
    w = quiet()
    try:
        obj, ref, shp = build(c)
        if obj.size == 0:
            return None
        r = Rep(ctx, "sequence", c)
        before = np.array(obj.data, copy=True)
        src = obj.data          # anything sharing memory with the object
        calls = {"to_matrix": lambda: obj.to_matrix(), "to_euler": lambda: obj.to_euler(),
                 "to_axes_angles": lambda: obj.to_axes_angles(), "to_homochoric": lambda: obj.to_homochoric(),
                 "to_rodrigues_frank": lambda: obj.to_rodrigues(frank=True), "axis": lambda: obj.axis,
                 "angle": lambda: obj.angle, "AxAngle.from_rotation": lambda: I["AxAngle"].from_rotation(obj),
                 "Homochoric.from_rotation": lambda: I["Homochoric"].from_rotation(obj)}
        if "Homochoric" not in I or "AxAngle" not in I:
            calls = {k: v for k, v in calls.items() if "from_rotation" not in k}
        names = list(calls)
        order = [names[i] for i in c["order"] if i < len(names)]
        for step, nm in enumerate(order):
            with np.errstate(all="ignore"):
                try:
                    calls[nm]()
                except Exception as e:
                    r.whole("raises", f"step {step} {nm} raises {type(e).__name__}: {str(e)[:100]}")
                    return None
            now = np.asarray(obj.data)
            if now.shape != before.shape or not np.array_equal(now, before, equal_nan=True):
                bad = np.flatnonzero((now.reshape(-1, 4) != before.reshape(-1, 4)).any(axis=1))
                i = int(bad[0]) if bad.size else 0
                r.whole("operand", f"after {' -> '.join(order[:step + 1])} the object's data changed: element {i} "
                                   f"{before.reshape(-1, 4)[i].tolist()} -> {now.reshape(-1, 4)[i].tolist()}")
                return None
        etol = 1e-6 if c.get("dtype") == "float32" else 1e-12
        Mf = obj.to_matrix().reshape(-1, 3, 3)
        d = np.abs(Mf - ref_matrix(ref)).max(axis=(1, 2))
        r.elems("after", d > etol, lambda i: f"after {' -> '.join(order)} to_matrix of the same object = {Mf[i].tolist()} no "
                                             f"longer is the matrix of q = {ref[i].tolist()}")
    finally:
        w.__exit__(None, None, None)
    return None


def p_to_euler(ctx, c, outs):
    I = _imp()
    w = quiet()
    try:
        obj, ref, shp = build(c)
        r = Rep(ctx, "to_euler", c)
        e = obj.to_euler()
        if tuple(e.shape) != shp + (3,):
            r.whole("shape", f"to_euler shape {tuple(e.shape)} for input shape {shp}")
            return None
        back = I[c["cls"]].from_euler(e)
        if tuple(back.shape) != (shp if shp else (1,)):
            r.whole("shape", f"from_euler(to_euler) shape {tuple(back.shape)} for input shape {shp}")
        if obj.size == 0:
            return None
        t, tom = taus(c)
        ef = e.reshape(-1, 3)
        sl = 1e-6 if c.get("dtype") == "float32" else SLACK
        lo = ef < -sl
        hi = ef > np.array([2 * math.pi, math.pi, 2 * math.pi]) + sl
        r.elems("range", (lo | hi).any(axis=1), lambda i: f"to_euler = {ef[i].tolist()} outside [0,2pi]x[0,pi]x[0,2pi]")
        m = mis(quat_of_euler(ef), ref)
        ctx.dev("to_euler_denotes_rad", float(np.nanmax(m)))
        r.elems("reference", ~(m <= t), lambda i: f"Euler angles {ef[i].tolist()} of q = {ref[i].tolist()} denote (scipy ZXZ) a rotation {m[i]:.3g} rad away")
        m2 = mis(back.data.reshape(-1, 4), ref)
        r.elems("roundtrip", ~(m2 <= t), lambda i: f"from_euler(to_euler(q)) = {back.data.reshape(-1, 4)[i].tolist()} differs from q = {ref[i].tolist()} by {m2[i]:.3g} rad")
        ed = obj.to_euler(degrees=True).reshape(-1, 3)
        r.elems("degrees", np.abs(ed - np.rad2deg(ef)).max(axis=1) > 1e-10, lambda i: f"to_euler(degrees=True) = {ed[i].tolist()} is not rad2deg of {ef[i].tolist()}")
        bd = I[c["cls"]].from_euler(ed.reshape(e.shape), degrees=True).data.reshape(-1, 4)
        md = mis(bd, back.data.reshape(-1, 4))
        r.elems("degrees", ~(md <= 1e-9), lambda i: f"from_euler(deg, degrees=True) differs from from_euler(rad) by {md[i]:.3g} rad")
    finally:
        w.__exit__(None, None, None)
    return None


def p_to_axes_angles(ctx, c, outs):
    I = _imp()
    w = quiet()
    try:
        obj, ref, shp = build(c)
        r = Rep(ctx, "to_axes_angles", c)
        ax = obj.to_axes_angles()
        if not isinstance(ax, I["AxAngle"]):
            r.whole("type", f"to_axes_angles returned {type(ax).__name__}")
        if tuple(ax.shape) != (shp if shp else (1,)):
            r.whole("shape", f"to_axes_angles shape {tuple(ax.shape)} for input shape {shp}")
            return None
        if obj.size == 0:
            return None
        t, tom = taus(c)
        v = ax.data.reshape(-1, 3)
        ang = np.linalg.norm(v, axis=1)
        r.elems("range", ~(ang <= math.pi + (1e-6 if c.get("dtype") == "float32" else SLACK)), lambda i: f"rotation angle {ang[i]!r} > pi for q = {ref[i].tolist()}")
        m = mis(quat_of_rotvec(v), ref)
        ctx.dev("to_axes_angles_denotes_rad", float(np.nanmax(m)))
        r.elems("reference", ~(m <= t), lambda i: f"axis-angle vector {v[i].tolist()} of q = {ref[i].tolist()} denotes (scipy rotvec) a rotation {m[i]:.3g} rad away")
        back = I[c["cls"]].from_axes_angles(ax.axis, ax.angle)
        if tuple(back.shape) != (shp if shp else (1,)):
            r.whole("shape", f"from_axes_angles(axis, angle) shape {tuple(back.shape)} for input shape {shp}")
            return None
        m2 = mis(back.data.reshape(-1, 4), ref)
        r.elems("roundtrip", ~(m2 <= t), lambda i: f"from_axes_angles(to_axes_angles(q)) = {back.data.reshape(-1, 4)[i].tolist()} differs from q = {ref[i].tolist()} by {m2[i]:.3g} rad")
        bd = I[c["cls"]].from_axes_angles(ax.axis, np.rad2deg(ax.angle), degrees=True)
        md = mis(bd.data.reshape(-1, 4), back.data.reshape(-1, 4))
        r.elems("degrees", ~(md <= 1e-9), lambda i: f"from_axes_angles(degrees=True) differs from radians by {md[i]:.3g} rad")
    finally:
        w.__exit__(None, None, None)
    return None


def p_to_rodrigues(ctx, c, outs):
    I = _imp()
    w = quiet()
    try:
        obj, ref, shp = build(c)
        r = Rep(ctx, "to_rodrigues", c)
        with np.errstate(all="ignore"):
            ro = obj.to_rodrigues()
        if not isinstance(ro, I["Rodrigues"]):
            r.whole("type", f"to_rodrigues returned {type(ro).__name__}")
        if tuple(ro.shape) != (shp if shp else (1,)):
            r.whole("shape", f"to_rodrigues shape {tuple(ro.shape)} for input shape {shp}")
            return None
        if obj.size == 0:
            return None
        t, tom = taus(c)
        v = ro.data.reshape(-1, 3)
        m = mis(quat_of_rodrigues(v), ref)
        ctx.dev("to_rodrigues_denotes_rad", float(np.nanmax(m)))
        r.elems("reference", ~(m <= t), lambda i: f"Rodrigues vector {v[i].tolist()} of q = {ref[i].tolist()} denotes a rotation {m[i]:.3g} rad away")
        with np.errstate(all="ignore"):
            back = I[c["cls"]].from_rodrigues(ro)
        if tuple(back.shape) != (shp if shp else (1,)):
            r.whole("shape", f"from_rodrigues(to_rodrigues) shape {tuple(back.shape)} for input shape {shp}")
            return None
        m2 = mis(back.data.reshape(-1, 4), ref)
        r.elems("roundtrip", ~(m2 <= t), lambda i: f"from_rodrigues(to_rodrigues(q)) = {back.data.reshape(-1, 4)[i].tolist()} differs from q = {ref[i].tolist()} by {m2[i]:.3g} rad")
    finally:
        w.__exit__(None, None, None)
    return None


def p_to_rodrigues_frank(ctx, c, outs):
    I = _imp()
    w = quiet()
    try:
        obj, ref, shp = build(c)
        r = Rep(ctx, "to_rodrigues_frank", c)
        rf = obj.to_rodrigues(frank=True)
        if tuple(rf.shape) != shp + (4,):
            r.whole("shape", f"to_rodrigues(frank=True) shape {tuple(rf.shape)} for input shape {shp}")
            return None
        if obj.size == 0:
            return None
        t, tom = taus(c)
        f = rf.reshape(-1, 4)
        nn = np.linalg.norm(f[:, :3], axis=1)
        r.elems("axis", ~(np.abs(nn - 1) <= (1e-6 if c.get("dtype") == "float32" else 1e-12)), lambda i: f"Rodrigues-Frank axis {f[i, :3].tolist()} is not a unit vector")
        r.elems("range", ~(f[:, 3] >= 0), lambda i: f"Rodrigues-Frank magnitude {f[i, 3]!r} negative (angle outside [0, pi])")
        with np.errstate(all="ignore"):
            wv = np.where(np.isinf(f[:, 3]), math.pi, 2 * np.arctan(f[:, 3]))
        m = mis(quat_of_rotvec(f[:, :3] * wv[:, None]), ref)
        ctx.dev("to_rodrigues_frank_denotes_rad", float(np.nanmax(m)))
        r.elems("reference", ~(m <= t), lambda i: f"Rodrigues-Frank vector {f[i].tolist()} of q = {ref[i].tolist()} denotes a rotation {m[i]:.3g} rad away")
        back = I[c["cls"]].from_rodrigues(f[:, :3], f[:, 3])
        m2 = mis(back.data.reshape(-1, 4), ref)
        r.elems("roundtrip", ~(m2 <= t), lambda i: f"from_rodrigues(axes, tan) of to_rodrigues(frank=True) = {back.data.reshape(-1, 4)[i].tolist()} differs from q = {ref[i].tolist()} by {m2[i]:.3g} rad")
        # the same with axes and magnitudes in the object's own n-d shape, the magnitudes in every memory layout
        if len(shp) >= 2 and rf.shape == tuple(shp) + (4,):
            for k in range(len(common.LAYOUTS)):
                backn = I[c["cls"]].from_rodrigues(common.relayout(rf[..., :3], k + 1), common.relayout(rf[..., 3], k))
                if tuple(backn.shape) != tuple(shp):
                    r.whole("shape", f"from_rodrigues(axes, tan) shape {tuple(backn.shape)} for input shape {shp}")
                    break
                m3 = mis(backn.data.reshape(-1, 4), ref)
                r.elems("roundtrip", ~(m3 <= t), lambda i: f"from_rodrigues(axes, tan) with {len(shp)}-d input (magnitudes in layout '{common.LAYOUTS[k]}') = {backn.data.reshape(-1, 4)[i].tolist()} differs from q = {ref[i].tolist()} by {m3[i]:.3g} rad")
    finally:
        w.__exit__(None, None, None)
    return None


def p_to_homochoric(ctx, c, outs):
    I = _imp()
    w = quiet()
    try:
        obj, ref, shp = build(c)
        r = Rep(ctx, "to_homochoric", c)
        with np.errstate(all="ignore"):
            ho = obj.to_homochoric()
        if not isinstance(ho, I["Homochoric"]):
            r.whole("type", f"to_homochoric returned {type(ho).__name__}")
        if tuple(ho.shape) != (shp if shp else (1,)):
            r.whole("shape", f"to_homochoric shape {tuple(ho.shape)} for input shape {shp}")
            return None
        if obj.size == 0:
            return None
        t, tom = taus(c)
        h = ho.data.reshape(-1, 3)
        hn = np.linalg.norm(h, axis=1)
        r.elems("range", ~(hn <= HO_MAX + (1e-6 if c.get("dtype") == "float32" else SLACK)), lambda i: f"homochoric length {hn[i]!r} > (3pi/4)^(1/3) = {HO_MAX!r} for q = {ref[i].tolist()}")
        m = mis(quat_of_homochoric(h), ref)
        ctx.dev("to_homochoric_denotes_rad", float(np.nanmax(np.where(hn <= HO_MAX + SLACK, m, 0))))
        r.elems("reference", ~(m <= t) & (hn <= HO_MAX + SLACK), lambda i: f"homochoric vector {h[i].tolist()} of q = {ref[i].tolist()} denotes a rotation {m[i]:.3g} rad away")
        with np.errstate(all="ignore"):
            back = I[c["cls"]].from_homochoric(ho)
        if tuple(back.shape) != (shp if shp else (1,)):
            r.whole("shape", f"from_homochoric(to_homochoric) shape {tuple(back.shape)} for input shape {shp}")
            return None
        m2 = mis(back.data.reshape(-1, 4), ref)
        ctx.dev("from_homochoric_roundtrip_rad", float(np.nanmax(np.where(hn <= HO_MAX + SLACK, m2, 0))))
        r.elems("roundtrip", ~(m2 <= t), lambda i: f"from_homochoric(to_homochoric(q)) = {back.data.reshape(-1, 4)[i].tolist()} differs from q = {ref[i].tolist()} by {m2[i]:.3g} rad")
    finally:
        w.__exit__(None, None, None)
    return None


def p_act(ctx, c, outs):
    I = _imp()
    obj, ref, shp = build(c)
    if obj.size == 0:
        return None
    r = Rep(ctx, "act", c)
    v = np.array(c["v"], float)
    scale = max(1.0, float(np.abs(v).max()))
    Q = I["Quaternion"](obj.data.reshape(-1, 4)).unit
    qv = (Q * I["V"](v[None, :])).data.reshape(-1, 3)
    mv = obj.to_matrix().reshape(-1, 3, 3) @ v
    sv = I["SR"].from_quat(ref[:, [1, 2, 3, 0]]).apply(v)
    tol = (1e-5 if c.get("dtype") == "float32" else 1e-11) * scale
    d1 = np.abs(qv - mv).max(axis=1)
    d2 = np.abs(qv - sv).max(axis=1)
    ctx.dev("act_matrix_vs_quat_rel", float(d1.max() / scale))
    r.elems("matrix", d1 > tol, lambda i: f"Q*v = {qv[i].tolist()} but to_matrix()@v = {mv[i].tolist()} for q = {ref[i].tolist()}, v = {v.tolist()}")
    r.elems("reference", d2 > tol, lambda i: f"Q*v = {qv[i].tolist()} but scipy applies {sv[i].tolist()} for q = {ref[i].tolist()}, v = {v.tolist()}")
    return None


# starting points in the other representations ------------------------------------------------------------------
def one_row(key):
    def f(c, i):
        d = dict(c)
        d[key] = [c[key][i]]
        for k in ("angles", "mags"):
            if k in c and k != key:
                d[k] = [c[k][i]]
        return d
    return f


def p_from_euler(ctx, c, outs):
    I = _imp()
    w = quiet()
    try:
        r = Rep(ctx, "from_euler", c, one_row("eu"))
        cls = I[c["cls"]]
        e = np.array(c["eu"], float).reshape(-1, 3)
        deg = bool(c.get("degrees"))
        erad = np.deg2rad(e) if deg else e
        Q = cls.from_euler(e, degrees=deg)
        q = Q.data.reshape(-1, 4)
        r.elems("unit", np.abs(np.linalg.norm(q, axis=1) - 1) > 1e-12, lambda i: f"from_euler({e[i].tolist()}) has norm {np.linalg.norm(q[i])!r}")
        qr = quat_of_euler(erad)
        m = mis(q, qr)
        ctx.dev("from_euler_vs_scipy_rad", float(m.max()))
        r.elems("reference", ~(m <= TAU), lambda i: f"from_euler({e[i].tolist()}, degrees={deg}) = {q[i].tolist()} but scipy ZXZ gives {qr[i].tolist()} ({m[i]:.3g} rad)")
        Qc = cls.from_euler(e, degrees=deg, direction="crystal2lab").data.reshape(-1, 4)
        conj = q * np.array([1, -1, -1, -1.0])
        mc = mis(Qc, conj)
        r.elems("direction", ~(mc <= 1e-9), lambda i: f"from_euler(direction='crystal2lab') = {Qc[i].tolist()} is not the inverse {conj[i].tolist()} of the lab2crystal result")
        Qm = cls.from_euler(e, degrees=deg, direction="MTEX").data.reshape(-1, 4)
        r.elems("direction", ~(mis(Qm, Qc) <= 1e-12), "direction='mtex' differs from 'crystal2lab'")
        if deg:
            Qr = cls.from_euler(erad).data.reshape(-1, 4)
            md = mis(Qr, q)
            r.elems("degrees", ~(md <= 1e-9), lambda i: f"from_euler(degrees=True) differs from from_euler(deg2rad) by {md[i]:.3g} rad")
    finally:
        w.__exit__(None, None, None)
    return None


def p_from_matrix(ctx, c, outs):
    I = _imp()
    r = Rep(ctx, "from_matrix", c, one_row("q"))
    cls = I[c["cls"]]
    qr = normalise(c["q"])
    M = ref_matrix(qr)
    Q = cls.from_matrix(M)
    q = Q.data.reshape(-1, 4)
    r.elems("unit", np.abs(np.linalg.norm(q, axis=1) - 1) > 1e-12, lambda i: f"from_matrix result has norm {np.linalg.norm(q[i])!r}")
    m = mis(q, qr)
    ctx.dev("from_matrix_vs_scipy_rad", float(m.max()))
    r.elems("reference", ~(m <= TAU_OM), lambda i: f"from_matrix(matrix of {qr[i].tolist()}) = {q[i].tolist()}: {m[i]:.3g} rad away")
    M2 = Q.to_matrix().reshape(-1, 3, 3)
    d = np.abs(M2 - M).max(axis=(1, 2))
    r.elems("roundtrip", ~(d <= 2 * TAU_OM), lambda i: f"to_matrix(from_matrix(M)) differs from M by {d[i]:.3g} for M = {M[i].tolist()}")
    S = cls.from_scipy_rotation(I["SR"].from_matrix(M).inv()).data.reshape(-1, 4)
    ms = mis(S, qr)
    r.elems("scipy", ~(ms <= TAU_OM), lambda i: f"from_scipy_rotation differs by {ms[i]:.3g} rad")
    return None


def p_from_axes_angles(ctx, c, outs):
    I = _imp()
    w = quiet()
    try:
        r = Rep(ctx, "from_axes_angles", c, one_row("axes"))
        cls = I[c["cls"]]
        ax = np.array(c["axes"], float).reshape(-1, 3)
        ang = np.array(c["angles"], float).reshape(-1)
        deg = bool(c.get("degrees"))
        Q = cls.from_axes_angles(ax, ang, degrees=deg)
        q = Q.data.reshape(-1, 4)
        arad = np.deg2rad(ang) if deg else ang
        qr = quat_of_rotvec(ax / np.linalg.norm(ax, axis=1, keepdims=True) * arad[:, None])
        m = mis(q, qr)
        ctx.dev("from_axes_angles_vs_scipy_rad", float(m.max()))
        r.elems("unit", np.abs(np.linalg.norm(q, axis=1) - 1) > 1e-12, lambda i: f"norm {np.linalg.norm(q[i])!r}")
        r.elems("reference", ~(m <= TAU), lambda i: f"from_axes_angles({ax[i].tolist()}, {ang[i]!r}, degrees={deg}) = {q[i].tolist()} but scipy rotvec gives {qr[i].tolist()} ({m[i]:.3g} rad)")
    finally:
        w.__exit__(None, None, None)
    return None


def p_from_rodrigues(ctx, c, outs):
    I = _imp()
    w = quiet()
    try:
        r = Rep(ctx, "from_rodrigues", c, one_row("ro"))
        cls = I[c["cls"]]
        ro = np.array(c["ro"], float).reshape(-1, 3)
        if "mags" in c:   # Rodrigues-Frank: unit axes + tan(w/2) (inf allowed)
            mags = np.array([float(x) for x in c["mags"]], float)
            with np.errstate(all="ignore"):
                Q = cls.from_rodrigues(ro, mags)
                wv = np.where(np.isinf(mags), math.pi, 2 * np.arctan(mags))
            qr = quat_of_rotvec(ro / np.linalg.norm(ro, axis=1, keepdims=True) * wv[:, None])
        else:
            with np.errstate(all="ignore"):
                Q = cls.from_rodrigues(ro)
            qr = quat_of_rodrigues(ro)
        q = Q.data.reshape(-1, 4)
        m = mis(q, qr)
        ctx.dev("from_rodrigues_vs_ref_rad", float(m.max()))
        r.elems("reference", ~(m <= TAU), lambda i: f"from_rodrigues({ro[i].tolist()}{', ' + repr(c['mags'][i]) if 'mags' in c else ''}) = {q[i].tolist()} but the vector denotes {qr[i].tolist()} ({m[i]:.3g} rad)")
    finally:
        w.__exit__(None, None, None)
    return None


def p_from_homochoric(ctx, c, outs):
    I = _imp()
    r = Rep(ctx, "from_homochoric", c, one_row("ho"))
    cls = I[c["cls"]]
    h = np.array(c["ho"], float).reshape(-1, 3)
    Q = cls.from_homochoric(h)
    q = Q.data.reshape(-1, 4)
    qr = quat_of_homochoric(h)
    m = mis(q, qr)
    ctx.dev("from_homochoric_vs_ref_rad", float(m.max()))
    r.elems("reference", ~(m <= TAU), lambda i: f"from_homochoric({h[i].tolist()}) = {q[i].tolist()} but the vector denotes {qr[i].tolist()} ({m[i]:.3g} rad)")
    h2 = Q.to_homochoric().data.reshape(-1, 3)
    d = np.abs(h2 - h).max(axis=1)
    r.elems("roundtrip", ~(d <= TAU), lambda i: f"to_homochoric(from_homochoric(h)) = {h2[i].tolist()} for h = {h[i].tolist()}")
    return None


# ---- corr sites -----------------------------------------------------------------------------------------------
KSPEC = {  # kernel -> (model name, generated name or None)
    "qu2om": ("qu2om", "qu2om_single"), "om2qu": ("om2qu", "om2qu_single"), "eu2qu": ("eu2qu", "eu2qu_single"),
    "qu2eu": ("qu2eu", "qu2eu_single"), "ax2qu": ("ax2qu", "ax2qu_single"), "qu2ax": ("qu2ax", "qu2ax_single"),
    "qu2ho": ("qu2ho", "qu2ho_single"), "ho2ax": ("ho2ax", "ho2ax_single"), "ax2ro": ("ax2ro", None),
    "ro2ax": ("ro2ax", None),
}


def model_args(k, args):
    if k == "ro2ax":
        inf = math.isinf(args[3])
        return list(args[:3]) + [1.0 if inf else 0.0, 0.0 if inf else args[3]]
    return list(args)


def kern_lines(c):
    k = c["k"]
    mname, gname = KSPEC[k]
    ls = [f"kern m {mname} f {hexes(model_args(k, c['args']))}"]
    if gname:
        ls.append(f"kern g {gname} f {hexes(c['args'])}")
    return ls


def impl_kernel(k, args):
    cv = _imp()["cv"]
    a = np.array(args, float)
    if k == "om2qu":
        return cv.om2qu_single(a.reshape(3, 3))
    return np.asarray(getattr(cv, k + "_single")(a), float).reshape(-1)


def kern_tol(k, args, out):
    """absolute tolerance per output component from the conditioning of the kernel at this input"""
    u = 2.3e-16
    a = np.array(args, float)
    if k == "qu2om":
        return np.full(9, 8 * u * max(1.0, float((a * a).sum())))
    if k == "om2qu":
        return np.full(4, 8 * u / math.sqrt(1e-9) * 2)
    if k == "qu2eu":
        chi = math.sqrt(max((a[0] ** 2 + a[3] ** 2) * (a[1] ** 2 + a[2] ** 2), 0.0))
        t = 1e-14 + (16 * u / chi if chi >= 1e-9 else 0.0)
        return np.full(3, t)
    if k == "qu2ho":
        w = 2 * math.acos(max(-1.0, min(1.0, a[0])))
        f = 0.75 * (w - math.sin(w))
        return np.full(3, 1e-15 + (8 * u * w / (3 * f ** (2 / 3)) if f > 0 else 0.0))
    if k == "ho2ax":
        w = out[3] if out[3] == out[3] else 0.0
        return np.array([1e-14] * 3 + [1e-14 + 64 * u / max(abs(math.sin(w / 2)), 1e-6)])
    if k == "ax2ro":
        return np.array([1e-15] * 3 + [1e-11 * max(1.0, abs(out[3]) if math.isfinite(out[3]) else 1.0)])
    return np.full(len(out), 1e-14)


def veq(x, y, tol, circ=False):
    """None if equal within tol (NaN == NaN, inf == inf), else index of the first mismatch"""
    for i, (p, q) in enumerate(zip(x, y)):
        if p != p or q != q:
            if not (p != p and q != q):
                return i
            continue
        if math.isinf(p) or math.isinf(q):
            if p != q:
                return i
            continue
        d = abs(p - q)
        if circ:
            d = min(d % (2 * math.pi), 2 * math.pi - d % (2 * math.pi))
        if d > tol[i]:
            return i
    return None


def kern_check(ctx, c, outs):
    k = c["k"]
    mname, gname = KSPEC[k]
    if outs[0].startswith("!err"):
        return f"model kernel {mname}: {outs[0]}"
    m = [h2f(x) for x in outs[0].split()]
    if k == "ax2ro":
        m = m[:3] + [math.inf if m[3] == 1.0 else m[4]]
    impl = [float(x) for x in impl_kernel(k, c["args"])]
    if len(impl) != len(m):
        return f"{k}: model returns {len(m)} values, kernel {len(impl)}"
    tol = kern_tol(k, c["args"], impl)
    circ = k == "qu2eu"
    if c.get("exact"):
        if [float(x) for x in m] != impl:
            return f"{k}_single{tuple(c['args'])} = {impl} but model (exact dyadic input) = {m}"
    else:
        i = veq(m, impl, tol, circ)
        if i is not None:
            return f"{k}_single({c['args']}) = {impl} but model {mname} = {m} (component {i}, tolerance {tol[i]:.3g})"
        dv = [abs(p - q) for p, q in zip(m, impl) if p == p and q == q and math.isfinite(p) and math.isfinite(q)]
        if dv and not circ:
            ctx.dev(f"kernel_{k}_model_vs_numba_abs", max(dv))
    if gname and len(outs) > 1 and not outs[1].startswith("!err unknown"):
        if outs[1].startswith("!err"):
            return f"generated kernel {gname}: {outs[1]}"
        g = [h2f(x) for x in outs[1].split()]
        if outs[1] == outs[0]:
            ctx.extra["gen_model_bit_identical"] = ctx.extra.get("gen_model_bit_identical", 0) + 1
        else:
            ctx.extra["gen_model_not_bit_identical"] = ctx.extra.get("gen_model_not_bit_identical", 0) + 1
            i = veq(g, m, tol, circ)
            if i is not None:
                return f"generated {gname} = {g} but model {mname} = {m} on {c['args']} (component {i})"
    return None


WOPS = ["toMatrix", "toEuler", "toEulerDeg", "toAxesAngles", "toRodriguesFrank", "toRodrigues", "toHomochoric"]


def wrap_lines(c):
    q = hexes(c["q"])
    return [f"kern m toMatrix f {q}", f"kern m toEuler f {f2h(0.0)} {q}", f"kern m toEuler f {f2h(1.0)} {q}",
            f"kern m toAxesAngles f {q}", f"kern m toRodriguesFrank f {q}", f"kern m toRodrigues f {q}",
            f"kern m toHomochoric f {q}"]


def wrap_check(ctx, c, outs):
    I = _imp()
    w = quiet()
    try:
        Q = I["Quaternion"](np.array(c["q"], float))
        qn = normalise(c["q"])[0]
        chi = math.sqrt((qn[0] ** 2 + qn[3] ** 2) * (qn[1] ** 2 + qn[2] ** 2))
        et = 1e-13 + (4e-15 / chi if chi >= 1e-9 else 0.0)
        mo = [[h2f(x) for x in o.split()] for o in outs]
        with np.errstate(all="ignore"):
            rf = Q.to_rodrigues(frank=True).reshape(-1)
            impl = [Q.to_matrix().reshape(-1), Q.to_euler().reshape(-1), Q.to_euler(degrees=True).reshape(-1),
                    Q.to_axes_angles().data.reshape(-1), rf, None, Q.to_homochoric().data.reshape(-1)]
            if abs(np.linalg.norm(c["q"]) - 1) < 1e-9:   # to_rodrigues() is defined for unit quaternions only
                impl[5] = Q.to_rodrigues().data.reshape(-1)
        mo[4] = mo[4][:3] + [math.inf if mo[4][3] == 1.0 else mo[4][4]]
        w_ = 2 * math.acos(min(1.0, abs(qn[0])))
        f_ = 0.75 * (w_ - math.sin(w_))
        # arccos(a) near a = 1: the two sides normalise q with differently rounded sums (a differs by an ulp), which
        # moves the angle by 2 ulp / |vec q|
        ac = 16 * 2.3e-16 / max(float(np.linalg.norm(qn[1:])), 1e-300)
        hot = 1e-13 + (1e-15 * w_ / (f_ ** (2 / 3)) if f_ > 0 else 0.0) + ac
        tols = [np.full(9, 1e-14), np.full(3, et), np.full(3, et * 60), np.full(3, 1e-12 + ac),
                np.array([1e-13] * 3 + [ac + 1e-10 * max(1.0, abs(rf[3]) if math.isfinite(rf[3]) else 1.0)]),
                None, np.full(3, hot)]
        for name, m, im, tl in zip(WOPS, mo, impl, tols):
            if im is None:
                continue
            im = [float(x) for x in im]
            if name == "toRodrigues":
                tl = np.array([ac + 1e-10 * max(1.0, abs(x)) if math.isfinite(x) else 1.0 for x in im])
                if abs(qn[0]) < 1e-7:     # tan(pi/2 - tiny): huge, ill-conditioned; compare direction only
                    nm, ni = np.array(m), np.array(im)
                    if np.linalg.norm(nm / np.linalg.norm(nm) - ni / np.linalg.norm(ni)) > 1e-9:
                        return f"{name}: model {m} vs implementation {im} for q = {c['q']}"
                    continue
            i = veq(m, im, tl, circ=name == "toEuler")
            if name == "toEulerDeg":
                i = None if all((abs(p - q_) % 360 < tl[j] or 360 - abs(p - q_) % 360 < tl[j]) or (p != p and q_ != q_)
                                for j, (p, q_) in enumerate(zip(m, im))) else 0
            if i is not None:
                return f"{name}: model {m} vs implementation {im} for q = {c['q']} (component {i}, tol {tl[i]:.3g})"
    finally:
        w.__exit__(None, None, None)
    return None


def wrapfrom_lines(c):
    ls = []
    for op in c["ops"]:
        ls.append(f"kern m {op['m']} f {hexes(op['args'])}")
    return ls


def wrapfrom_check(ctx, c, outs):
    I = _imp()
    Q = I["Quaternion"]
    w = quiet()
    try:
        for op, o in zip(c["ops"], outs):
            if o.startswith("!err"):
                return f"{op['m']}: {o}"
            m = np.array([h2f(x) for x in o.split()])
            a = op["args"]
            with np.errstate(all="ignore"):
                if op["m"] == "fromEuler":
                    im = Q.from_euler(np.array(a[2:5]), direction="crystal2lab" if a[0] == 1.0 else "lab2crystal",
                                      degrees=a[1] == 1.0).data
                elif op["m"] == "fromAxesAngles":
                    im = Q.from_axes_angles(np.array(a[1:4]), a[4], degrees=a[0] == 1.0).data
                elif op["m"] == "fromRodriguesFrank":
                    im = Q.from_rodrigues(np.array(a[0:3]), np.array([math.inf if a[3] == 1.0 else a[4]])).data
                elif op["m"] == "fromRodrigues":
                    im = Q.from_rodrigues(np.array(a[0:3])).data
                elif op["m"] == "fromHomochoric":
                    im = Q.from_homochoric(np.array(a[0:3])).data
                elif op["m"] == "om2qu":
                    im = Q.from_matrix(np.array(a).reshape(3, 3)).data
                else:
                    return f"unknown op {op['m']}"
            im = im.reshape(-1)
            bad_m, bad_i = np.isnan(m).any(), np.isnan(im).any()
            if bad_m or bad_i:
                if bad_m != bad_i:
                    return f"{op['m']}({a}): model {m.tolist()} vs implementation {im.tolist()}"
                continue
            d = np.abs(m - im).max()
            ctx.dev("wrapper_from_model_vs_impl_abs", float(d))
            if d > (1e-9 if op["m"] in ("om2qu", "fromHomochoric") else 1e-12):
                return f"{op['m']}({a}): model {m.tolist()} vs implementation {im.tolist()}"
    finally:
        w.__exit__(None, None, None)
    return None


SITES = {
    "kern": sites.Site("kern", "corr", kern_check, kern_lines),
    "wrap": sites.Site("wrap", "corr", wrap_check, wrap_lines),
    "wrapfrom": sites.Site("wrapfrom", "corr", wrapfrom_check, wrapfrom_lines),
    "to_matrix": sites.Site("to_matrix", "prop", p_to_matrix),
    "to_euler": sites.Site("to_euler", "prop", p_to_euler),
    "to_axes_angles": sites.Site("to_axes_angles", "prop", p_to_axes_angles),
    "to_rodrigues": sites.Site("to_rodrigues", "prop", p_to_rodrigues),
    "to_rodrigues_frank": sites.Site("to_rodrigues_frank", "prop", p_to_rodrigues_frank),
    "to_homochoric": sites.Site("to_homochoric", "prop", p_to_homochoric),
    "act": sites.Site("act", "prop", p_act),
    "sequence": sites.Site("sequence", "prop", p_sequence),
    "neo_euler": sites.Site("neo_euler", "prop", p_neo_euler),
    "from_euler": sites.Site("from_euler", "prop", p_from_euler),
    "from_matrix": sites.Site("from_matrix", "prop", p_from_matrix),
    "from_axes_angles": sites.Site("from_axes_angles", "prop", p_from_axes_angles),
    "from_rodrigues": sites.Site("from_rodrigues", "prop", p_from_rodrigues),
    "from_homochoric": sites.Site("from_homochoric", "prop", p_from_homochoric),
}


# ---- known findings: narrow classifiers of a failing (one-element) case ---------------------------------------
def _stored(c):
    try:
        return build(c)[1]
    except Exception:
        return np.zeros((0, 4))


def pred_ho_negative_scalar(c):
    """to_homochoric on a quaternion whose (stored, normalised) scalar part is negative"""
    q = _stored(c)
    return len(q) == 1 and q[0, 0] < 0


def pred_euler_phi_pi_bc(c):
    """to_euler in the Phi = pi gimbal branch of qu2eu_single (chi < eps9, q_bc >= eps9) with b*c != 0"""
    q = _stored(c)
    if len(q) != 1:
        return False
    a, b, cc, d = q[0]
    q_ad, q_bc = a * a + d * d, b * b + cc * cc
    return math.sqrt(q_ad * q_bc) < 1e-9 and q_bc >= 1e-9 and b * cc != 0


def pred_rf_cutoff(c):
    """to_rodrigues(frank=True) for a rotation angle within 1e-3 of pi but not pi itself (documented cut-off)"""
    q = _stored(c)
    if len(q) != 1:
        return False
    w = 2 * math.atan2(float(np.linalg.norm(q[0, 1:])), abs(q[0, 0]))
    return 0 < math.pi - w < 1e-3 + 1e-9


def _angle(q):
    return 2 * math.atan2(float(np.linalg.norm(q[1:])), abs(q[0]))


def pred_ho_fit_near_identity(c):
    """to_homochoric -> from_homochoric round trip of a rotation by less than 1e-6 rad (constant term of the fit)"""
    q = _stored(c)
    return len(q) == 1 and q[0, 0] >= 0 and 0 < _angle(q[0]) < 1e-6


def pred_ho_fit_small_vector(c):
    h = np.array(c.get("ho", [[1.0, 0, 0]]), float).reshape(-1, 3)
    return len(h) == 1 and 0 < float(np.linalg.norm(h[0])) < 5e-7


PREDICATES = {"c01_ho_fit_near_identity": pred_ho_fit_near_identity,
              "c01_ho_fit_small_vector": pred_ho_fit_small_vector,
              "c01_ho_negative_scalar": pred_ho_negative_scalar, "c01_euler_phi_pi_bc": pred_euler_phi_pi_bc,
              "c01_rf_cutoff": pred_rf_cutoff}


# ---- generators -----------------------------------------------------------------------------------------------
STRATA = ["haar", "haar", "lower", "identity", "near0", "nearpi", "pi", "pi_mixed", "axis", "nearaxis", "plane",
          "gimbal0", "gimbalpi", "neargimbal0", "neargimbalpi", "pyth", "negident", "tiny", "negzero"]


def eu_quat(p1, P, p2):
    s, d = 0.5 * (p1 + p2), 0.5 * (p1 - p2)
    c, sn = math.cos(P / 2), math.sin(P / 2)
    return np.array([c * math.cos(s), -sn * math.cos(d), -sn * math.sin(d), -c * math.sin(s)])


def gen_q(rng, s):
    """one unit quaternion of stratum s (list of 4 floats)"""
    if s in ("haar", "lower", "near0", "nearpi", "pi", "axis", "plane", "pyth", "identity"):
        q, _ = G.unit_quat(rng, s)
        return q
    sg = rng.choice([-1.0, 1.0])
    if s == "negident":
        return [-1.0, 0.0, 0.0, 0.0]
    if s == "negzero":   # scalar part in [-1e-6, -3e-8]: just below zero (angle just below pi, lower hemisphere)
        a = -float(10.0 ** rng.uniform(-7.5, -6))
        ax = rng.normal(size=3)
        ax /= np.linalg.norm(ax)
        return [a] + [float(x) for x in ax * math.sqrt(1 - a * a)]
    if s == "tiny":   # rotation angle log-uniform in [2e-8, 1e-6]
        w = float(10.0 ** rng.uniform(math.log10(2e-8), -6))
        ax = rng.normal(size=3)
        ax /= np.linalg.norm(ax)
        q = np.concatenate([[math.cos(w / 2)], math.sin(w / 2) * ax]) * sg
        return [float(x) for x in q]
    if s == "pi_mixed":
        v = rng.normal(size=3) * rng.choice([-1.0, 1.0], 3)
        if rng.random() < 0.4:
            v[rng.integers(3)] = 0.0
        if not np.any(v):
            v[0] = 1.0
        v /= np.linalg.norm(v)
        return [0.0] + [float(x) for x in v]
    if s == "nearaxis":
        ax = np.zeros(3)
        ax[rng.integers(3)] = rng.choice([-1, 1])
        ax = ax + rng.normal(size=3) * 10.0 ** -rng.integers(3, 13)
        ax /= np.linalg.norm(ax)
        w = rng.uniform(0, 2 * math.pi)
        q = np.concatenate([[math.cos(w / 2)], math.sin(w / 2) * ax])
    elif s == "gimbal0":
        w = rng.uniform(0, 2 * math.pi)
        q = np.array([math.cos(w / 2), 0.0, 0.0, math.sin(w / 2)]) * sg
    elif s == "gimbalpi":
        w = rng.uniform(0, 2 * math.pi)
        q = np.array([0.0, math.cos(w), math.sin(w), 0.0])
        if rng.random() < 0.3:
            q = np.array([0.0, 1.0, 0.0, 0.0]) if rng.random() < 0.5 else np.array([0.0, 0.0, -1.0, 0.0])
    elif s == "neargimbal0":
        q = eu_quat(rng.uniform(0, 2 * math.pi), 10.0 ** -rng.integers(3, 13), rng.uniform(0, 2 * math.pi)) * sg
    elif s == "neargimbalpi":
        q = eu_quat(rng.uniform(0, 2 * math.pi), math.pi - 10.0 ** -rng.integers(3, 13), rng.uniform(0, 2 * math.pi)) * sg
    else:
        raise ValueError(s)
    q = q / np.linalg.norm(q)
    return [float(x) for x in q]


SHAPES = [(1,), (1,), (3,), (2, 2), (2, 1, 2), (0,), (2, 0)]
TO_SITES = ["to_matrix", "to_euler", "to_axes_angles", "to_rodrigues", "to_rodrigues_frank", "to_homochoric"]


def generate(ctx):
    rng = ctx.rng
    quick = ctx.tier == "quick"
    # --- (a) kernel level --------------------------------------------------------------------------------
    nk = 45 if quick else 600
    cv = None
    for rnd in range(nk):
        for s in STRATA:
            q = gen_q(rng, s)
            qa = np.array(q)
            qp = qa if qa[0] >= 0 else -qa
            I = _imp()
            cv = I["cv"]
            with np.errstate(all="ignore"):
                om = cv.qu2om_single(qa).reshape(-1)
                eu = cv.qu2eu_single(qa)
                ax = cv.qu2ax_single(qp)
                ho = cv.qu2ho_single(qp)
                ro = cv.ax2ro_single(ax)
            cases = [("qu2om", q), ("om2qu", om), ("qu2eu", q), ("eu2qu", eu), ("qu2ax", q), ("ax2qu", ax),
                     ("qu2ho", q), ("ho2ax", ho), ("ax2ro", ax), ("ro2ax", ro)]
            for k, a in cases:
                c = {"k": k, "args": [float(x) for x in a]}
                ctx.count(f"kern/{k}/{s}", ("k", k, c["args"]), nontrivial=s not in ("identity", "negident"))
                yield "kern", c
            c = {"q": [float(x) * (1.0 if rnd % 3 else float(rng.uniform(0.2, 5))) for x in q]}
            ctx.count(f"wrap/{s}", ("w", c["q"]), nontrivial=s not in ("identity", "negident"))
            yield "wrap", c
            with np.errstate(all="ignore"), warnings.catch_warnings():
                warnings.simplefilter("ignore")
                Q = I["Quaternion"](qp)
                e = Q.to_euler().reshape(-1)
                av = Q.to_axes_angles()
                rf = Q.to_rodrigues(frank=True).reshape(-1)
                rv = Q.to_rodrigues().data.reshape(-1)
                hv = Q.to_homochoric().data.reshape(-1)
            deg = float(rnd % 2)
            ops = [{"m": "fromEuler", "args": [float(rnd % 3 == 0), deg] + [float(x) for x in (np.rad2deg(e) if deg else e)]},
                   {"m": "fromAxesAngles", "args": [deg] + [float(x) * 2.0 for x in av.axis.data.reshape(-1)]
                    + [float(np.rad2deg(av.angle[0]) if deg else av.angle[0])]},
                   {"m": "fromRodriguesFrank", "args": [float(x) for x in rf[:3]] + [1.0 if math.isinf(rf[3]) else 0.0,
                                                                                   0.0 if math.isinf(rf[3]) else float(rf[3])]},
                   {"m": "fromHomochoric", "args": [float(x) for x in hv]},
                   {"m": "om2qu", "args": [float(x) for x in om]}]
            if np.all(np.isfinite(rv)) and np.linalg.norm(rv) < 1e8:
                ops.append({"m": "fromRodrigues", "args": [float(x) for x in rv]})
            ops = [o for o in ops if all(x == x for x in o["args"])]
            c = {"ops": ops}
            ctx.count(f"wrapfrom/{s}", ("wf", q), nontrivial=s not in ("identity", "negident"))
            yield "wrapfrom", c
    # exact comparison of qu2om on dyadic inputs
    for _ in range(40 if quick else 400):
        q = [float(x) / 8 for x in rng.integers(-16, 17, size=4)]
        ctx.count("kern/qu2om/dyadic-exact", ("kd", q), nontrivial=any(q[1:]))
        yield "kern", {"k": "qu2om", "args": q, "exact": True}
    # --- (b) public API, quaternion starting points ---------------------------------------------------
    nb = 22 if quick else 400
    classes = ["Quaternion", "Quaternion", "Rotation", "Orientation"]
    k = 0
    for rnd in range(nb):
        for s in STRATA:
            k += 1
            shp = SHAPES[rng.integers(len(SHAPES))] if rnd % 4 == 0 else (int(rng.integers(1, 4)),)
            n = int(np.prod(shp))
            qs = [gen_q(rng, s) for _ in range(n)]
            dt, scale = "float64", 1.0
            mode = k % 9
            if mode == 5:
                dt = "float32"
            elif mode == 6:
                scale = float(rng.choice([0.25, 3.0, 1e-3, 1e3]))
            elif mode == 7:
                dt = "int"
                qs = []
                for _ in range(n):
                    v = rng.integers(-3, 4, size=4)
                    if s in ("pi", "pi_mixed", "gimbalpi"):
                        v[0] = 0
                    if s in ("gimbalpi",):
                        v[3] = 0
                    if s in ("gimbal0",):
                        v[1] = v[2] = 0
                    if not np.any(v):
                        v[1] = 1
                    qs.append([float(x) for x in v])
            c = {"cls": classes[k % 4], "q": qs, "shape": list(shp), "dtype": dt, "scale": scale, "stratum": s}
            nontriv = n > 0 and s not in ("identity", "negident")
            for site in TO_SITES:
                if site == "to_rodrigues" and (scale != 1.0 or dt == "int"):
                    continue   # the property quantifies over unit quaternions; to_rodrigues() is only used on those
                ctx.count(f"{site}/{s}/{dt}{'' if scale == 1.0 else '/unnormalised'}{'/empty' if n == 0 else ''}/{c['cls']}"
                          if not quick else f"{site}/{s}", (site, qs, shp, dt, scale, c["cls"]), nontrivial=nontriv)
                if rnd == 0 and site == "to_euler":
                    ctx.sample({"site": site, **c})
                yield site, c
            if n and dt != "int":
                cs = dict(c)
                cs["order"] = [int(x) for x in rng.permutation(9)]
                ctx.count(f"sequence/{s}", ("seq", qs, cs["order"]), nontrivial=nontriv)
                yield "sequence", cs
                yield "neo_euler", cs
            if n:
                ca = dict(c)
                ca["v"] = G.vec(rng)
                ctx.count(f"act/{s}", ("act", qs, ca["v"]), nontrivial=nontriv)
                yield "act", ca
    # --- (c) starting points in the other representations ---------------------------------------------
    nc = 60 if quick else 1000
    for i in range(nc):
        cls = classes[i % 4]
        # Euler triplets (incl. out-of-range values, gimbal angles, degrees)
        m = i % 6
        e = [float(rng.uniform(-2 * math.pi, 4 * math.pi)), float(rng.uniform(0, math.pi)), float(rng.uniform(-2 * math.pi, 4 * math.pi))]
        if m == 1:
            e[1] = 0.0
        elif m == 2:
            e[1] = math.pi
        elif m == 3:
            e[1] = float(rng.choice([1.0, -1.0]) * 10.0 ** -rng.integers(3, 13)) % math.pi
        elif m == 4:
            e = [float(x) for x in rng.choice([0.0, math.pi / 2, math.pi, 3 * math.pi / 2, 2 * math.pi], 3)]
            e[1] = min(e[1], math.pi)
        deg = i % 3 == 0
        c = {"cls": cls, "eu": [[float(np.rad2deg(x)) for x in e] if deg else e], "degrees": deg}
        ctx.count(f"from_euler/{['generic', 'Phi0', 'Phipi', 'nearPhi0', 'grid', 'generic'][m]}", ("fe", e, deg))
        yield "from_euler", c
        qe = quat_of_euler(np.array([e]))[0]
        ce = {"cls": cls, "q": [[float(x) for x in qe]], "shape": [1], "dtype": "float64", "scale": 1.0,
              "stratum": "from-euler-triplet"}
        ctx.count("to_euler/from-euler-triplet", ("te", e))
        yield "to_euler", ce
        # matrices
        s = STRATA[i % len(STRATA)]
        q = gen_q(rng, s)
        ctx.count(f"from_matrix/{s}", ("fm", q), nontrivial=s not in ("identity", "negident"))
        yield "from_matrix", {"cls": cls, "q": [q]}
        # axis-angle pairs
        axv = G.vec(rng)
        ang = float([rng.uniform(-7, 7), 0.0, math.pi, -math.pi, 10.0 ** -rng.integers(3, 13), math.pi - 10.0 ** -rng.integers(3, 13),
                     rng.uniform(0, math.pi), 2 * math.pi][i % 8])
        deg = i % 5 == 0
        c = {"cls": cls, "axes": [axv], "angles": [float(np.rad2deg(ang)) if deg else ang], "degrees": deg}
        ctx.count(f"from_axes_angles/{i % 8}", ("fa", axv, ang, deg), nontrivial=ang != 0.0)
        yield "from_axes_angles", c
        # Rodrigues vectors / Rodrigues-Frank
        nrm = float(10.0 ** rng.uniform(-7, 5))
        d = rng.normal(size=3)
        d /= np.linalg.norm(d)
        if i % 2 == 0:
            c = {"cls": cls, "ro": [[float(x) for x in d * nrm]]}
            ctx.count("from_rodrigues/vector", ("fr", c["ro"]))
        else:
            mag = [nrm, "inf", 0.0, float(math.tan((math.pi - 1e-6) / 2))][(i // 2) % 4]
            c = {"cls": cls, "ro": [[float(x) for x in d]], "mags": [mag]}
            ctx.count("from_rodrigues/frank", ("frf", c["ro"], mag), nontrivial=mag != 0.0)
        yield "from_rodrigues", c
        # homochoric vectors inside the ball
        rad = float([rng.uniform(0, HO_MAX), HO_MAX * (1 - 1e-9), 10.0 ** -rng.integers(1, 7), 0.0,
                     10.0 ** rng.uniform(-8, -6.3)][i % 5])
        c = {"cls": cls, "ho": [[float(x) for x in d * rad]]}
        ctx.count(f"from_homochoric/{['ball', 'surface', 'small', 'zero', 'tiny'][i % 5]}", ("fh", c["ho"]), nontrivial=rad > 0)
        yield "from_homochoric", c


def run(ctx, status):
    driver_ok = lean_phase(ctx, status, ["OrixProofs.Properties.C01"], kernels=KERNELS)
    ctx.note(TAST_NOTE)
    for k, why in (status.get("skipped_obligations") or {}).items():
        if k in KERNELS:
            ctx.note(f"T-ast: obligation for {k} not generated ({why}); tied by the correspondence check alone")
    ctx.extra["kernels_with_tast_obligation"] = sorted(k for k in KERNELS if k in status["obligations"])
    ctx.extra["kernels_correspondence_only"] = sorted([k for k in KERNELS if k not in status["obligations"]]
                                                     + ["ax2ro_single", "ro2ax_single"])
    ctx.extra["tolerances"] = {"tau_rad": TAU, "tau_matrix_path_rad": TAU_OM, "tau_float32_rad": TAU_F32,
                               "tau_matrix_path_float32_rad": TAU_OM_F32, "range_slack": SLACK}
    ctx.extra["undischarged_statements"] = [
        "ho2ax (qu2ho q) = qu2ax q: homochoric inverse is a fitted polynomial, correspondence only",
        "bounded deviation inside the eps bands of om2qu / qu2eu / qu2ax: measured only",
        "eu2qu (qu2eu q) = +-q at Phi = pi with b*c != 0: false for the code-shaped model "
        "(Orix.C01.qu2eu_code_fails_at_pi), proved for the corrected factor and under b*c = 0"]
    if ctx.replay:
        site, case, body = sites.load_replay(ctx.replay)
        if site in SITES:
            sites.run_cases(ctx, SITES, [(site, case)], driver_ok)
    else:
        sites.run_cases(ctx, SITES, generate(ctx), driver_ok)
    return common.finish(
        ctx, "proof", PREDICATES,
        rule="seeded stratified generation: unit quaternions (Haar, lower hemisphere, +-identity, angle within "
             "1e-3..1e-12 of 0 and pi, exactly pi with mixed-sign / in-plane axes, coordinate axes and near them, "
             "coordinate planes, gimbal Phi = 0 / pi exactly and within 1e-3..1e-12, rational); float32, integer and "
             "un-normalised data; shapes (1,), (n,), n-D, empty; Quaternion / Rotation / Orientation; Euler triplets "
             "(out-of-range, gimbal, degrees), matrices, axis-angle pairs (negative, > pi, degrees), Rodrigues and "
             "Rodrigues-Frank vectors (incl. inf), homochoric vectors as starting points; a case is non-trivial when "
             "it is not (+-)identity / empty / zero; distinct by hash of the canonical input",
        assumptions=["floating-point rounding is outside the theorems (measured: worst_model_impl_deviation)",
                     "scipy.spatial.transform.Rotation is the independent reference (support oracle)",
                     "numba-compiled kernels execute the Python source they were compiled from (fresh cache per tree)",
                     "theorems about the code-shaped model hold outside the eps bands stated as guards; inside the "
                     "bands the code snaps to the singular value (error <= the stated tolerances, measured only)"])
