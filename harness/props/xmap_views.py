"""Crystal-map checks with SEVERAL LIVE VIEWS of one source map (C11, C12).

A selection is a shallow copy that shares the property container and the phase list with its source.  The linear
histories of c11.py / c12.py only ever look at the newest view; these sites keep several selections of the same map
alive (some with equally many points), read and assign through them in an interleaved order, and compare with a
set-semantics reference.  Added after two seeded changes (stale shared mask, refresh keyed by point count) were missed."""
from __future__ import annotations

import warnings

import numpy as np


def build(c):
    from orix.crystal_map import CrystalMap, create_coordinate_arrays
    from orix.quaternion import Rotation
    shape = tuple(c["shape"])
    d, n = create_coordinate_arrays(shape, tuple(c["step"][: len(shape)]))
    kw = {}
    if "x" in d and d["x"] is not None:
        kw["x"] = d["x"] + c["origin"][0]
    if "y" in d and d.get("y") is not None:
        kw["y"] = d["y"] + c["origin"][1]
    props = {k: np.asarray(v, float).copy() for k, v in c["props"].items()}
    with warnings.catch_warnings():
        warnings.simplefilter("ignore")
        xm = CrystalMap(Rotation.identity((n,)), phase_id=np.asarray(c["phase_id"]), prop=props, **kw)
    return xm, n


def key_of(k, shape):
    if k["t"] == "col":
        return (slice(None), k["i"]) if len(shape) == 2 else k["i"]
    if k["t"] == "row":
        return (k["i"], slice(None)) if len(shape) == 2 else slice(None)
    if k["t"] == "slice":
        s = tuple(slice(*x) for x in k["s"])
        return s if len(s) > 1 else s[0]
    if k["t"] == "mask":
        return np.asarray(k["m"], bool)
    if k["t"] == "phase":
        return np.asarray(k["m"], bool)  # phase selection expressed as its mask on the source
    raise ValueError(k)


def ref_ids(k, shape, n):
    ids = np.arange(n).reshape(shape)
    if k["t"] == "col":
        return (ids[:, k["i"]] if len(shape) == 2 else ids[k["i"]:k["i"] + 1]).ravel()
    if k["t"] == "row":
        return (ids[k["i"], :] if len(shape) == 2 else ids).ravel()
    if k["t"] == "slice":
        s = tuple(slice(*x) for x in k["s"])
        return ids[s].ravel()
    return np.flatnonzero(np.asarray(k["m"], bool))


def read_view(view, name):
    """the three access paths of a property + the 2-D placement"""
    a = np.asarray(getattr(view, name))
    b = np.asarray(view.prop[name])
    m = view.get_map_data(name)
    return a, b, m


def views_read_check(ctx, c, outs):
    xm, n = build(c)
    shape = tuple(c["shape"])
    views = []
    with warnings.catch_warnings():
        warnings.simplefilter("ignore")
        for k in c["keys"]:
            views.append((xm[key_of(k, shape)], ref_ids(k, shape, n), k))
        for step, vi in enumerate(c["order"]):
            if vi < 0:
                repr(xm)          # touching the source map refreshes the shared container for the source
                _ = xm.prop
                continue
            v, ids, k = views[vi]
            if not np.array_equal(v.id, ids):
                return f"step {step}: view {vi} ({k}) has ids {v.id.tolist()}, expected {ids.tolist()}"
            for name, full in c["props"].items():
                want = np.asarray(full, float)[ids]
                a, b, m = read_view(v, name)
                if a.shape != want.shape or not np.array_equal(a, want):
                    return (f"step {step}: view {vi} ({k}).{name} = {a.tolist()} but the selected points {ids.tolist()} "
                            f"have {want.tolist()} (other live selections of the same map were read before)")
                if b.shape != want.shape or not np.array_equal(b, want):
                    return f"step {step}: view {vi} ({k}).prop['{name}'] = {b.tolist()}, expected {want.tolist()}"
                if m.shape != tuple(v.shape) or not np.array_equal(m[v.row, v.col] if len(v.shape) == 2 else m[v.col], want):
                    return (f"step {step}: view {vi} ({k}).get_map_data('{name}') does not place the values of the selected "
                            f"points at their (row, col)")
        # the source map is untouched
        for name, full in c["props"].items():
            if not np.array_equal(np.asarray(xm.prop[name]), np.asarray(full, float)):
                return f"source map property '{name}' changed by reading through selections"
    return None


def views_assign_check(ctx, c, outs):
    xm, n = build(c)
    shape = tuple(c["shape"])
    expect = {k: np.asarray(v, float).copy() for k, v in c["props"].items()}
    pid = np.asarray(c["phase_id"]).copy()
    views = []
    with warnings.catch_warnings():
        warnings.simplefilter("ignore")
        for k in c["keys"]:
            views.append((xm[key_of(k, shape)], ref_ids(k, shape, n), k))
        for step, op in enumerate(c["ops"]):
            if op["t"] == "touch":
                repr(xm)
                _ = xm.prop
                continue
            v, ids, k = views[op["v"]]
            if op["t"] == "read":
                _ = np.asarray(getattr(v, op["name"]))
                continue
            if op["t"] == "set_prop":
                val = op["value"] if np.isscalar(op["value"]) else np.asarray(op["value"], float)
                if op.get("attr", True):
                    setattr(v, op["name"], val)
                else:
                    v.prop[op["name"]] = val
                expect[op["name"]][ids] = val
            elif op["t"] == "set_phase":
                if op["value"] != -1 and op["value"] not in xm.phases.ids:
                    continue          # not an admissible assignment (id neither -1 nor in the phase list): outside the property
                v.phase_id = op["value"]
                pid[ids] = op["value"]
            # after every assignment: exactly the selected points of the underlying map changed
            for name in expect:
                got = np.asarray(xm.prop[name])
                if not np.array_equal(got, expect[name]):
                    bad = np.flatnonzero(got != expect[name]).tolist()
                    return (f"step {step} {op}: after assigning through view {op['v']} ({k}, points {ids.tolist()}) the "
                            f"underlying property '{name}' is wrong at points {bad}: {got.tolist()} vs expected "
                            f"{expect[name].tolist()}")
            if not np.array_equal(np.asarray(xm.phase_id), pid):
                return f"step {step} {op}: underlying phase ids {np.asarray(xm.phase_id).tolist()} != expected {pid.tolist()}"
    return None


def gen_views_case(rng, assign=False):
    shape = [(4, 5), (3, 4), (2, 6), (6,), (5, 2)][rng.integers(5)]
    n = int(np.prod(shape))
    c = {"shape": list(shape), "step": [float(rng.choice([1.0, 1.5, 0.5])), float(rng.choice([1.0, 2.0]))],
         "origin": [float(rng.choice([0.0, 3.0, -1.5])), float(rng.choice([0.0, 2.0]))],
         "phase_id": [int(x) for x in (np.arange(n) % 2 if rng.random() < 0.5 else rng.integers(0, 2, n))],
         "props": {"iq": [float(100 + i) for i in range(n)], "score": [float(i) / 4 for i in range(n)]}}
    # both phase ids occur in the data, so that assigning 0 or 1 is admissible (the property speaks of ids that are -1 or
    # already in the phase list; a phase without points is dropped by the constructor)
    c["phase_id"][0], c["phase_id"][1] = 0, 1
    keys = []
    if len(shape) == 2:
        i, j = rng.choice(shape[1], 2, replace=False)
        keys += [{"t": "col", "i": int(i)}, {"t": "col", "i": int(j)}]      # equally many points
        r1, r2 = rng.choice(shape[0], 2, replace=False)
        keys += [{"t": "row", "i": int(r1)}, {"t": "row", "i": int(r2)}]
    pid = np.asarray(c["phase_id"])
    keys += [{"t": "phase", "m": (pid == 0).tolist()}, {"t": "phase", "m": (pid == 1).tolist()}]
    m = rng.random(n) < 0.5
    if m.any() and not m.all():
        keys += [{"t": "mask", "m": m.tolist()}, {"t": "mask", "m": (~m).tolist()}]
    keys = [k for k in keys if len(ref_ids(k, tuple(shape), n)) > 0]
    rng.shuffle(keys)
    c["keys"] = keys[: int(rng.integers(2, min(6, len(keys)) + 1))]
    nv = len(c["keys"])
    if not assign:
        c["order"] = [int(x) for x in rng.integers(-1, nv, size=int(rng.integers(4, 10)))]
    else:
        ops = []
        for _ in range(int(rng.integers(3, 8))):
            r = rng.random()
            v = int(rng.integers(nv))
            if r < 0.2:
                ops.append({"t": "touch"})
            elif r < 0.4:
                ops.append({"t": "read", "v": v, "name": ["iq", "score"][rng.integers(2)]})
            elif r < 0.85:
                ids = ref_ids(c["keys"][v], tuple(shape), n)
                scalar = rng.random() < 0.5
                val = float(rng.integers(-9, 10)) + 0.5 if scalar else [float(rng.integers(-9, 10)) + 0.25 for _ in ids]
                ops.append({"t": "set_prop", "v": v, "name": ["iq", "score"][rng.integers(2)], "value": val,
                            "attr": bool(rng.random() < 0.7)})
            else:
                ops.append({"t": "set_phase", "v": v, "value": int(rng.integers(0, 2))})
        c["ops"] = ops
    return c


# ---- the constructor takes VALUES: two maps built from the same caller arrays are independent of each other and of the
# caller's arrays (phase ids, coordinates, properties); found missing by seeded change C12-9 ---------------------------------
def input_isolation_check(ctx, c, outs):
    from orix.crystal_map import CrystalMap
    from orix.quaternion import Rotation
    n = len(c["phase_id"])
    dt = {"int64": np.int64, "int32": np.int32, "float": float}[c["dtype"]]
    pid = np.array(c["phase_id"], dtype=dt)
    if c.get("strided"):
        big = np.zeros(2 * n, dtype=dt)
        big[::2] = pid
        pid_in = big[::2]
    else:
        pid_in = pid
    x = np.arange(n, dtype=float) * 0.5
    iq = np.arange(n, dtype=float) + 10
    pid0 = np.array(pid_in, copy=True)
    with warnings.catch_warnings():
        warnings.simplefilter("ignore")
        A = CrystalMap(Rotation.identity((n,)), phase_id=pid_in, x=x, prop={"iq": iq})
        B = CrystalMap(Rotation.identity((n,)), phase_id=pid_in, x=x, prop={"iq": iq})
        b_pid = np.array(B.phase_id, copy=True)
        for op in c["ops"]:
            view = A if op["sel"] is None else A[np.asarray(op["sel"], bool)]
            if op["t"] == "pid":
                view.phase_id = op["value"]
            elif op["t"] == "prop":
                view.iq = op["value"]
        # only the phase ids are demanded to be the map's own (C12 is about phase bookkeeping; orix keeps the caller's
        # property arrays by reference, which no clause of the property forbids)
        msgs = []
        if not np.array_equal(pid_in, pid0):
            msgs.append(f"the caller's phase-id array changed: {pid0.tolist()} -> {np.asarray(pid_in).tolist()}")
        if not np.array_equal(B.phase_id, b_pid):
            msgs.append(f"a second map built from the same phase-id array changed: phase ids {b_pid.tolist()} -> {np.asarray(B.phase_id).tolist()}")
        ids_b = set(int(i) for i in np.unique(B.phase_id))
        if not ids_b <= set(B.phases.ids):
            msgs.append(f"the second map holds phase ids {sorted(ids_b)} but its phase list has {list(B.phases.ids)}")
        if sorted(B.phases_in_data.ids) != sorted(ids_b):
            msgs.append(f"phases_in_data of the second map lists {list(B.phases_in_data.ids)} but its data hold {sorted(ids_b)}")
    if msgs:
        return (f"CrystalMap built from {c['dtype']}{' strided' if c.get('strided') else ''} phase ids, operations {c['ops']}: "
                + "; ".join(msgs))
    return None


def gen_input_isolation(rng):
    n = int(rng.integers(4, 9))
    pid = [int(x) for x in rng.integers(0, 2, n)]
    pid[0], pid[1] = 0, 1
    ops = []
    for _ in range(int(rng.integers(1, 4))):
        sel = None if rng.random() < 0.4 else [bool(x) for x in (rng.random(n) < 0.5)]
        if sel is not None and not any(sel):
            sel[0] = True
        t = ["pid", "pid", "prop"][int(rng.integers(3))]
        ops.append({"t": t, "sel": sel, "value": int(rng.choice([-1, 0, 1])) if t == "pid" else float(rng.integers(-5, 6))})
    return {"phase_id": pid, "dtype": ["int64", "int64", "int32", "float"][int(rng.integers(4))], "strided": bool(rng.integers(2)), "ops": ops}


# ---- selection by a phase name that several phases carry (a map built from phase ids only names every phase '';
# phases renamed after construction): all points of every phase of that name ------------------------------------------------
def same_name_check(ctx, c, outs):
    from orix.crystal_map import CrystalMap
    from orix.quaternion import Rotation
    pid = np.array(c["phase_id"], dtype=int)
    n = len(pid)
    with warnings.catch_warnings():
        warnings.simplefilter("ignore")
        xm = CrystalMap(Rotation.identity((n,)), phase_id=pid, x=np.arange(n, dtype=float))
        names = {}
        for i, p in xm.phases:
            if i == -1:
                continue
            if c["rename"] is not None:
                p.name = c["rename"][i % len(c["rename"])]
            names[i] = p.name
        for name in sorted(set(names.values())):
            want = np.flatnonzero(np.isin(pid, [i for i, nm in names.items() if nm == name]))
            keys = [name] if not c["tuple"] else [(name, name)]
            for key in keys:
                try:
                    got = np.asarray(xm[key].id)
                except Exception as e:
                    return f"selecting by the phase name {name!r} (phases {names}) raises {type(e).__name__}: {e}"
                if sorted(got.tolist()) != want.tolist():
                    return (f"xmap[{key!r}] selects points {sorted(got.tolist())} but the phases named {name!r} ({names}) hold "
                            f"points {want.tolist()} (phase ids {pid.tolist()})")
    return None
