"""C20 — stereographic projection is an exact bijection; pole densities are normalised."""
from __future__ import annotations

import warnings

import numpy as np

from .. import common, sites
from ..common import f2h, h2f
from ..gen import quat as G
from ..main import lean_phase

EPS = 2.0 ** -52
TAU = 1e-7           # "same direction" threshold of the design (rad); bounds what an epsilon band may cost
BAND = 1e-9          # hemisphere test of SphericalRegion: dot > -1e-9
SNAP = 1e-8          # np.isclose(x, 0) in Vector3d.azimuth
KERNELS = ["vector2xy", "xy2vector", "from_polar_xyz"]
POLE = {"n": 1, "s": -1}
HEMI = {"s": "upper", "n": "lower"}


def _imp():
    warnings.filterwarnings("ignore")
    from orix.measure import pole_density_function
    from orix.projections import InverseStereographicProjection, StereographicProjection
    from orix.projections.stereographic import _vector2xy
    from orix.quaternion import symmetry
    from orix.sampling.S2_sampling import _sample_S2_equal_area_coordinates
    from orix.vector import SphericalRegion, Vector3d
    return (pole_density_function, InverseStereographicProjection, StereographicProjection, _vector2xy, symmetry,
            _sample_S2_equal_area_coordinates, SphericalRegion, Vector3d)


def hexes(xs):
    return " ".join(f2h(x) for x in np.asarray(xs, float).reshape(-1))


def floats(o):
    return [h2f(x) for x in o.split()]


# ---------------- generators ------------------------------------------------------------------------
def gen_vec(rng, stratum=None):
    strata = ["haar", "haar", "haar", "pole+", "pole-", "equator", "equator+", "equator-", "nearpole", "axis", "int",
              "nearaxis", "tiny"]
    s = stratum or strata[rng.integers(len(strata))]
    if s == "pole+":
        v = np.array([0.0, 0.0, 1.0])
    elif s == "pole-":
        v = np.array([0.0, 0.0, -1.0])
    elif s in ("equator", "equator+", "equator-"):
        a = rng.uniform(0, 2 * np.pi)
        z = {"equator": 0.0, "equator+": 1.0, "equator-": -1.0}[s] * 10.0 ** rng.uniform(-12, -8.2)
        if s != "equator" and rng.random() < 0.3:
            z = np.sign(z) * 10.0 ** rng.uniform(-9.5, -8.5)      # straddles the 1e-9 band
        v = np.array([np.cos(a), np.sin(a), z])
    elif s == "nearpole":
        e = 10.0 ** rng.uniform(-9, -2)
        a = rng.uniform(0, 2 * np.pi)
        v = np.array([e * np.cos(a), e * np.sin(a), float(rng.choice([-1, 1])) * np.sqrt(1 - e * e)])
    elif s == "axis":
        v = np.zeros(3)
        v[rng.integers(3)] = float(rng.choice([-1, 1]))
    elif s == "int":
        v = rng.integers(-4, 5, size=3).astype(float)
        if not np.any(v):
            v[2] = 1.0
    elif s == "tiny":
        v = rng.normal(size=3)
        v *= 10.0 ** rng.uniform(-10, -7) / np.linalg.norm(v)     # short vector in a generic direction
    elif s == "nearaxis":
        v = rng.normal(size=3)
        v[rng.integers(2)] = float(rng.choice([-1, 1])) * 10.0 ** rng.uniform(-12, -6)   # around the 1e-8 snap band
        v /= np.linalg.norm(v)
    else:
        v = rng.normal(size=3)
        v /= np.linalg.norm(v)
    return [float(x) for x in v], s


def gen_len(rng):
    r = rng.integers(4)
    return 1.0 if r < 2 else float(10.0 ** rng.uniform(-3, 3))


def kernel1d(sd, truncate=4.0):
    """the documented Gaussian kernel of scipy.ndimage.gaussian_filter1d (order 0)"""
    r = int(truncate * float(sd) + 0.5)
    x = np.arange(-r, r + 1)
    w = np.exp(-0.5 / (sd * sd) * x ** 2)
    return r, w / w.sum()


# ---------------- corr sites -------------------------------------------------------------------------
def v2xy_lines(c):
    v = np.array(c["v"], float)
    n = np.sqrt(np.sum(np.square(v)))
    u = v / n
    return [f"stereo v2xy {c['pole']} {hexes(v)}", f"kern g vector2xy f {hexes([POLE[c['pole']]])} {hexes(u)}"]


def v2xy_check(ctx, c, outs):
    pdf, ISP, SP, _vector2xy, sym, s2, SR, V = _imp()
    pole = POLE[c["pole"]]
    v = V(np.array(c["v"], float))
    X, Y = _vector2xy(v, pole)
    X, Y = float(X[0]), float(Y[0])
    toks = outs[0].split()
    mX, mY, inreg = h2f(toks[0]), h2f(toks[1]), toks[2] == "1"
    u = v.unit.data[0]
    denom = abs(u[2] - pole)
    tol = 16 * EPS * max(1.0, abs(X), abs(Y)) * max(1.0, 1.0 / denom if denom else 1.0)
    d = max(abs(X - mX), abs(Y - mY))
    ctx.dev("vector2xy_abs", d)
    if d > tol:
        return f"_vector2xy({c['v']}, pole={pole}) = {(X, Y)} but model = {(mX, mY)}"
    impl_in = bool((v <= SR([0, 0, -pole]))[0])
    if impl_in != inreg:
        return f"region test of {c['v']} for pole {pole}: implementation {impl_in}, model {inreg}"
    sp = SP(pole).vector2xy(v)
    if (len(sp[0]) == 1) != impl_in:
        return f"StereographicProjection({pole}).vector2xy returned {len(sp[0])} points, region test says {impl_in}"
    if not outs[1].startswith("!err unknown"):
        g = floats(outs[1])
        if max(abs(g[0] - X), abs(g[1] - Y)) > tol:
            return f"generated _vector2xy kernel = {g} but implementation = {(X, Y)}"
    return None


def xy2v_lines(c):
    return [f"stereo xy2v {c['pole']} {hexes([c['x'], c['y']])}",
            f"kern g xy2vector f {hexes([POLE[c['pole']], c['x'], c['y']])}"]


def xy2v_check(ctx, c, outs):
    pdf, ISP, SP, _vector2xy, sym, s2, SR, V = _imp()
    pole = POLE[c["pole"]]
    got = ISP(pole).xy2vector(np.array([c["x"]]), np.array([c["y"]])).data[0]
    m = np.array(floats(outs[0]))
    if [float(x) for x in got] != [float(x) for x in m] and np.abs(got - m).max() > 4 * EPS:
        return f"xy2vector({c['x']}, {c['y']}; pole {pole}) = {got.tolist()} but model = {m.tolist()}"
    if not outs[1].startswith("!err unknown"):
        g = np.array(floats(outs[1]))
        if np.abs(g - got).max() > 4 * EPS:
            return f"generated xy2vector kernel = {g.tolist()} but implementation = {got.tolist()}"
    return None


def split_lines(c):
    return [f"stereo split {hexes(c['vs'])}"]


def split_check(ctx, c, outs):
    pdf, ISP, SP, _vector2xy, sym, s2, SR, V = _imp()
    vs = np.array(c["vs"], float).reshape(-1, 3)
    xu, yu, xl, yl = SP.vector2xy_split(V(vs))
    toks = outs[0].split()
    nu, nl = int(toks[0]), int(toks[1])
    vals = np.array([h2f(t) for t in toks[2:]])
    if (len(xu), len(xl)) != (nu, nl):
        return f"vector2xy_split sizes (upper, lower) = {(len(xu), len(xl))} but model = {(nu, nl)} for {vs.tolist()}"
    impl = np.concatenate([np.column_stack([xu, yu]).reshape(-1), np.column_stack([xl, yl]).reshape(-1)])
    if impl.size and np.abs(impl - vals).max() > 64 * EPS * max(1.0, np.abs(impl).max()):
        return f"vector2xy_split = {impl.tolist()} but model = {vals.tolist()}"
    return None


def polar_lines(c):
    d = "d" if c["degrees"] else "r"
    return [f"stereo topolar {d} {hexes(c['v'])}", f"stereo frompolar {d} {hexes(c['sph'])}"]


def polar_check(ctx, c, outs):
    pdf, ISP, SP, _vector2xy, sym, s2, SR, V = _imp()
    v = V(np.array(c["v"], float))
    az, pol, r = v.to_polar(degrees=c["degrees"])
    got = np.array([az[0], pol[0], r[0]])
    m = np.array(floats(outs[0]))
    scale = np.array([360.0 if c["degrees"] else 2 * np.pi, 180.0 if c["degrees"] else np.pi, max(got[2], 1e-300)])
    if np.any(np.abs(got - m) > 8 * EPS * scale):
        return f"to_polar({c['v']}, degrees={c['degrees']}) = {got.tolist()} but model = {m.tolist()}"
    a, t, rr = c["sph"]
    w = V.from_polar(a, t, rr, degrees=c["degrees"]).data[0]
    m2 = np.array(floats(outs[1]))
    if np.abs(w - m2).max() > 8 * EPS * max(abs(rr), 1e-300):
        return f"from_polar({c['sph']}, degrees={c['degrees']}) = {w.tolist()} but model = {m2.tolist()}"
    return None


def corr_lines(c):
    return [f"hist corr {c['mode']} {c['r']} {hexes(c['w'])} {hexes(c['f'])}"]


def corr_check(ctx, c, outs):
    from scipy.ndimage import correlate1d
    f, w = np.array(c["f"], float), np.array(c["w"], float)
    got = correlate1d(f, w, mode=c["mode"])
    m = np.array(floats(outs[0]))
    tol = 16 * EPS * len(w) * float(np.abs(w).sum()) * max(float(np.abs(f).max()), 1e-300)
    d = float(np.abs(got - m).max())
    ctx.dev("correlate1d_abs", d)
    if got.shape != m.shape or d > tol:
        return f"scipy correlate1d(mode={c['mode']}) = {got.tolist()} but model = {m.tolist()}"
    return None


def grid(res, hemi):
    *_, s2, SR, V = _imp()
    az, pol = s2(res, hemisphere=hemi, azimuth_endpoint=True)
    return np.asarray(az, float), np.asarray(pol, float)


def pdf_lines(c):
    az, pol = grid(c["res"], HEMI[c["pole"]])
    sd = c["sigma"] / c["res"]
    r, w = kernel1d(sd)
    pts = np.column_stack([np.array(c["vs"], float).reshape(-1, 3), np.array(c["w"], float)])
    return [f"hist pdf {len(az)} {len(pol)} {r} {r} {m} {hexes(az)} {hexes(pol)} {hexes(w)} {hexes(w)} {hexes(pts)}"
            for m in ("raw", "mrd")]


def pdf_check(ctx, c, outs):
    pdf, ISP, SP, _vector2xy, sym, s2, SR, V = _imp()
    v = V(common.relayout(np.array(c["vs"], float).reshape(-1, 3), c["vs"]))
    w = np.array(c["w"], float)
    res = []
    for mrd, o in ((False, outs[0]), (True, outs[1])):
        h, _ = pdf(v, resolution=c["res"], sigma=c["sigma"], weights=w, hemisphere=HEMI[c["pole"]], mrd=mrd)
        data = np.ma.getdata(h).reshape(-1)
        if o.startswith("!err undefined"):
            # nothing in the hemisphere: the implementation divides by a zero mean
            if np.isfinite(data).all() and not np.ma.getmaskarray(h).all():
                res.append(f"model: MRD undefined (no weight in the hemisphere) but implementation returned finite values")
            continue
        m = np.array(floats(o))
        if m.shape != data.shape:
            res.append(f"histogram has {data.shape} bins, model {m.shape}")
            continue
        scale = max(float(np.abs(m).max()), 1e-300)
        d = float(np.abs(m - data).max()) / scale
        ctx.dev("pdf_rel", d)
        if not d <= 1e-12:
            k = int(np.argmax(np.abs(m - data)))
            res.append(f"pole_density_function(mrd={mrd}, res={c['res']}, sigma={c['sigma']}) bin {k} = {data[k]} "
                       f"but model = {m[k]} (rel {d:.3g})")
    if not np.array_equal(v.data.reshape(-1, 3), np.array(c["vs"], float).reshape(-1, 3)):
        res.append("pole_density_function changed its input vectors")
    return "; ".join(res) if res else None


# ---------------- prop sites ---------------------------------------------------------------------------
def bijection_check(ctx, c, outs):
    pdf, ISP, SP, _vector2xy, sym, s2, SR, V = _imp()
    pole = POLE[c["pole"]]
    sp, isp = SP(pole), ISP(pole)
    vs = np.array(c["vs"], float).reshape(-1, 3)
    v = V(vs)
    x, y = sp.vector2xy(v)
    u = vs / np.linalg.norm(vs, axis=1)[:, None]
    shown = -pole * vs[:, 2] > -BAND           # as documented: the hemisphere opposite to the projection point
    strictly = -pole * vs[:, 2] >= 0
    if len(x) != int(shown.sum()):
        # vectors within the band may go either way only if they sit on the band's edge
        edge = np.abs(np.abs(vs[:, 2]) - BAND) < 1e-15
        if not edge.any():
            return f"vector2xy returned {len(x)} of {len(vs)} vectors, {int(shown.sum())} are in the hemisphere"
        return None
    r2 = x * x + y * y
    us = u[shown]
    # closed unit disk for the hemisphere proper; the 1e-9 band may reach just outside
    lim = np.where(strictly[shown], 1 + 8 * EPS, 1 + 4 * BAND / np.linalg.norm(vs[shown], axis=1).clip(1e-300))
    if np.any(r2 > lim):
        k = int(np.argmax(r2 - lim))
        return f"projection of {vs[shown][k].tolist()} lies outside the unit disk: r^2 = {r2[k]}"
    back = isp.xy2vector(x, y).data
    if len(x):
        # conditioning of the inverse at the rim is 1: tolerance in ulps of unit-size quantities
        d = np.abs(back - us).max(axis=1)
        ctx.dev("inverse_of_projection_abs", float(d.max()))
        if np.any(d > 32 * EPS):
            k = int(np.argmax(d))
            return f"xy2vector(vector2xy(v)) = {back[k].tolist()} but v/|v| = {us[k].tolist()} (v = {vs[shown][k].tolist()})"
        if np.any(np.abs(np.linalg.norm(back, axis=1) - 1) > 8 * EPS):
            return "xy2vector returned non-unit vectors"
    # spherical route, degrees and radians.  Going through angles costs (i) the arccos conditioning near the poles
    # (see polar_rt_check) and (ii) the 1e-8 azimuth snap; vectors for which the snap is not negligible relative to
    # their length are the subject of the polar_roundtrip site (known finding), not of this one
    ok = np.array([snap_relative(t) <= TAU for t in vs])
    st = np.hypot(u[:, 0], u[:, 1])
    slack = 64 * EPS + np.where(st > 0, np.minimum(1.01 * st, 8 * EPS / np.maximum(st, 1e-300)), 0.0) \
        + 2 * np.array([snap_relative(t) for t in vs])
    for deg in (False, True):
        sel = ok & shown
        if not sel.any():
            continue
        vv = V(vs[sel])
        x0, y0 = sp.vector2xy(vv)
        az, pol, _ = vv.to_polar(degrees=deg)
        xs, ys = sp.spherical2xy(az, pol, degrees=deg)
        if len(xs) == len(x0):
            tol = 4 * slack[sel]
            if np.any(np.abs(xs - x0) > tol) or np.any(np.abs(ys - y0) > tol):
                return (f"spherical2xy(degrees={deg}) = {(xs.tolist(), ys.tolist())} but vector2xy = "
                        f"{(x0.tolist(), y0.tolist())} for {vs[sel].tolist()}")
        a2, p2 = isp.xy2spherical(x0, y0, degrees=deg)
        w = V.from_polar(a2, p2, degrees=deg).data
        # xy2vector output is a unit vector: the snap acts on its components directly
        us2 = u[sel]
        snap2 = np.array([snap_relative(t) for t in us2])
        if np.any(np.abs(w - us2).max(axis=1) > 4 * slack[sel] + 2 * snap2 + 64 * EPS):
            return f"xy2spherical(degrees={deg}) does not lead back to the vectors: {w.tolist()} vs {us2.tolist()}"
    return None


def disk_check(ctx, c, outs):
    """vector2xy ∘ xy2vector = id on the disk (and beyond), result in the hemisphere exactly for the closed disk"""
    pdf, ISP, SP, _vector2xy, sym, s2, SR, V = _imp()
    pole = POLE[c["pole"]]
    xy = np.array(c["xy"], float).reshape(-1, 2)
    v = ISP(pole).xy2vector(xy[:, 0], xy[:, 1])
    if np.abs(v.norm - 1).max() > 8 * EPS:
        return f"xy2vector returned non-unit vectors: norms {v.norm.tolist()}"
    r2 = np.sum(xy * xy, axis=1)
    z = v.data[:, 2] * -pole
    bad = ((r2 <= 1 - 1e-12) & (z < 0)) | ((r2 >= 1 + 1e-12) & (z > 0))
    if bad.any():
        return f"points {xy[bad].tolist()} map to z = {v.data[bad, 2].tolist()}: wrong hemisphere for pole {pole}"
    X, Y = _vector2xy(v, pole)
    # relative conditioning of the round trip grows like (1 + r^2)
    tol = 16 * EPS * (1 + r2) * np.maximum(1.0, np.sqrt(r2))
    d = np.maximum(np.abs(X - xy[:, 0]), np.abs(Y - xy[:, 1]))
    ctx.dev("projection_of_inverse_rel", float((d / (1 + r2)).max()))
    if np.any(d > tol):
        k = int(np.argmax(d - tol))
        return f"vector2xy(xy2vector({xy[k].tolist()})) = {(float(X[k]), float(Y[k]))} (pole {pole})"
    inside = SP(pole).vector2xy(v)
    want = int(np.sum(z > -BAND))
    if len(inside[0]) != want:
        return f"vector2xy keeps {len(inside[0])} of the inverse images, {want} are in the hemisphere"
    return None


def split_prop_check(ctx, c, outs):
    """every vector goes to the hemisphere of its *direction*; exactly equatorial ones to both; a vector may be in
    both only if it is equatorial within TAU"""
    pdf, ISP, SP, _vector2xy, sym, s2, SR, V = _imp()
    vs = np.array(c["vs"], float).reshape(-1, 3)
    xu, yu, xl, yl = SP.vector2xy_split(V(vs))
    z = vs[:, 2]
    rel = z / np.linalg.norm(vs, axis=1)
    n_up_min, n_lo_min = int(np.sum(z >= 0)), int(np.sum(z <= 0))
    n_both_min = int(np.sum(z == 0))
    n_both_max = int(np.sum(np.abs(rel) <= TAU))
    if len(xu) < n_up_min or len(xl) < n_lo_min:
        return f"split lost vectors: upper {len(xu)} (>= {n_up_min} expected), lower {len(xl)} (>= {n_lo_min}) for z = {z.tolist()}"
    if not (len(vs) + n_both_min <= len(xu) + len(xl) <= len(vs) + n_both_max):
        return (f"split sizes {len(xu)} + {len(xl)} for {len(vs)} vectors of which {n_both_min} are exactly equatorial "
                f"and {n_both_max} equatorial within 1e-7 rad: every vector must appear once, only equatorial ones twice "
                f"(z/|v| = {rel.tolist()})")
    # the upper part is the projection of the upper vectors in order
    up = vs[z > -BAND] if len(xu) == int(np.sum(z > -BAND)) else None
    if up is not None and len(up):
        X, Y = _vector2xy(V(up), -1)
        if np.abs(X - xu).max() > 0 or np.abs(Y - yu).max() > 0:
            return "upper part of the split is not the projection of the upper vectors in input order"
    # the angle form: spherical2xy_split(azimuth, polar) of unit directions away from the equator and the poles gives the same
    # split (sizes exactly, coordinates to the conditioning of the angle round trip), in radians and in degrees
    keep = (np.abs(rel) > 1e-3) & (np.abs(rel) < 1 - 1e-6) & (np.linalg.norm(vs, axis=1) > 1e-3)
    if keep.any():
        u = vs[keep] / np.linalg.norm(vs[keep], axis=1)[:, None]
        az, pol = np.arctan2(u[:, 1], u[:, 0]), np.arccos(u[:, 2])
        ru = SP.vector2xy_split(V(u))
        for deg in (False, True):
            a, p = (np.rad2deg(az), np.rad2deg(pol)) if deg else (az, pol)
            # the split is a static operation (upper = z >= 0, lower = z <= 0): it does not depend on the pole the instance it is
            # reached through was built with, nor on whether it is reached through an instance or the class
            for how in ("default", -1, 1):
                inst = SP() if how == "default" else SP(how)
                rs = inst.spherical2xy_split(a, p, degrees=deg)
                ri = inst.vector2xy_split(V(u))
                for k, nm in enumerate(("x_upper", "y_upper", "x_lower", "y_lower")):
                    if np.shape(ri[k]) != np.shape(ru[k]) or (np.size(ru[k]) and np.abs(np.asarray(ri[k]) - np.asarray(ru[k])).max() > 0):
                        return (f"vector2xy_split reached through StereographicProjection({'' if how == 'default' else how}) gives "
                                f"{nm} = {np.asarray(ri[k]).tolist()} but through the class {np.asarray(ru[k]).tolist()}")
                    if np.shape(rs[k]) != np.shape(ru[k]):
                        return (f"StereographicProjection({'' if how == 'default' else how}).spherical2xy_split(degrees={deg}) returns "
                                f"{np.size(rs[k])} values for {nm} but vector2xy_split of the "
                                f"same directions {np.size(ru[k])} (polar angles {pol.tolist()})")
                    if np.size(ru[k]) and np.abs(np.asarray(rs[k]) - np.asarray(ru[k])).max() > 1e-9:
                        return (f"StereographicProjection({'' if how == 'default' else how}).spherical2xy_split(degrees={deg}) {nm} = "
                                f"{np.asarray(rs[k]).tolist()} but vector2xy_split of the same "
                                f"directions gives {np.asarray(ru[k]).tolist()}")
    return None


def short_vector_hemisphere(case):
    """known finding C20-hemisphere-absolute-band: a vector inside the absolute band |z| <= 1e-9 of the region test
    whose direction is not equatorial (|z|/|v| > 1e-7), i.e. a vector shorter than ~1e-2"""
    vs = np.array(case["vs"], float).reshape(-1, 3)
    z = np.abs(vs[:, 2])
    return bool(np.any((z <= BAND * (1 + 1e-6)) & (z > TAU * np.linalg.norm(vs, axis=1))))


def snap_relative(v):
    """largest relative change of the vector caused by the 1e-8 snap of azimuth (0 if none applies)"""
    v = np.asarray(v, float)
    n = np.linalg.norm(v)
    s = [abs(t) for t in v[:2] if 0 < abs(t) <= SNAP * (1 + 1e-6)]
    return max(s) / n if s and n > 0 else 0.0


def polar_rt_check(ctx, c, outs):
    pdf, ISP, SP, _vector2xy, sym, s2, SR, V = _imp()
    v = np.array(c["v"], float)
    for deg in (False, True):
        az, pol, r = V(v).to_polar(degrees=deg)
        full = 360.0 if deg else 2 * np.pi
        if not (0 <= az[0] <= full) or not (0 <= pol[0] <= full / 2) or abs(r[0] - np.linalg.norm(v)) > 4 * EPS * r[0]:
            return f"to_polar({v.tolist()}, degrees={deg}) = {(az[0], pol[0], r[0])} out of range / wrong radius"
        back = V.from_polar(az, pol, r, degrees=deg).data[0]
        rel = float(np.abs(back - v).max() / np.linalg.norm(v))
        band = snap_relative(v)
        # conditioning: polar = arccos(z/r) resolves the polar angle t only to eps/sin(t) (and not at all below
        # ~1.5e-8, where z/r rounds to +-1): the components x, y move by min(sin t, 8 eps / sin t) relative to |v|,
        # at most ~4e-8 < TAU
        st = float(np.hypot(v[0], v[1]) / np.linalg.norm(v))
        acos_term = min(1.01 * st, 8 * EPS / st) if st > 0 else 0.0
        ctx.dev("polar_roundtrip_rel_over_tol", rel / (64 * EPS + acos_term) if band == 0 else 0.0)
        tol = 64 * EPS + acos_term + (2 * band if band <= TAU else 0.0)
        if rel > tol:
            return (f"from_polar(to_polar(v)) = {back.tolist()} for v = {v.tolist()} (degrees={deg}): relative error "
                    f"{rel:.3g}" + (f"; azimuth snaps the component {band * np.linalg.norm(v):.3g} (|.| <= 1e-8) to 0"
                                    if band else ""))
    return None


def small_vector_polar(case):
    """known finding C20-azimuth-absolute-snap: a non-zero x or y with |.| <= 1e-8 that is not negligible relative to
    the vector's length"""
    return snap_relative(case["v"]) > TAU


def pdf_prop_check(ctx, c, outs):
    pdf, ISP, SP, _vector2xy, sym, s2, SR, V = _imp()
    vs = np.array(c["vs"], float).reshape(-1, 3)
    w = None if c["w"] is None else np.array(c["w"], float)
    ww = np.ones(len(vs)) if w is None else w
    hemi = HEMI[c["pole"]]
    z = vs[:, 2] / np.linalg.norm(vs, axis=1) * (1 if hemi == "upper" else -1)
    lo = float(ww[z > 1e-12].sum())       # surely in the hemisphere (equator exactly: in both)
    lo += float(ww[z == 0].sum())
    hi = lo + float(ww[(np.abs(z) <= 1e-12) & (z != 0)].sum())
    if not c.get("angles"):
        args = (V(vs),)
    elif c["angles"] in ("atan2", "shift"):
        # angles outside [0, 2 pi) that denote the same directions: numpy's arctan2 range (-pi, pi], azimuth + 2 pi
        az = np.arctan2(vs[:, 1], vs[:, 0]) + (2 * np.pi if c["angles"] == "shift" else 0.0)
        args = (az, np.arccos(np.clip(vs[:, 2] / np.linalg.norm(vs, axis=1), -1, 1)))
    else:
        args = tuple(V(vs).to_polar()[:2])
    h, (x, y) = pdf(*args, resolution=c["res"], sigma=c["sigma"], weights=w, hemisphere=hemi, mrd=False)
    d = np.ma.getdata(h)
    if np.ma.getmaskarray(h).any():
        return "bins are masked although no symmetry was given"
    if x.shape != (d.shape[0] + 1, d.shape[1] + 1) or y.shape != x.shape:
        return f"bin edge grids {x.shape} do not fit the histogram {d.shape}"
    tot = float(d.sum())
    slack = 1e-12 * max(float(ww.sum()), 1e-300)
    ctx.dev("pdf_total_rel", abs(tot - lo) / max(float(ww.sum()), 1e-300) if hi == lo else 0.0)
    if not (lo - slack <= tot <= hi + slack):
        return (f"pole density (counts) sums to {tot} but the vectors of the {hemi} hemisphere carry weight {lo}"
                f"{'' if hi == lo else '..' + str(hi)} (resolution {c['res']}, sigma {c['sigma']})")
    if float(d.min()) < -1e-15 * max(tot, 1.0):
        return f"negative density {float(d.min())}"
    if np.abs(x * x + y * y).max() > 1 + 64 * EPS:
        return "bin vertices outside the unit disk"
    if tot > 0:
        hm, _ = pdf(*args, resolution=c["res"], sigma=c["sigma"], weights=w, hemisphere=hemi, mrd=True)
        m = float(np.ma.getdata(hm).mean())
        ctx.dev("mrd_mean_minus_one", abs(m - 1))
        if abs(m - 1) > 1e-12:
            return f"MRD density averages to {m}, not 1"
        if float(np.ma.getdata(hm).min()) < -1e-15:
            return "negative MRD density"
        # MRD is the count histogram divided by its mean
        if np.abs(np.ma.getdata(hm) * d.mean() - d).max() > 1e-12 * max(float(d.max()), 1e-300):
            return "MRD histogram is not the count histogram divided by its mean"
        hl, _ = pdf(*args, resolution=c["res"], sigma=c["sigma"], weights=w, hemisphere=hemi, mrd=True, log=True)
        if np.abs(np.ma.getdata(hl) - np.log(np.ma.getdata(hm) + 1)).max() > 1e-12:
            return "log density is not log(MRD + 1)"
    return None


GROUPS = ["1", "-1", "211", "121", "112", "m11", "1m1", "11m", "2/m", "222", "mm2", "mmm", "4", "-4", "4/m", "422",
          "4mm", "-42m", "4/mmm", "3", "-3", "321", "312", "32", "3m", "-3m", "6", "-6", "6/m", "622", "6mm", "-6m2",
          "6/mmm", "23", "m-3", "432", "-43m", "m-3m"]


def group_by_name(name):
    *_, sym, s2, SR, V = _imp()
    for g in sym._groups:
        if g.name == name:
            return g
    raise KeyError(name)


def pdf_sym_check(ctx, c, outs):
    """folded density: unchanged when every vector is replaced by a symmetry-equivalent one; non-negative;
    MRD mean 1 over the valid bins"""
    pdf, ISP, SP, _vector2xy, sym, s2, SR, V = _imp()
    Gp = group_by_name(c["group"])
    vs = np.array(c["vs"], float).reshape(-1, 3)
    w = np.array(c["w"], float)
    idx = np.array(c["ops"], int)
    v = V(vs)
    gv = Gp[idx] * v
    kw = dict(resolution=c["res"], sigma=c["sigma"], weights=w, symmetry=Gp, mrd=c["mrd"])
    h1, _ = pdf(v, **kw)
    vs = np.array(c["vs"], float).reshape(-1, 3)       # fresh copy: `v` may share memory with the array it was built from
    if not np.array_equal(v.data.reshape(-1, 3), vs):
        j = int(np.argmax(np.abs(v.data.reshape(-1, 3) - vs).max(axis=1)))
        return (f"pole_density_function(v, symmetry={c['group']}) changed its input vectors: {vs[j].tolist()} -> "
                f"{v.data.reshape(-1, 3)[j].tolist()}")
    # the non-folded histogram of the SAME object afterwards still conserves the weight of each hemisphere
    for hemi, sel in (("upper", vs[:, 2] > 1e-6), ("lower", vs[:, 2] < -1e-6)):
        hh, _ = pdf(v, resolution=c["res"], sigma=0, weights=w, hemisphere=hemi, mrd=False)
        strict = float(w[sel].sum())
        loose = float(w[np.abs(vs[:, 2]) <= 1e-6].sum())
        tot = float(np.ma.getdata(hh).sum())
        if not (strict - 1e-9 * max(1.0, strict) <= tot <= strict + loose + 1e-9 * max(1.0, strict)):
            return (f"after a folded density was computed from the same vectors, the {hemi}-hemisphere histogram sums to {tot} "
                    f"but the weight in that hemisphere is {strict}")
    h2, _ = pdf(gv, **kw)
    m1, m2 = np.ma.getmaskarray(h1), np.ma.getmaskarray(h2)
    if not np.array_equal(m1, m2):
        return f"folded density of {c['group']}: valid bins differ after replacing vectors by equivalent ones"
    a, b = h1.filled(0.0), h2.filled(0.0)
    scale = max(float(np.abs(a).max()), 1e-300)
    d = float(np.abs(a - b).max()) / scale
    ctx.dev("folded_invariance_rel", d)
    if not d <= 1e-9:
        k = np.unravel_index(int(np.argmax(np.abs(a - b))), a.shape)
        return (f"folded density of {c['group']} changes when vectors are replaced by symmetry-equivalent ones: bin "
                f"{tuple(int(i) for i in k)} {a[k]} -> {b[k]} (rel {d:.3g})")
    if float(h1.min()) < -1e-15 * scale:
        return f"negative folded density {float(h1.min())}"
    if c["mrd"] and h1.count() and float(h1.sum()) > 0 and abs(float(h1.mean()) - 1) > 1e-12:
        return f"folded MRD density averages to {float(h1.mean())} over its valid bins"
    return None


def sector_not_domain(case):
    """cross-reference of C07-sector-not-domain: groups whose `fundamental_sector` is not a fundamental domain"""
    return case.get("group") in ("m11", "1m1", "-6m2")


def sector_centre_band(case):
    """cross-reference of C07-numeric-centre-band (thin band around the numeric sector centres)"""
    return case.get("group") in ("23", "m-3", "432")


def kernel_contract_check(ctx, c, outs):
    """the assumed contract of scipy's gaussian_filter, exercised: impulse response = the documented kernel
    (symmetric, non-negative, normalised); mass conserved under wrap and reflect"""
    from scipy.ndimage import gaussian_filter, gaussian_filter1d
    sd = c["sd"]
    r, w = kernel1d(sd)
    n = 2 * r + 5
    imp = np.zeros(n)
    imp[n // 2] = 1.0
    resp = gaussian_filter1d(imp, sd, mode="wrap")
    want = np.zeros(n)
    want[n // 2 - r:n // 2 + r + 1] = w
    if np.abs(resp - want).max() > 8 * EPS:
        return f"gaussian_filter1d impulse response differs from the documented kernel (sd = {sd})"
    if np.abs(w - w[::-1]).max() > 0 or w.min() < 0 or abs(w.sum() - 1) > 8 * EPS:
        return "Gaussian kernel not symmetric / non-negative / normalised"
    a = np.array(c["h"], float).reshape(c["shape"])
    out = gaussian_filter(a, sd, mode=("wrap", "reflect"))
    if abs(out.sum() - a.sum()) > 1e-13 * max(np.abs(a).sum(), 1e-300) * a.size ** 0.5:
        return f"gaussian_filter(mode=('wrap','reflect')) changed the total: {a.sum()} -> {out.sum()} (sd = {sd}, shape {a.shape})"
    if out.min() < -1e-18 * max(np.abs(a).max(), 1.0) and a.min() >= 0:
        return "gaussian_filter produced negative values from non-negative input"
    return None


SITES = {
    "vector2xy": sites.Site("vector2xy", "corr", v2xy_check, v2xy_lines),
    "xy2vector": sites.Site("xy2vector", "corr", xy2v_check, xy2v_lines),
    "split_model": sites.Site("split_model", "corr", split_check, split_lines),
    "polar_model": sites.Site("polar_model", "corr", polar_check, polar_lines),
    "correlate1d": sites.Site("correlate1d", "corr", corr_check, corr_lines),
    "pdf_model": sites.Site("pdf_model", "corr", pdf_check, pdf_lines),
    "bijection": sites.Site("bijection", "prop", bijection_check),
    "disk": sites.Site("disk", "prop", disk_check),
    "split": sites.Site("split", "prop", split_prop_check),
    "polar_roundtrip": sites.Site("polar_roundtrip", "prop", polar_rt_check),
    "pdf": sites.Site("pdf", "prop", pdf_prop_check),
    "pdf_symmetry": sites.Site("pdf_symmetry", "prop", pdf_sym_check),
    "kernel_contract": sites.Site("kernel_contract", "prop", kernel_contract_check),
}
PREDICATES = {"c20_small_vector_polar": small_vector_polar, "c20_short_vector_hemisphere": short_vector_hemisphere, "c20_sector_not_domain": sector_not_domain,
              "c20_sector_centre_band": sector_centre_band}


def gen_cloud(rng, n, texture=False, special=True):
    """vectors for a pole figure: uniform or clustered, mixed lengths; none in the ambiguous 1e-12 equator band;
    `special=False`: general position only (no poles, no equatorial or axis vectors)"""
    if texture:
        c = rng.normal(size=3)
        c /= np.linalg.norm(c)
        v = c + 0.3 * rng.normal(size=(n, 3))
    else:
        v = rng.normal(size=(n, 3))
    v /= np.linalg.norm(v, axis=1)[:, None]
    if special:
        v[np.abs(v[:, 2]) < 1e-6, 2] = 0.0        # exactly equatorial or clearly off
    if n > 4 and special:
        v[0] = [0, 0, 1]
        v[1] = [0, 0, -1]
        v[2] = [1, 0, 0]
        v[3] = [0, -1, 0]
    v *= 10.0 ** rng.uniform(-2, 2, size=(n, 1)) if rng.random() < 0.3 else 1.0
    return [[float(x) for x in r] for r in v]


def gen_weights(rng, n):
    k = rng.integers(4)
    if k == 0:
        return None
    if k == 1:
        return [float(x) for x in rng.integers(0, 6, size=n)]
    if k == 2:
        return [float(x) for x in rng.uniform(0, 3, size=n)]
    return [float(x) for x in 10.0 ** rng.uniform(-3, 3, size=n)]


def generate(ctx):
    rng = ctx.rng
    quick = ctx.tier == "quick"
    n = 250 if quick else 5000
    for k in range(n):
        pole = "ns"[k % 2]
        v, s = gen_vec(rng)
        L = gen_len(rng) if s != "tiny" else 1.0
        vv = [x * L for x in v]
        ctx.count(f"vector2xy/{s}/{'unit' if L == 1.0 and s != 'tiny' else 'scaled'}", ("v2", pole, vv))
        if k < 3:
            ctx.sample({"site": "vector2xy", "pole": pole, "v": vv})
        yield "vector2xy", {"pole": pole, "v": vv}
        # polar coordinates
        deg = bool(k % 3 == 0)
        sph = [float(rng.uniform(0, 360 if deg else 2 * np.pi)), float(rng.uniform(0, 180 if deg else np.pi)), gen_len(rng)]
        if k % 7 == 0:
            sph[1] = [0.0, 90.0 if deg else np.pi / 2, 180.0 if deg else np.pi][k % 3]
        ctx.count(f"polar_model/{s}/{'deg' if deg else 'rad'}", ("pm", vv, sph, deg))
        yield "polar_model", {"v": vv, "sph": sph, "degrees": deg}
        ctx.count(f"polar_roundtrip/{s}/{'unit' if L == 1.0 else 'scaled'}", ("pr", vv))
        yield "polar_roundtrip", {"v": vv}
        # disk points: inside, rim, outside, origin
        r = [0.0, float(rng.uniform(0, 1)), 1.0, float(1 - 10.0 ** rng.uniform(-15, -9)), float(rng.uniform(1, 30))][k % 5]
        a = rng.uniform(0, 2 * np.pi)
        x, y = float(r * np.cos(a)), float(r * np.sin(a))
        ctx.count(f"xy2vector/{['origin', 'inside', 'rim', 'nearrim', 'outside'][k % 5]}", ("xy", pole, x, y), nontrivial=r > 0)
        yield "xy2vector", {"pole": pole, "x": x, "y": y}
    m = 60 if quick else 1200
    for k in range(m):
        pole = "ns"[k % 2]
        nv = int(rng.integers(1, 9))
        vs = []
        kinds = set()
        for _ in range(nv):
            v, s = gen_vec(rng)
            L = gen_len(rng)
            vs.append([x * L for x in v])
            kinds.add(s.rstrip("+-"))
        tag = "equatorial" if "equator" in kinds else "generic"
        ctx.count(f"split/{tag}", ("sp", vs))
        yield "split", {"vs": vs}
        ctx.count(f"split_model/{tag}", ("spm", vs))
        yield "split_model", {"vs": vs}
        ctx.count(f"bijection/{pole}/{tag}", ("bj", pole, vs))
        if k < 2:
            ctx.sample({"site": "bijection", "pole": pole, "vs": vs})
        yield "bijection", {"pole": pole, "vs": vs}
        rr = np.concatenate([rng.uniform(0, 1, 3), [0.0, 1.0], 1 - 10.0 ** rng.uniform(-14, -3, 2), rng.uniform(1, 50, 2)])
        aa = rng.uniform(0, 2 * np.pi, len(rr))
        xy = [[float(r * np.cos(a)), float(r * np.sin(a))] for r, a in zip(rr, aa)]
        ctx.count(f"disk/{pole}", ("dk", pole, xy))
        yield "disk", {"pole": pole, "xy": xy}
        # correlation with a kernel under both boundary rules (kernel radius below, equal to and above the length)
        sd = float(10.0 ** rng.uniform(-0.7, 0.5))
        r, w = kernel1d(sd)
        nlen = int(rng.integers(1, 12)) if k % 3 else int(rng.integers(2 * r + 1, 2 * r + 8))
        f = [float(x) for x in (rng.integers(0, 5, size=nlen) if k % 2 else rng.uniform(0, 1, size=nlen))]
        ww = [float(x) for x in w] if k % 4 else [float(x) for x in rng.uniform(0, 1, size=2 * r + 1)]   # also non-symmetric
        mode = ["wrap", "reflect"][k % 2]
        ctx.count(f"correlate1d/{mode}/{'short' if nlen <= r else 'long'}", ("c1", mode, ww, f))
        yield "correlate1d", {"mode": mode, "r": r, "w": ww, "f": f}
        shape = [int(rng.integers(1, 9)), int(rng.integers(1, 7))]
        ctx.count("kernel_contract", ("kc", sd, shape, k))
        yield "kernel_contract", {"sd": sd, "shape": shape, "h": [float(x) for x in rng.uniform(0, 2, size=shape[0] * shape[1])]}
    # pole density functions without symmetry
    p = 24 if quick else 300
    for k in range(p):
        pole = "sn"[k % 2]
        res = [10.0, 7.5, 15.0, 5.0, 30.0, 2.5][k % 6] if k % 6 < 5 or not quick else 10.0
        sigma = [res * 0.05, res * 0.1, res * 0.5, res, 2 * res, 5.0, 20.0][k % 7]
        nv = int(rng.integers(1, 60))
        vs = gen_cloud(rng, nv, texture=bool(k % 3 == 0))
        w = gen_weights(rng, nv)
        if k % 11 == 5:
            vs = [[x, y, -abs(z) - 0.1] for x, y, z in vs]      # nothing in the upper hemisphere
        ident = sigma / res < 0.125
        ctx.count(f"pdf/{HEMI[pole]}/res{res}/{'identity' if ident else 'smoothed'}/{'unit' if w is None else 'weights'}",
                  ("pdf", pole, res, sigma, vs, w))
        if k < 2:
            ctx.sample({"site": "pdf", "pole": pole, "res": res, "sigma": sigma, "vs": vs[:5], "w": None if w is None else w[:5]})
        yield "pdf", {"pole": pole, "res": res, "sigma": sigma, "vs": vs, "w": w,
                      "angles": [False, True, False, "atan2", False, "shift", True, False][k % 8]}
        if res >= 7.5 and sigma / res <= 2.0:
            ctx.count(f"pdf_model/{HEMI[pole]}/{'identity' if ident else 'smoothed'}", ("pdfm", pole, res, sigma, vs, w))
            yield "pdf_model", {"pole": pole, "res": res, "sigma": sigma, "vs": vs,
                                "w": [1.0] * nv if w is None else w}
    # folded densities
    per = 3 if quick else 12
    for gname in GROUPS:
        Gsize = group_by_name(gname).size
        for k in range(per):
            nv = int(rng.integers(20, 120))
            # general position: C07 makes the projection constant on orbits only off the sector boundaries
            vs = gen_cloud(rng, nv, texture=bool(k % 2), special=False)
            if k % 3 == 2:
                # close to (but off) the coordinate planes: relative distance 1e-5 .. 3e-3
                a = np.array(vs)
                ax = rng.integers(3, size=nv)
                a[np.arange(nv), ax] = rng.choice([-1, 1], nv) * 10.0 ** rng.uniform(-5, -2.5, nv) * np.linalg.norm(a, axis=1)
                vs = [[float(x) for x in r] for r in a]
            w = gen_weights(rng, nv) or [1.0] * nv
            ops = [int(x) for x in rng.integers(Gsize, size=nv)]
            res = [10.0, 5.0, 15.0][k % 3]
            sigma = [5.0, 2.5, 10.0, 0.5][k % 4]
            c = {"group": gname, "vs": vs, "w": w, "ops": ops, "res": res, "sigma": sigma, "mrd": bool(k % 2 == 0)}
            ctx.count(f"pdf_symmetry/{gname}/{'nearplane' if k % 3 == 2 else 'generic'}", ("ps", gname, vs, ops),
                      nontrivial=Gsize > 1)
            yield "pdf_symmetry", c


def run(ctx, status):
    driver_ok = lean_phase(ctx, status, ["OrixProofs.Properties.C20"], kernels=KERNELS)
    if ctx.replay:
        site, case, body = sites.load_replay(ctx.replay)
        if site in SITES:
            sites.run_cases(ctx, SITES, [(site, case)], driver_ok)
    else:
        sites.run_cases(ctx, SITES, generate(ctx), driver_ok)
    return common.finish(
        ctx, "proof", PREDICATES,
        rule="seeded stratified generation: unit and scaled vectors (Haar, both poles, equator exactly and at "
             "+-1e-12..1e-8 around the 1e-9 band, near poles, axes, integer, near-axis around the 1e-8 azimuth snap), "
             "both projection poles, radians and degrees, disk points (origin, inside, rim, 1-1e-15, outside); pole "
             "densities for both hemispheres, resolutions 2.5-30 deg, sigma 0.05-5 bins, unit / integer / real / "
             "wide-range weights, uniform and textured clouds, empty hemispheres; folded densities for all 38 point "
             "groups with a random operation per vector; distinct by hash of the canonical input",
        assumptions=["scipy.ndimage.gaussian_filter is a parameter of the model with the contract 'correlation with a "
                     "symmetric, non-negative, normalised kernel under wrap / reflect'; the contract is exercised by "
                     "the kernel_contract and correlate1d sites, not verified",
                     "np.histogram2d is modelled by its contract (half-open bins, last bin closed, outliers dropped)",
                     "projection into the fundamental sector being constant on orbits is property C07 (hypothesis of "
                     "folded_density_invariant)",
                     "floating-point rounding is outside the theorems (measured: worst_model_impl_deviation)"])
