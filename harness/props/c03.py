"""C03 — point groups are the crystallographic groups of their names and space groups.
Finite and complete: the kernel decides the regenerated tables; the sites below tie the tables to the live
objects and evaluate the property on the implementation (they are the failing-input search)."""
from __future__ import annotations

import numpy as np

from .. import common, sites
from ..extract import groups as X
from ..main import lean_phase

TOL = 1e-9


def cart_ops(G):
    """full O(3) Cartesian matrices of a Symmetry's operations (as they act on vectors)"""
    m = G.to_matrix().reshape(-1, 3, 3)
    return np.where(G.improper.reshape(-1), -1.0, 1.0)[:, None, None] * m


def set_eq(A, B, tol=TOL):
    A, B = np.asarray(A).reshape(-1, 9), np.asarray(B).reshape(-1, 9)
    if len(A) == 0 or len(B) == 0:
        return len(A) == len(B)
    d = np.abs(A[:, None, :] - B[None, :, :]).max(axis=-1) <= tol
    return bool(d.any(axis=1).all() and d.any(axis=0).all())


def subset(A, B, tol=TOL):
    A, B = np.asarray(A).reshape(-1, 9), np.asarray(B).reshape(-1, 9)
    d = np.abs(A[:, None, :] - B[None, :, :]).max(axis=-1) <= tol
    return bool(d.any(axis=1).all())


def to_cart(ms, B):
    """integer lattice matrices (column convention, basis = rows of B) -> Cartesian matrices"""
    ms = np.asarray(ms, float).reshape(-1, 3, 3)
    return np.einsum("ij,njk,kl->nil", B.T, ms, np.linalg.inv(B).T)


def groups():
    from orix.quaternion import symmetry as S
    return S._groups


def by_name(name):
    for g in groups():
        if g.name == name:
            return g
    raise KeyError(name)


def parse_mats(line):
    xs = line.split()
    n = int(xs[0])
    v = [int(x) for x in xs[1:]]
    return [v[9 * i:9 * i + 9] for i in range(n)]


# ---- corr: the Lean table IS the live object ---------------------------------------------
def table_lines(c):
    return [f"grp ops cub {c['k']}", f"grp ops hex {c['k']}", "grp names"]


def table_check(ctx, c, outs):
    gs = groups()
    names = outs[2].split()
    if names != [g.name for g in gs]:
        return f"generated table names {names} != live _groups names {[g.name for g in gs]}"
    G = gs[c["k"]]
    for b, o in (("cub", outs[0]), ("hex", outs[1])):
        live = X.lattice_mats(G, X.BASES[b])
        lean = None if o == "none" else parse_mats(o)
        if live != lean:
            return f"group {G.name} basis {b}: Lean table {lean} != live operations {live}"
        if live is not None:
            # action on integer lattice vectors through the public API
            from orix.vector import Vector3d
            B = X.BASES[b]
            xs = np.array(c["vecs"], float)
            got = G.outer(Vector3d(xs @ B)).data  # (n, m, 3)
            want = np.einsum("nij,mj->nmi", np.array(live, float).reshape(-1, 3, 3), xs) @ B
            if np.abs(got - want).max() > 1e-9:
                return f"group {G.name}: action on lattice vectors differs from the table"
    return None


# ---- prop sites -------------------------------------------------------------------------
def axioms_check(ctx, c, outs):
    G = by_name(c["name"])
    M = cart_ops(G)
    n = len(M)
    if n != G.order or n != G.size:
        return f"order {G.order} != number of operations {n}"
    if not subset(np.eye(3)[None], M):
        return "identity missing"
    P = np.einsum("aij,bjk->abik", M, M).reshape(-1, 3, 3)
    if not subset(P, M):
        return "not closed under composition"
    if not subset(np.transpose(M, (0, 2, 1)), M):
        return "not closed under inversion"
    d = np.abs(M.reshape(n, 1, 9) - M.reshape(1, n, 9)).max(axis=-1) + np.eye(n)
    if (d <= TOL).any():
        return "duplicate operations"
    L = cart_ops(G.laue)
    if not set_eq(L, np.concatenate([M, -M])):
        return "Laue group is not the group extended by inversion"
    Pm = cart_ops(G.proper_subgroup)
    if not set_eq(Pm, M[np.linalg.det(M) > 0]):
        return "proper subgroup is not exactly the proper operations"
    if bool(G.contains_inversion) != subset(-np.eye(3)[None], M):
        return "contains_inversion disagrees with the operations"
    if bool(G.is_proper) != bool((np.linalg.det(M) > 0).all()):
        return "is_proper disagrees with the operations"
    # the Laue group and the proper subgroup as OBJECTS answer the same queries consistently
    Lg = G.laue
    if not bool(Lg.contains_inversion) or bool(Lg.is_proper):
        return "Laue group object: contains_inversion / is_proper disagree with its operations"
    if not set_eq(cart_ops(Lg.proper_subgroup), L[np.linalg.det(L) > 0]):
        return (f"proper subgroup of the Laue group of {c['name']} ('{Lg.proper_subgroup.name}') is not exactly the proper "
                "operations of the Laue group")
    if not set_eq(cart_ops(Lg.laue), L):
        return f"the Laue group of the Laue group of {c['name']} ('{Lg.laue.name}') is not that Laue group itself"
    if not set_eq(cart_ops(Lg.laue_proper_subgroup), L[np.linalg.det(L) > 0]):
        return f"laue_proper_subgroup of the Laue group of {c['name']} is not its proper part"
    if not set_eq(cart_ops(G.laue_proper_subgroup), L[np.linalg.det(L) > 0]):
        return f"laue_proper_subgroup of {c['name']} ('{G.laue_proper_subgroup.name}') is not the proper part of its Laue group"
    for H in groups():
        listed_l = any(s.name == H.name for s in Lg.subgroups)
        if listed_l != subset(cart_ops(H), L):
            return f"subgroups query of the Laue group of {c['name']}: {H.name} listed={listed_l} but inclusion={not listed_l}"
    for H in groups():
        listed = any(H is s or (s.name == H.name) for s in G.subgroups)
        if listed != subset(cart_ops(H), M):
            return f"subgroups query: {H.name} listed={listed} but inclusion={not listed}"
    return None


def name_lines(c):
    return [f"grp ref cub {c['name']}", f"grp ref hex {c['name']}"]


def name_check(ctx, c, outs):
    G = by_name(c["name"])
    M = cart_ops(G)
    seen = False
    for b, o in (("cub", outs[0]), ("hex", outs[1])):
        if o.startswith("!err"):
            continue
        seen = True
        R = to_cart(parse_mats(o), X.BASES[b])
        if not set_eq(M, R):
            extra = [m.round(3).tolist() for m in M if not subset(m[None], R)][:2]
            return (f"operations of '{c['name']}' differ from those its Hermann-Mauguin name denotes "
                    f"(basis {b}); e.g. not in the reference group: {extra}")
    if not seen:
        return f"no reference group for name {c['name']}"
    return None


FAMILY_LATTICE = [  # (first, last, a, b, c, alpha, beta, gamma): generic lattices of each crystal family
    (1, 2, 3.1, 4.3, 5.7, 81.0, 97.0, 105.0), (3, 15, 3.1, 4.3, 5.7, 90.0, 103.0, 90.0),
    (16, 74, 3.1, 4.3, 5.7, 90, 90, 90), (75, 142, 3.1, 3.1, 5.7, 90, 90, 90),
    (143, 194, 3.1, 3.1, 5.7, 90, 90, 120), (195, 230, 3.1, 3.1, 3.1, 90, 90, 90)]


def sg_check(ctx, c, outs):
    from diffpy.structure import Lattice, Structure
    from diffpy.structure.spacegroups import GetSpaceGroup
    from orix.crystal_map import Phase
    import warnings
    n = c["number"]
    lat = [f for f in FAMILY_LATTICE if f[0] <= n <= f[1]][0][2:]
    with warnings.catch_warnings():
        warnings.simplefilter("ignore")
        how = c.get("how", "init")
        st = Structure(lattice=Lattice(*lat))
        if how == "init":
            ph = Phase(space_group=n, structure=st)
        elif how == "pg_then_sg":          # explicit point group first, space group assigned afterwards
            ph = Phase(point_group=c.get("pg", "432"), structure=st)
            ph.space_group = n
        elif how == "sg_then_sg":          # space group changed on an existing phase
            ph = Phase(space_group=c.get("other", 225), structure=st)
            ph.space_group = n
        elif how == "both_then_sg":        # consistent pair at construction, space group changed afterwards
            ph = Phase(space_group=c.get("other", 225), point_group=c.get("pg", "m-3m"), structure=st)
            ph.space_group = n
        else:
            raise ValueError(how)
        B = ph.structure.lattice.base
        rots = np.array([op.R for op in GetSpaceGroup(n).iter_symops()])
    cart = np.einsum("ij,njk,kl->nil", B.T, rots, np.linalg.inv(B).T)
    M = cart_ops(ph.point_group)
    if not set_eq(M, cart, 1e-8):
        missing = [m.round(3).tolist() for m in cart if not subset(m[None], M, 1e-8)][:1]
        return (f"space group {n} (phase built by '{c.get('how', 'init')}'): point group '{ph.point_group.name}' is not the set "
                f"of rotational parts in the phase frame; e.g. rotational part {missing} is not in the point group")
    if how == "init":
        # get_point_group(n) is the group the phase gets; its `proper` flag (orix: the purely rotational group of the same
        # Laue class, e.g. 422 for -42m - NOT the proper subgroup) must not depend on how the truth value is spelt
        # (literal, numpy bool as returned by Symmetry.is_proper, integer)
        from orix.quaternion.symmetry import get_point_group
        with warnings.catch_warnings():
            warnings.simplefilter("ignore")
            full = cart_ops(get_point_group(n))
            if not set_eq(full, M, 1e-8):
                return f"get_point_group({n}) is not the point group of Phase(space_group={n})"
            ref = {True: cart_ops(get_point_group(n, proper=True)), False: cart_ops(get_point_group(n, proper=False))}
            if not set_eq(ref[False], full, 1e-8):
                return f"get_point_group({n}, proper=False) is not get_point_group({n})"
            if any(np.linalg.det(m) < 0 for m in ref[True]):
                return f"get_point_group({n}, proper=True) contains improper operations"
            for flag in (np.bool_(True), 1, np.bool_(False), 0):
                got = cart_ops(get_point_group(n, proper=flag))
                if not set_eq(got, ref[bool(flag)], 1e-8):
                    return (f"get_point_group({n}, proper={flag!r}) has {len(got)} operations but proper={bool(flag)} gives "
                            f"{len(ref[bool(flag)])}: the result depends on how the truth value is spelt")
    return None


QUERY_SCRIPT = r"""
import json, sys, warnings
import numpy as np
warnings.simplefilter("ignore")
from orix.quaternion import symmetry as S
seed = int(sys.argv[1])
rng = np.random.default_rng(seed)
def ops(G):
    m = G.to_matrix().reshape(-1, 3, 3)
    return np.where(G.improper.reshape(-1), -1.0, 1.0)[:, None, None] * m
def sub(A, B):
    A, B = A.reshape(-1, 9), B.reshape(-1, 9)
    return bool((np.abs(A[:, None] - B[None]).max(-1) <= 1e-9).any(1).all())
named = list(S._groups)
objs = [("named", i) for i in range(len(named))] + [("laue", i) for i in range(len(named))]
order = rng.permutation(len(objs))
bad = []
for j in order:
    kind, i = objs[j]
    G = named[i] if kind == "named" else named[i].laue
    M = ops(G)
    P = M[np.linalg.det(M) > 0]
    if bool(G.contains_inversion) != sub(-np.eye(3)[None], M):
        bad.append([kind, named[i].name, "contains_inversion"])
    if bool(G.is_proper) != bool((np.linalg.det(M) > 0).all()):
        bad.append([kind, named[i].name, "is_proper"])
    ps = ops(G.proper_subgroup)
    if not (sub(ps, P) and sub(P, ps)):
        bad.append([kind, named[i].name, "proper_subgroup=" + str(G.proper_subgroup.name)])
    LL = np.concatenate([M, -M])
    lo = ops(G.laue)
    if not (sub(lo, LL) and sub(LL, lo)):
        bad.append([kind, named[i].name, "laue=" + str(G.laue.name)])
    lp = ops(G.laue_proper_subgroup)
    LP = LL[np.linalg.det(LL) > 0]
    if not (sub(lp, LP) and sub(LP, lp)):
        bad.append([kind, named[i].name, "laue_proper_subgroup=" + str(G.laue_proper_subgroup.name)])
    listed = set(h.name for h in G.subgroups)
    for H in named:
        if (H.name in listed) != sub(ops(H), M):
            bad.append([kind, named[i].name, "subgroups:" + H.name])
            break
print(json.dumps(bad))
"""


def order_check(ctx, c, outs):
    """the subgroup / inversion / properness queries in a FRESH interpreter, named groups and Laue-group objects
    interleaved in a seeded random order (answers must not depend on which object was asked first)"""
    import json as _json
    import os
    import subprocess
    import sys
    env = dict(os.environ)
    p = subprocess.run([sys.executable, "-c", QUERY_SCRIPT, str(c["seed"])], capture_output=True, text=True, env=env,
                       timeout=1200)
    if p.returncode != 0:
        return f"query script failed: {p.stderr[-300:]}"
    bad = _json.loads(p.stdout.strip().split("\n")[-1])
    if bad:
        return (f"queries disagree with set inclusion when asked in the order of seed {c['seed']}: {bad[:4]} "
                f"({len(bad)} in total)")
    return None


SITES = {
    "query_order": sites.Site("query_order", "prop", order_check),
    "table": sites.Site("table", "corr", table_check, table_lines),
    "group_axioms": sites.Site("group_axioms", "prop", axioms_check),
    "name_ops": sites.Site("name_ops", "prop", name_check, name_lines),
    "spacegroup": sites.Site("spacegroup", "prop", sg_check),
}
PREDICATES = {}


def _members(eid):
    for e in common.load_findings().get("findings", []):
        if e["id"] == eid:
            return e.get("members", [])
    return []


PREDICATES["name_in_members"] = lambda case: case.get("name") in _members("C03-mm2-setting")
PREDICATES["number_in_members"] = lambda case: case.get("number") in _members("C03-spacegroup-settings")


def generate(ctx):
    gs = groups()
    for k, G in enumerate(gs):
        vecs = [[int(x) for x in ctx.rng.integers(-3, 4, size=3)] for _ in range(4)]
        ctx.count("table", ("t", k), nontrivial=G.order > 1)
        yield "table", {"k": k, "name": G.name, "vecs": vecs}
        ctx.count("group_axioms", ("a", k), nontrivial=G.order > 1)
        yield "group_axioms", {"name": G.name}
        ctx.count("name_ops", ("n", k), nontrivial=G.order > 1)
        yield "name_ops", {"name": G.name}
        if k < 3:
            ctx.sample({"site": "name_ops", "name": G.name})
    for n in range(1, 231):
        ctx.count("spacegroup", ("sg", n), nontrivial=n > 1)
        yield "spacegroup", {"number": n}
    # the same clause for phases whose space group is assigned after construction
    hows = ["pg_then_sg", "sg_then_sg", "both_then_sg"]
    nums = [int(x) for x in ctx.rng.choice(np.arange(1, 231), 24 if ctx.tier == "quick" else 230, replace=False)]
    for j, n in enumerate(nums):
        how = hows[j % 3]
        ctx.count("spacegroup/" + how, ("sgh", how, n))
        yield "spacegroup", {"number": n, "how": how, "pg": ["432", "m-3m", "6/mmm", "1"][j % 4] if how == "pg_then_sg" else "m-3m",
                             "other": 225}
    for r in range(2 if ctx.tier == "quick" else 8):
        ctx.count("query_order", ("qo", r))
        yield "query_order", {"seed": int(ctx.rng.integers(1 << 30))}
    ctx.sample({"site": "spacegroup", "number": 194})
    ctx.extra["exhaustive"] = True


def run(ctx, status):
    g = status["groups"]
    gen_thms = [(f"OrixProofs.GenAudit.PG_{k}", f"Orix.GenAudit.pg_{k}_good") for k in range(g["n_groups"])]
    gen_thms += [("OrixProofs.GenAudit.C03Tables", "Orix.GenAudit.all_good"),
                 ("OrixProofs.GenAudit.C03Tables", "Orix.GenAudit.sg_bad_eq"),
                 ("OrixProofs.GenAudit.C03Tables", "Orix.GenAudit.sg_numbers")]
    driver_ok = lean_phase(ctx, status, ["OrixProofs.Properties.C03"], gen_theorems=gen_thms)
    if ctx.replay:
        site, case, body = sites.load_replay(ctx.replay)
        if site in SITES:
            sites.run_cases(ctx, SITES, [(site, case)], driver_ok)
    else:
        if any(f.kind == "obligation" for f in ctx.failures) and driver_ok:
            # exhaustive search in the model: the verified checkers name the offending entries
            try:
                out = common.Driver(ctx).run(["grp check"])[0]
                per, bad = out.split("|")
                offenders = [p for p in per.split() if "false" in p.split(":", 1)[1]]
                ctx.note(f"model-side search: checker verdicts with a false component: {offenders}; "
                         f"space groups failing sgOk: {bad.split()}")
            except Exception as e:  # noqa
                ctx.note(f"model-side search unavailable: {e}")
        sites.run_cases(ctx, SITES, generate(ctx), driver_ok)
    return common.finish(
        ctx, "proof", PREDICATES,
        rule="complete enumeration: all 38 point-group objects (table tie, group axioms incl. Laue/proper subgroup/"
             "queries/all 38x38 subgroup pairs, name clause) and all 230 space groups; non-trivial = order > 1 / "
             "number > 1",
        assumptions=["diffpy.structure space-group tables and Lattice are taken as given (third-party)",
                     "float operations are snapped to integer lattice matrices with residual < 1e-9 (checked); the "
                     "Cartesian rotation part of a lattice operation is independent of the free lattice parameters "
                     "of the crystal family (not proved in Lean; exercised numerically on generic lattices)"])
