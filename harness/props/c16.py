"""C16 — array-like objects have value semantics under structural operations.

Sites
  prog_model (corr)  the Lean model (Driver op `nd`) vs orix on the same program: shape, element placement (exact, by
                     integer tags), per-element improper flags, metadata, error kind
  prog_index (prop)  orix alone vs the same program applied by numpy to an index array (the property's own words),
                     metadata preserved, operands bit-identical after every step
  nomut      (prop)  no public property / argument-free method / unary operator changes the operand's buffers
                     (members enumerated by reflection)

A case is a JSON-able dict {cls, shape, flags, meta, prog}.  Elements are *tags* 0..n-1 (C order of the initial
object; operands of `stack` get the next free tags); tag -> data comes from fixed tables (integer-valued data for
Quaternion/Vector3d/Miller, unit quaternions that are bitwise fixed points of orix' normalisation for the rotation
classes), so element placement is compared exactly.
"""
from __future__ import annotations

import copy
import hashlib
import inspect
import warnings

import numpy as np

from .. import common, sites
from ..main import lean_phase

CLASSES = ["Quaternion", "Rotation", "Misorientation", "Orientation", "Vector3d", "Miller"]
ROT = ("Rotation", "Misorientation", "Orientation")
QUAT = ("Quaternion",) + ROT
SYMS = ["C1", "C2", "D3", "C4", "D6", "T", "O", "Oh", "D6h", "Ci"]
PHASES = ["none", "cubic", "hex", "tric"]
FORMATS = ["xyz", "uvw", "UVTW", "hkl", "hkil"]
NTAB = 512
UNIT_TOL = 2e-14  # relative, only for elements that went through a division (unit, ~Quaternion)


def _imp():
    from orix.quaternion import Quaternion, Rotation, Orientation, Misorientation
    from orix.vector import Vector3d, Miller
    return {"Quaternion": Quaternion, "Rotation": Rotation, "Misorientation": Misorientation,
            "Orientation": Orientation, "Vector3d": Vector3d, "Miller": Miller}


_TABLES = {}


def table(kind):
    """tag -> element data.  'q': integer quaternions, 'v': integer vectors, 'r': unit quaternions q with
    fl(norm(q)) == 1.0 and fl(norm(q)**2) == 1.0 so that Rotation(q).data == q bit for bit"""
    if kind in _TABLES:
        return _TABLES[kind]
    t = np.arange(NTAB, dtype=float)
    if kind == "q":
        tab = np.stack([3 * t + 1, -(3 * t + 2), 3 * t + 3, (t % 7) - 3.0], axis=-1)
    elif kind == "v":
        tab = np.stack([2 * t + 1, -(2 * t + 2), (t % 5) - 2.0], axis=-1)
    else:
        rng = np.random.Generator(np.random.PCG64(20241016))
        rows = []
        while len(rows) < NTAB:
            q = rng.normal(size=4)
            for _ in range(6):
                q = q / np.sqrt(np.sum(np.square(q)))
            n = np.sqrt(np.sum(np.square(q)))
            if n == 1.0 and n ** 2 == 1.0 and all(np.abs(q - r).max() > 1e-3 and np.abs(q + r).max() > 1e-3
                                                  for r in rows):
                rows.append(q)
        tab = np.array(rows)
    _TABLES[kind] = tab
    return tab


def kind_of(cls):
    return "r" if cls in ROT else ("q" if cls == "Quaternion" else "v")


# ---------------- metadata ---------------------------------------------------------------
def sym_by_name(name):
    from orix.quaternion import symmetry
    return getattr(symmetry, name)


def sym_key(s):
    """our key of a Symmetry object, by value (name and operations)"""
    for k in SYMS:
        g = sym_by_name(k)
        if g.name == s.name and g._data.shape == s._data.shape and np.array_equal(g._data, s._data):
            return k
    return "other:" + str(s.name)


_PH = {}


def phase_by_name(name):
    if name == "none":
        return None
    if name not in _PH:
        from diffpy.structure import Lattice, Structure
        from orix.crystal_map import Phase
        if name == "cubic":
            _PH[name] = Phase(name="cubic", point_group="m-3m", structure=Structure(lattice=Lattice(3, 3, 3, 90, 90, 90)))
        elif name == "hex":
            _PH[name] = Phase(name="hex", point_group="6/mmm",
                              structure=Structure(lattice=Lattice(3.2, 3.2, 5.1, 90, 90, 120)))
        else:
            _PH[name] = Phase(name="tric", point_group="-1", structure=Structure(lattice=Lattice(3, 4, 5, 80, 95, 105)))
    return _PH[name]


def phase_sig(ph):
    if ph is None:
        return None
    return (ph.name, ph.point_group.name if ph.point_group is not None else None,
            tuple(np.round(ph.structure.lattice.abcABG(), 9).tolist()))


def meta_of(cls, obj):
    """observable metadata of an orix object as a JSON-able value"""
    if cls == "Misorientation":
        return {"sym": [sym_key(obj.symmetry[0]), sym_key(obj.symmetry[1])]}
    if cls == "Orientation":
        return {"sym": [sym_key(obj._symmetry[0]), sym_key(obj.symmetry)]}
    if cls == "Miller":
        sig = phase_sig(obj.phase)
        name = "none" if sig is None else sig[0]
        if sig is not None and sig != phase_sig(phase_by_name(name)):
            name = "changed:" + repr(sig)
        return {"phase": name, "fmt": obj.coordinate_format}
    return {}


def build(cls, shape, tags, flags, meta):
    """orix object of class cls whose element at C-position k is table[tags[k]] (+ flag)"""
    C = _imp()
    tab = table(kind_of(cls))
    data = tab[np.array(tags, dtype=int)].reshape(tuple(shape) + (tab.shape[1],)).copy()
    data = common.relayout(data, (cls, list(shape), list(tags)))       # same values, memory layout chosen by the case
    if cls == "Miller":
        o = C[cls](xyz=data, phase=phase_by_name(meta["phase"]))
        o.coordinate_format = meta["fmt"]
    elif cls == "Misorientation":
        o = C[cls](data, symmetry=(sym_by_name(meta["sym"][0]), sym_by_name(meta["sym"][1])))
    elif cls == "Orientation":
        o = C[cls](data, symmetry=sym_by_name(meta["sym"][1]))
    else:
        o = C[cls](data)
    if cls in ROT:
        o.improper = np.array(flags, dtype=bool).reshape(tuple(shape))
    return o


# ---------------- programs ---------------------------------------------------------------
def py_key(key):
    """JSON key -> python index object"""
    if "mask" in key:
        return np.array(key["mask"], dtype=bool).reshape(tuple(key["mshape"]))
    items = []
    for it in key["t"]:
        if "i" in it:
            items.append(int(it["i"]))
        else:
            items.append(slice(*it["s"]))
    if key.get("bare") and len(items) == 1:
        return items[0]
    return tuple(items)


class Ref:
    """the same program applied by numpy to an index array of tags; per-tag value state for elementwise ops"""

    def __init__(self, cls, shape, flags, meta):
        self.cls = cls
        n = int(np.prod(shape))
        self.I = np.arange(n, dtype=int).reshape(tuple(shape))
        self.next = n
        self.flag = {k: bool(flags[k]) if cls in ROT else False for k in range(n)}
        self.state = {k: (False, False, 0, False) for k in range(n)}  # (negated, conjugated, scale power 0|1|2, inexact)
        self.meta = dict(meta)
        self.meta_defined = True

    def fresh(self, flags):
        n = self.I.size
        tags = list(range(self.next, self.next + n))
        self.next += n
        for j, t in enumerate(tags):
            self.flag[t] = bool(flags[j]) if self.cls in ROT else False
            self.state[t] = (False, False, 0, False)
        return tags

    def apply(self, op):
        k = op[0]
        I = self.I
        if k == "getitem":
            self.I = np.atleast_1d(I[py_key(op[1])])
        elif k == "reshape":
            self.I = I.reshape(tuple(op[1]))
            if self.I.ndim == 0:
                raise ValueError("0-d target excluded")
        elif k == "flatten":
            self.I = I.T.reshape(-1)
        elif k == "transpose":
            if I.ndim == 1:
                pass
            elif op[1] is None:
                if I.ndim != 2:
                    raise ValueError("axes must be defined")
                self.I = I.T
            else:
                if len(op[1]) != I.ndim:
                    raise ValueError("number of axes")
                self.I = I.transpose(*op[1])
        elif k == "squeeze":
            self.I = np.atleast_1d(I.squeeze())
        elif k == "stack":
            pos, others = op[1], op[2]
            arrs = []
            for fl in others:
                arrs.append(np.array(self.fresh(fl), dtype=int).reshape(I.shape))
            arrs.insert(pos, I)
            self.I = np.stack(arrs, axis=-1)
            self.meta_defined = False  # the property speaks of operations acting on a single object
        elif k in ("unit", "inv", "neg"):
            if k == "inv" and self.cls not in QUAT:
                raise TypeError("no inverse for vectors")
            for t in self.I.reshape(-1).tolist():
                ng, cj, sc, ap = self.state[t]
                if k == "unit":
                    sc, ap = 1, True
                elif k == "neg":
                    if self.cls in ROT:
                        self.flag[t] = not self.flag[t]
                    else:
                        ng = not ng
                else:
                    cj = not cj
                    sc, ap = {0: 2, 1: 1, 2: 0}[sc], True
                self.state[t] = (ng, cj, sc, ap)
            if k == "inv" and self.cls == "Misorientation":
                self.meta["sym"] = self.meta["sym"][::-1]
        else:
            raise KeyError(k)

    def value(self, t):
        tab = table(kind_of(self.cls))
        ng, cj, sc, ap = self.state[t]
        v = tab[t].copy()
        if cj:
            v[1:] = -v[1:]
        if ng:
            v = -v
        if sc:
            v = v / np.sqrt(np.sum(np.square(tab[t]))) ** sc
        return v, ap


def stack_operands(cls, op, ref_before):
    """the fresh operands of a stack op, tagged with the tags the reference hands out"""
    nxt = ref_before["next"]
    shape = ref_before["shape"]
    n = int(np.prod(shape))
    objs = []
    for fl in op[2]:
        objs.append(build(cls, shape, list(range(nxt, nxt + n)), fl, ref_before["meta0"]))
        nxt += n
    return objs


def impl_apply(cls, obj, op, ref_before, operands=None):
    """apply one op to the orix object; operands of stack are built from the tags the reference hands out"""
    k = op[0]
    if k == "getitem":
        return obj[py_key(op[1])]
    if k == "reshape":
        return obj.reshape(*op[1]) if op[-1] == "args" else obj.reshape(tuple(op[1]))
    if k == "flatten":
        return obj.flatten()
    if k == "transpose":
        return obj.transpose() if op[1] is None else obj.transpose(*op[1])
    if k == "squeeze":
        return obj.squeeze()
    if k == "unit":
        return obj.unit
    if k == "inv":
        return ~obj
    if k == "neg":
        return -obj
    if k == "stack":
        objs = list(stack_operands(cls, op, ref_before) if operands is None else operands)
        objs.insert(op[1], obj)
        return type(obj).stack(objs)
    raise KeyError(k)


def buf_hash(obj):
    h = hashlib.blake2b(digest_size=12)
    d = obj._data
    h.update(repr((d.shape, str(d.dtype))).encode())
    h.update(np.ascontiguousarray(d).tobytes())
    for s in getattr(obj, "_symmetry", ()) or ():
        h.update(np.ascontiguousarray(s._data).tobytes())
    return h.hexdigest()


def compare(cls, obj, ref: Ref, what, check_meta=True):
    """orix object vs reference index array: shape, element placement, flags, metadata"""
    if tuple(obj.shape) != tuple(ref.I.shape):
        return f"{what}: shape {tuple(obj.shape)} but the index array has shape {tuple(ref.I.shape)}"
    data = obj.data
    for pos in np.ndindex(*ref.I.shape):
        t = int(ref.I[pos])
        want, sc = ref.value(t)
        got = data[pos]
        ok = np.array_equal(got, want) if sc == 0 else bool(
            np.all(np.abs(got - want) <= UNIT_TOL * max(1.0, float(np.abs(want).max()))))
        if not ok:
            return (f"{what}: element at {pos} is {got.tolist()} but the index array puts tag {t} there "
                    f"(expected data {want.tolist()})")
        if cls in ROT and bool(obj.improper[pos]) != ref.flag[t]:
            return (f"{what}: improper flag at {pos} is {bool(obj.improper[pos])} but element (tag {t}) carries "
                    f"{ref.flag[t]}")
    if cls in ROT and tuple(obj.improper.shape) != tuple(ref.I.shape):
        return f"{what}: improper has shape {tuple(obj.improper.shape)}"
    if check_meta and ref.meta_defined:
        m = meta_of(cls, obj)
        if m != ref.meta:
            return f"{what}: metadata {m} but expected {ref.meta}"
    return None


def err_kind(e):
    if type(e).__name__ == "AxisError":  # subclass of both ValueError and IndexError
        return "value"
    if isinstance(e, IndexError):
        return "index"
    if isinstance(e, (ValueError, TypeError)) or type(e).__name__ == "DimensionError":
        return "value"
    return type(e).__name__


def run_prog_impl(case):
    """runs the program on orix and on the index array in lock step.
    returns (failure text | None, final object | None, final ref, error kind | None)"""
    cls = case["cls"]
    ref = Ref(cls, case["shape"], case["flags"], case["meta"])
    n0 = ref.I.size
    obj = build(cls, case["shape"], list(range(n0)), case["flags"], case["meta"])
    r = compare(cls, obj, ref, "constructor")
    if r:
        return r, None, ref, None
    for step, op in enumerate(case["prog"]):
        what = f"step {step} {op[0]}"
        before = {"next": ref.next, "shape": list(ref.I.shape), "meta0": case["meta"]}
        h0 = buf_hash(obj)
        operands = stack_operands(cls, op, before) if op[0] == "stack" else []
        hops = [buf_hash(o) for o in operands]
        ref_err = impl_err = None
        try:
            ref.apply(op)
        except Exception as e:  # numpy refuses the operation on the index array
            ref_err = e
        new = None
        try:
            with warnings.catch_warnings():
                warnings.simplefilter("ignore")
                new = impl_apply(cls, obj, op, before, operands)
        except Exception as e:
            impl_err = e
        if buf_hash(obj) != h0 or [buf_hash(o) for o in operands] != hops:
            return f"{what}: the operand's buffer changed", None, ref, None
        if ref_err is not None and impl_err is not None:
            return None, None, ref, err_kind(ref_err)
        if ref_err is not None:
            return (f"{what}: numpy rejects this operation on an index array ({type(ref_err).__name__}) but orix "
                    f"returned an object of shape {tuple(new.shape)}"), None, ref, None
        if impl_err is not None:
            return (f"{what}: orix raised {type(impl_err).__name__}: {impl_err} but the operation is valid on an "
                    f"index array (result shape {tuple(ref.I.shape)})"), None, ref, None
        if type(new).__name__ != cls:
            return f"{what}: result is a {type(new).__name__}", None, ref, None
        r = compare(cls, new, ref, what)
        if r:
            return r, None, ref, None
        obj = new
    return None, obj, ref, None


# ---------------- generation -------------------------------------------------------------
SHAPES = [(1,), (2,), (3,), (5,), (0,), (1, 1), (2, 1), (1, 3), (2, 3), (3, 2), (4, 3), (2, 0), (0, 3), (1, 0),
          (2, 1, 2), (1, 2, 3), (2, 3, 4), (3, 1, 1), (1, 1, 1), (2, 0, 2), (2, 2, 2, 2), (1, 2, 1, 3), (3, 1, 2, 1),
          (7,), (6, 1)]


def rand_meta(rng, cls):
    if cls == "Misorientation":
        return {"sym": [SYMS[rng.integers(len(SYMS))], SYMS[rng.integers(len(SYMS))]]}
    if cls == "Orientation":
        return {"sym": ["C1", SYMS[rng.integers(len(SYMS))]]}
    if cls == "Miller":
        ph = PHASES[rng.integers(len(PHASES))]
        fmt = "xyz" if ph == "none" else FORMATS[rng.integers(len(FORMATS))]
        return {"phase": ph, "fmt": fmt}
    return {}


def all_metas(cls):
    if cls == "Misorientation":
        return [{"sym": [a, b]} for a in SYMS for b in SYMS]
    if cls == "Orientation":
        return [{"sym": ["C1", a]} for a in SYMS]
    if cls == "Miller":
        return [{"phase": "none", "fmt": "xyz"}] + [{"phase": p, "fmt": f} for p in PHASES[1:] for f in FORMATS]
    return [{}]


def rand_slice(rng, n):
    def b():
        return None if rng.random() < 0.35 else int(rng.integers(-n - 2, n + 3))
    step = [None, 1, 1, -1, 2, -2, 3][rng.integers(7)]
    return [b(), b(), step]


def rand_key(rng, shape, allow_err):
    nd = len(shape)
    if rng.random() < 0.2:
        m = int(rng.integers(1, nd + 1))
        msh = list(shape[:m])
        cnt = int(np.prod(msh))
        p = [0.0, 0.5, 0.5, 1.0][rng.integers(4)]
        return {"mask": [bool(rng.random() < p) for _ in range(cnt)], "mshape": msh}
    m = int(rng.integers(1, nd + 1))
    items = []
    for a in range(m):
        n = shape[a]
        if rng.random() < 0.45:
            if n == 0 or (allow_err and rng.random() < 0.5):
                i = int(rng.integers(-n - 2, n + 2))
            else:
                i = int(rng.integers(-n, n))
            items.append({"i": i})
        else:
            items.append({"s": rand_slice(rng, n)})
    key = {"t": items}
    if len(items) == 1 and rng.random() < 0.5:
        key["bare"] = True
    return key


def factorizations(n, rng):
    """a random shape with product n (n >= 0)"""
    if n == 0:
        return [[0], [0, 2], [3, 0], [1, 0, 2]][rng.integers(4)]
    dims = []
    rest = n
    while rest > 1 and len(dims) < 3 and rng.random() < 0.75:
        ds = [d for d in range(1, rest + 1) if rest % d == 0]
        d = int(ds[rng.integers(len(ds))])
        dims.append(d)
        rest //= d
    dims.append(rest)
    if rng.random() < 0.3:
        dims.insert(int(rng.integers(len(dims) + 1)), 1)
    return dims


def rand_op(rng, cls, ref: Ref, last, neg_axes=False):
    """one op that is valid on the current index array (or, if `last` and a coin says so, an invalid one)"""
    shape = list(ref.I.shape)
    nd = len(shape)
    bad = last and rng.random() < 0.12
    kinds = ["getitem", "getitem", "reshape", "flatten", "transpose", "transpose", "squeeze", "stack", "unit", "neg"]
    if cls in QUAT:
        kinds.append("inv")
    k = kinds[rng.integers(len(kinds))]
    if k == "getitem":
        return ["getitem", rand_key(rng, shape, bad)]
    if k == "reshape":
        dims = factorizations(int(np.prod(shape)), rng)
        if bad:
            dims = dims + [int(rng.integers(2, 4))]
        elif rng.random() < 0.3 and 0 not in dims:
            dims[int(rng.integers(len(dims)))] = -1
        return ["reshape", dims, "args" if rng.random() < 0.5 else "tuple"]
    if k == "transpose":
        if bad:
            return ["transpose", [[0], [0, 0, 1][:nd] if nd > 1 else [1, 0], list(range(nd + 1)), None][rng.integers(4)]]
        if nd == 2 and rng.random() < 0.5:
            return ["transpose", None]
        if nd == 1:
            return ["transpose", [None, [0]][rng.integers(2)]]
        axes = [int(x) for x in rng.permutation(nd)]
        if neg_axes and rng.random() < 0.3:  # orix reads negative axes against data.ndim: model-vs-code only
            j = int(rng.integers(nd))
            axes[j] -= int(rng.integers(nd, nd + 3))
        return ["transpose", axes]
    if k == "stack":
        if nd >= 4 or ref.next + 3 * max(1, int(np.prod(shape))) > NTAB:
            return ["flatten"]
        m = int(rng.integers(0, 3))
        n = int(np.prod(shape))
        others = [[bool(rng.integers(2)) for _ in range(n)] if cls in ROT else [] for _ in range(m)]
        return ["stack", int(rng.integers(m + 1)), others]
    return [k]


def rand_case(rng, cls, shape=None, meta=None, nops=None, neg_axes=False):
    shape = list(SHAPES[rng.integers(len(SHAPES))]) if shape is None else list(shape)
    n = int(np.prod(shape))
    p = [0.0, 0.5, 0.5, 1.0][rng.integers(4)]
    flags = [bool(rng.random() < p) for _ in range(n)] if cls in ROT else []
    meta = rand_meta(rng, cls) if meta is None else meta
    case = {"cls": cls, "shape": shape, "flags": flags, "meta": meta, "prog": []}
    ref = Ref(cls, shape, flags, meta)
    nops = int(rng.integers(1, 7)) if nops is None else nops
    for j in range(nops):
        op = rand_op(rng, cls, ref, last=(j == nops - 1), neg_axes=neg_axes)
        case["prog"].append(op)
        try:
            ref.apply(op)
        except Exception:
            break
    return case


# ---------------- corr: Lean model vs orix -----------------------------------------------
CLS_TAG = {"Quaternion": "Q", "Rotation": "R", "Misorientation": "M", "Orientation": "O", "Vector3d": "V", "Miller": "L"}


def bits(fl):
    return "".join("1" if b else "0" for b in fl) or "-"


def meta_tokens(cls, meta):
    if cls in ("Misorientation", "Orientation"):
        return [SYMS.index(meta["sym"][0]), SYMS.index(meta["sym"][1]), 0, 0]
    if cls == "Miller":
        return [0, 0, PHASES.index(meta["phase"]), FORMATS.index(meta["fmt"])]
    return [0, 0, 0, 0]


def meta_from_tokens(cls, tok):
    if cls in ("Misorientation", "Orientation"):
        return {"sym": [SYMS[tok[0]], SYMS[tok[1]]]}
    if cls == "Miller":
        return {"phase": PHASES[tok[2]], "fmt": FORMATS[tok[3]]}
    return {}


def op_token(op):
    k = op[0]
    if k == "getitem":
        key = op[1]
        if "mask" in key:
            return "K" + "x".join(map(str, key["mshape"])) + "_" + bits(key["mask"])
        items = []
        for it in key["t"]:
            if "i" in it:
                items.append(f"i{it['i']}")
            else:
                items.append("s" + "_".join("n" if x is None else str(x) for x in it["s"]))
        return "G" + ",".join(items)
    if k == "reshape":
        return "R" + ",".join(map(str, op[1]))
    if k == "transpose":
        return "T" if op[1] is None else "T" + ",".join(map(str, op[1]))
    if k == "stack":
        return f"C{op[1]}_" + (".".join((bits(f) if f else "e") for f in op[2]) or "-")
    return {"flatten": "F", "squeeze": "S", "unit": "U", "inv": "I", "neg": "N"}[k]


def prog_model_lines(c):
    prog = ";".join(op_token(op) for op in c["prog"]) or "-"
    return [f"nd {CLS_TAG[c['cls']]} {','.join(map(str, c['shape']))} {bits(c['flags'])} "
            f"{','.join(map(str, meta_tokens(c['cls'], c['meta'])))} {prog}"]


def sym_value(cls, s):
    """value of a symbolic element `tag.<history>` of the model: the table entry with the recorded element-wise
    operations applied in order, by the formulas the classes document (unit: v/|v|, inverse: conj(v)/|v|^2,
    negation: -v).  Returns (value, went through a division?)"""
    tag, hist = s.split(".")
    v = table(kind_of(cls))[int(tag)].copy()
    inexact = False
    with np.errstate(all="ignore"):
        for h in hist:
            if h == "u":
                v = np.nan_to_num(v / np.sqrt(np.sum(np.square(v))))
                inexact = True
            elif h == "i":
                n2 = np.sqrt(np.sum(np.square(v))) ** 2
                v = np.concatenate([v[:1], -v[1:]]) / n2
                inexact = True
            else:
                v = -v
    return v, inexact


def run_impl_only(case):
    """the program on orix alone -> (object | None, error kind | None)"""
    cls = case["cls"]
    n0 = int(np.prod(case["shape"]))
    obj = build(cls, case["shape"], list(range(n0)), case["flags"], case["meta"])
    nxt = n0
    has_stack = False
    for op in case["prog"]:
        before = {"next": nxt, "shape": list(obj.shape), "meta0": case["meta"]}
        if op[0] == "stack":
            nxt += len(op[2]) * int(np.prod(obj.shape))
            has_stack = True
        try:
            with warnings.catch_warnings():
                warnings.simplefilter("ignore")
                obj = impl_apply(cls, obj, op, before)
        except Exception as e:
            return None, err_kind(e), has_stack
    return obj, None, has_stack


def prog_model_check(ctx, c, outs):
    obj, ek, has_stack = run_impl_only(c)
    return compare_model(c, outs[0], obj, ek, has_stack)


def compare_model(c, out, obj, ek, has_stack):
    cls = c["cls"]
    if out.startswith("!err"):
        mk = out.split()[1]
        if mk in ("internal", "parse"):
            return f"model answered {out}"
        mk = "value" if mk == "dimension" else mk
        if ek is None:
            return f"model: error {mk}; orix returned an object of shape {tuple(obj.shape)}"
        if ek != mk:
            return f"model: error {mk}; orix raised kind {ek}"
        return None
    if ek is not None:
        return f"orix raised ({ek}) but the model returns {out[:80]}"
    sh, el, fl, md = out.split()
    shape = tuple(int(x) for x in sh.split(","))
    if tuple(obj.shape) != shape:
        return f"shape {tuple(obj.shape)} but model {shape}"
    els = [] if el == "-" else el.split(",")
    data = obj.data.reshape(-1, obj.data.shape[-1])
    if len(els) != data.shape[0]:
        return f"{data.shape[0]} elements but model has {len(els)}"
    for k, s in enumerate(els):
        want, inexact = sym_value(cls, s)
        got = data[k]
        ok = np.array_equal(got, want) if not inexact else bool(
            np.all(np.abs(got - want) <= UNIT_TOL * max(1.0, float(np.abs(want).max()))))
        if not ok:
            return f"element {k} (C order) is {got.tolist()} but the model has {s} = {want.tolist()}"
    if cls in ROT:
        got = bits(obj.improper.reshape(-1).tolist())
        if got != fl:
            return f"improper flags {got} but model {fl}"
    if not has_stack:  # stack takes several objects: the property leaves its metadata open
        m = meta_of(cls, obj)
        want = meta_from_tokens(cls, [int(x) for x in md.split(",")])
        if m != want:
            return f"metadata {m} but model {want}"
    return None


def prog_index_check(ctx, c, outs):
    r, obj, ref, ek = run_prog_impl(c)
    return r


# ---------------- no-mutation clause -----------------------------------------------------
SKIP_MEMBER = ("plot", "scatter", "draw", "imshow", "random")
UNARY = ["__neg__", "__invert__", "__repr__", "__abs__", "__pos__", "__len__", "__hash__", "__str__"]
THRESH = [0.0, -0.0, 1e-9, -1e-9, 5e-9, 1e-8, -1e-8, 2e-8, 1e-13, -1e-13, 9.9e-13, 1.1e-12, 1.0, -1.0, 0.5,
          1.0 + 1e-9, 1e-6, -1e-6, -2e-6, -1e-7, 0.3, -0.7]


def members(cls_name):
    """public properties, argument-free methods and unary operators of the class, found by reflection"""
    C = _imp()[cls_name]
    out = []
    for name in sorted(set(dir(C))):
        if any(s in name for s in SKIP_MEMBER):
            continue
        try:
            st = inspect.getattr_static(C, name)
        except AttributeError:
            continue
        if name.startswith("_"):
            if name in UNARY and callable(getattr(C, name, None)) and not isinstance(st, (classmethod, staticmethod)):
                out.append((name, "unary"))
            continue
        if isinstance(st, property):
            out.append((name, "property"))
        elif inspect.isfunction(st):
            try:
                sig = inspect.signature(st)
            except (TypeError, ValueError):
                continue
            ps = list(sig.parameters.values())[1:]
            if all(p.default is not inspect.Parameter.empty or p.kind in (p.VAR_POSITIONAL, p.VAR_KEYWORD) for p in ps):
                out.append((name, "method"))
    return out


def call_with_args(cls, obj, name):
    """read-only operations that need an argument: the operand itself, a symmetry, a simple scalar"""
    C = _imp()
    from orix.quaternion import symmetry as S
    from orix.vector import Vector3d
    k, _, arg = name.partition(":")
    if k == "in_fundamental_sector":
        return obj.in_fundamental_sector(sym_by_name(arg))
    if k in ("dot", "cross", "angle_with", "outer", "dot_outer", "angle_with_outer", "get_nearest"):
        other = copy.deepcopy(obj)
        return getattr(obj, k)(other)
    if k == "rotate":
        return obj.rotate(Vector3d.zvector(), 0.3)
    if k == "mul_vector":
        return obj * Vector3d(np.array([[0.3, -0.4, 1.2]]))
    if k == "mul_self":
        return obj * copy.deepcopy(obj)
    if k == "to_euler_deg":
        return obj.to_euler(degrees=True)
    if k == "to_rodrigues_frank":
        return obj.to_rodrigues(frank=True)
    if k == "symmetrise_unique":
        return obj.symmetrise(unique=True)
    if k == "unique_sym":
        return obj.unique(use_symmetry=True)
    if k == "round":
        return obj.round(max_index=6)
    if k == "reduced_zone":
        return obj.map_into_symmetry_reduced_zone()
    if k == "get_distance_matrix":
        return obj.get_distance_matrix()
    raise KeyError(name)


ARG_CALLS = {
    "Vector3d": ["in_fundamental_sector:C1", "in_fundamental_sector:D3", "in_fundamental_sector:S4", "in_fundamental_sector:Oh",
                 "in_fundamental_sector:D6h", "dot", "cross", "angle_with", "dot_outer", "rotate", "get_nearest"],
    "Miller": ["in_fundamental_sector:D3", "in_fundamental_sector:Oh", "dot", "cross", "angle_with", "symmetrise_unique",
               "unique_sym", "round"],
    "Quaternion": ["dot", "outer", "dot_outer", "mul_vector", "mul_self", "to_euler_deg", "to_rodrigues_frank"],
    "Rotation": ["dot", "outer", "dot_outer", "angle_with", "mul_vector", "mul_self", "to_euler_deg", "to_rodrigues_frank"],
    "Orientation": ["dot", "dot_outer", "angle_with", "angle_with_outer", "mul_vector", "get_distance_matrix"],
    "Misorientation": ["mul_self", "get_distance_matrix"],
}


def nomut_build(c):
    C = _imp()
    cls = c["cls"]
    data = np.array(c["data"], dtype=float).reshape(tuple(c["shape"]) + (-1,))
    if cls == "Miller":
        o = C[cls](xyz=data, phase=phase_by_name(c["meta"]["phase"]))
        o.coordinate_format = c["meta"]["fmt"]
    elif cls == "Misorientation":
        o = C[cls](data, symmetry=(sym_by_name(c["meta"]["sym"][0]), sym_by_name(c["meta"]["sym"][1])))
    elif cls == "Orientation":
        o = C[cls](data, symmetry=sym_by_name(c["meta"]["sym"][1]))
    else:
        o = C[cls](data)
    if cls in ROT:
        with np.errstate(all="ignore"):
            o.improper = np.array(c["flags"], dtype=bool).reshape(tuple(c["shape"]))
    return o


def full_hash(obj):
    h = hashlib.blake2b(digest_size=12)
    h.update(buf_hash(obj).encode())
    ph = getattr(obj, "phase", None)
    if ph is not None:
        h.update(repr(phase_sig(ph)).encode())
        if ph.point_group is not None:
            h.update(np.ascontiguousarray(ph.point_group._data).tobytes())
    h.update(repr(getattr(obj, "_coordinate_format", None)).encode())
    return h.hexdigest()


def nomut_check(ctx, c, outs):
    obj = nomut_build(c)
    before = full_hash(obj)
    ref = np.array(obj._data, copy=True)
    name, kind = c["member"], c["kind"]
    raised = None
    import contextlib
    import io
    import matplotlib
    matplotlib.use("Agg")
    with warnings.catch_warnings(), np.errstate(all="ignore"), contextlib.redirect_stdout(io.StringIO()):
        warnings.simplefilter("ignore")
        try:
            if kind == "property":
                getattr(obj, name)
            elif kind == "args":
                call_with_args(c["cls"], obj, name)
            else:
                getattr(obj, name)()
        except Exception as e:  # the clause is about the operand, not about the result
            raised = type(e).__name__
    ctx.strata[f"nomut/{'raised' if raised else 'returned'}"] = ctx.strata.get(
        f"nomut/{'raised' if raised else 'returned'}", 0) + 1
    if full_hash(obj) != before:
        d = obj._data
        if d.shape == ref.shape:
            bad = np.argwhere(~((d == ref) | ((d != d) & (ref != ref))))
            where = f"first changed entry at {bad[0].tolist()}: {ref[tuple(bad[0])]!r} -> {d[tuple(bad[0])]!r}" if len(bad) \
                else "bit pattern changed (sign of zero / metadata)"
        else:
            where = f"_data shape {ref.shape} -> {d.shape}"
        return f"{c['cls']}.{name} ({kind}) changed its operand: {where}"
    return None


def thresh_data(rng, n, dim):
    rows = []
    for _ in range(n):
        r = [THRESH[rng.integers(len(THRESH))] for _ in range(dim)]
        if rng.random() < 0.3:
            r = [float(x) for x in rng.normal(size=dim)]
        rows.append([float(x) for x in r])
    return rows


# ---- prop: a structural / normalising operation on the whole object = the same operation element by element -------------
ELEMENTWISE_OPS = {"Quaternion": ["unit", "inv", "neg", "conj"], "Vector3d": ["unit", "neg"], "Miller": ["unit", "neg"],
                   "Rotation": ["unit", "inv", "neg"], "Orientation": ["unit", "inv", "neg"],
                   "Misorientation": ["unit", "inv", "neg"]}


def _apply_unary(o, op):
    return {"unit": lambda: o.unit, "inv": lambda: ~o, "neg": lambda: -o, "conj": lambda: o.conj}[op]()


def elementwise_check(ctx, c, outs):
    """op(obj)[i] == op(obj[i]) for every element (each element keeps ITS OWN data: no decision taken for the whole object
    at once may change what happens to one element), and `unit` really divides every element by its own norm"""
    obj = nomut_build(c)
    op = c["op"]
    raw = np.array(c["data"], dtype=float).reshape(tuple(c["shape"]) + (-1,))
    with warnings.catch_warnings(), np.errstate(all="ignore"):
        warnings.simplefilter("ignore")
        whole = _apply_unary(obj, op)
        if tuple(whole.shape) != tuple(obj.shape):
            return f"{c['cls']}.{op}: shape {tuple(whole.shape)} for an object of shape {tuple(obj.shape)}"
        for ix in np.ndindex(*obj.shape):
            one = _apply_unary(obj[ix], op)
            a, b = np.asarray(whole.data[ix], float).reshape(-1), np.asarray(one.data, float).reshape(-1)
            scale = max(float(np.abs(b).max()), 1e-300)
            if not np.abs(a - b).max() <= 4e-16 * scale:
                return (f"{c['cls']}.{op}: element {list(ix)} of the result on the whole object is {a.tolist()} but the operation on "
                        f"that element alone gives {b.tolist()} (element data {np.asarray(obj.data[ix]).tolist()}, "
                        f"norms of the object {np.asarray(obj.norm).reshape(-1).tolist()})")
            if c["cls"] in ROT and bool(np.asarray(whole.improper)[ix]) != bool(np.asarray(one.improper).reshape(-1)[0]):
                return f"{c['cls']}.{op}: improper flag of element {list(ix)} differs between whole-object and single-element result"
        if op == "unit":
            d = np.asarray(obj.data, float)
            nrm = np.sqrt(np.sum(d * d, axis=-1))
            ok = nrm > 0
            got = np.sqrt(np.sum(np.asarray(whole.data, float) ** 2, axis=-1))
            if ok.any() and not np.abs(got[ok] - 1).max() <= 4e-16:
                return (f"{c['cls']}.unit: norms of the result are {got.reshape(-1).tolist()} (norms of the operand "
                        f"{nrm.reshape(-1).tolist()})")
    return None


def elementwise_data(rng, n, dim, family):
    """rows whose norms are (family 'near1') all within 1e-9 … 1e-5 of 1, ('mixed') near 1 and far from 1, ('const') all near
    another common value, ("tiny") down to 1e-140"""
    rows = []
    for j in range(n):
        v = rng.normal(size=dim)
        v /= np.sqrt(np.sum(v * v))
        d = float(rng.choice([1e-9, 1e-8, 1e-7, 1e-6, 3e-6, 9e-6])) * float(rng.choice([-1, 1]))
        if family == "near1":
            s = 1 + d
        elif family == "mixed":
            s = [1 + d, float(rng.choice([0.5, 3.0, 1e-3, 250.0])), 1.0][j % 3]
        elif family == "const":
            s = 7.25 * (1 + d)
        else:
            s = float(rng.choice([1e-140, 1e-30, 1e-8, 1.0, 1e30]))   # squares stay normal numbers
        rows.append([float(x) for x in v * s])
    return rows


PREDICATES = {}  # no open finding for C16 (Miller negation / squeeze were repaired in /repo by 23f0eb7)

SITES = {
    "prog_model": sites.Site("prog_model", "corr", prog_model_check, prog_model_lines),
    "prog_index": sites.Site("prog_index", "prop", prog_index_check),
    "nomut": sites.Site("nomut", "prop", nomut_check),
    "elementwise": sites.Site("elementwise", "prop", elementwise_check),
}


def prog_key(case):
    return ("prog", case["cls"], case["shape"], case["flags"], case["meta"], case["prog"])


def nontrivial(case):
    return int(np.prod(case["shape"])) > 1 and any(op[0] not in ("unit", "neg", "inv") for op in case["prog"])


def generate(ctx):
    rng = ctx.rng
    quick = ctx.tier == "quick"
    n = 8000 if quick else 60000
    for i in range(n):
        cls = CLASSES[i % 6]
        case = rand_case(rng, cls)
        kinds = "+".join(sorted({op[0] for op in case["prog"]}))
        ctx.count(f"prog/{cls}/len{len(case['prog'])}", prog_key(case), nontrivial=nontrivial(case))
        for op in case["prog"]:
            ctx.strata[f"op/{op[0]}"] = ctx.strata.get(f"op/{op[0]}", 0) + 1
        ctx.strata[f"shape/ndim{len(case['shape'])}" + ("/empty" if 0 in case["shape"] else "")] = ctx.strata.get(
            f"shape/ndim{len(case['shape'])}" + ("/empty" if 0 in case["shape"] else ""), 0) + 1
        if i < 4:
            ctx.sample({"site": "prog_model+prog_index", **case})
        yield "prog_model", case
        yield "prog_index", case
    # negative axes: orix reads them against data.ndim (component axis included) -> model-vs-code only
    for i in range(300 if quick else 5000):
        cls = CLASSES[i % 6]
        case = rand_case(rng, cls, neg_axes=True)
        ctx.count(f"prog_negaxes/{cls}", prog_key(case), nontrivial=nontrivial(case))
        yield "prog_model", case
    # every metadata combination, short programs that touch every metadata-carrying operation
    for cls in ("Misorientation", "Orientation", "Miller"):
        for meta in all_metas(cls):
            case = rand_case(rng, cls, shape=[2, 1, 3], meta=meta, nops=int(rng.integers(2, 6)))
            ctx.count(f"meta/{cls}", prog_key(case), nontrivial=nontrivial(case))
            yield "prog_model", case
            yield "prog_index", case
            for op in (["unit"], ["inv"], ["neg"], ["squeeze"], ["flatten"], ["transpose", [2, 0, 1]],
                       ["getitem", {"t": [{"i": 1}]}], ["reshape", [3, 2], "args"]):
                if op[0] == "inv" and cls == "Miller":
                    continue
                c2 = {"cls": cls, "shape": [2, 1, 3], "flags": [bool(rng.integers(2)) for _ in range(6)] if cls in ROT
                      else [], "meta": meta, "prog": [op]}
                ctx.count(f"meta1/{cls}/{op[0]}", prog_key(c2))
                yield "prog_model", c2
                yield "prog_index", c2
    # 1-d transpose, empty objects, size-1 axes: one explicit case per class
    for cls in CLASSES:
        for shape, prog in (([3], [["transpose", None]]), ([3], [["transpose", [0]]]), ([0], [["flatten"], ["squeeze"]]),
                            ([1, 1], [["squeeze"], ["transpose", None]]), ([2, 0, 3], [["transpose", [2, 0, 1]], ["flatten"]]),
                            ([1, 4, 1], [["squeeze"], ["reshape", [2, 2], "tuple"], ["transpose", None]])):
            n0 = int(np.prod(shape))
            c2 = {"cls": cls, "shape": shape, "flags": [bool(rng.integers(2)) for _ in range(n0)] if cls in ROT else [],
                  "meta": rand_meta(rng, cls), "prog": prog}
            ctx.count(f"edge/{cls}", prog_key(c2), nontrivial=n0 > 0)
            yield "prog_model", c2
            yield "prog_index", c2
    # whole object vs element by element (norms all near 1 / mixed / near another constant / tiny)
    for cls in CLASSES:
        dim = 4 if cls in QUAT else 3
        for fam in ("near1", "mixed", "const", "tiny"):
            for rep in range(1 if quick else 6):
                shape = [[3], [2, 2], [1], [2, 1, 2]][(rep + CLASSES.index(cls) + len(fam)) % 4]
                n0 = int(np.prod(shape))
                data = elementwise_data(rng, n0, dim, fam)
                meta = rand_meta(rng, cls)
                flags = [bool(rng.integers(2)) for _ in range(n0)] if cls in ROT else []
                for op in ELEMENTWISE_OPS[cls]:
                    c = {"cls": cls, "shape": shape, "data": data, "flags": flags, "meta": meta, "op": op}
                    ctx.count(f"elementwise/{cls}/{fam}", ("ew", cls, op, data, flags))
                    yield "elementwise", c
    # no-mutation clause
    reps = 2 if quick else 8
    for cls in CLASSES:
        dim = 4 if cls in QUAT else 3
        mem = members(cls)
        ctx.extra.setdefault("nomut_members", {})[cls] = [m for m, _ in mem]
        for rep in range(reps):
            shape = [[4], [2, 3], [1], [3, 1, 2]][(rep + CLASSES.index(cls)) % 4]
            n0 = int(np.prod(shape))
            data = thresh_data(rng, n0, dim)
            # exact special elements: identity / its antipode, coordinate axes, two-fold rotations, the null vector
            special = ([[1.0, 0.0, 0.0, 0.0], [-1.0, 0.0, 0.0, 0.0], [0.0, 0.0, 0.0, 1.0], [0.0, 1.0, 0.0, 0.0]] if dim == 4
                       else [[0.0, 0.0, 1.0], [0.0, 0.0, -1.0], [1.0, 0.0, 0.0], [0.0, 0.0, 0.0]])
            for j in range(min(n0, 1 + rep % 2 + (n0 > 3))):
                data[(j * 2 + rep) % n0] = list(special[(j + rep) % len(special)])
            if cls in ROT:  # keep rows normalisable
                for r in data:
                    if not any(abs(x) > 1e-3 for x in r):
                        r[int(rng.integers(dim))] = 1.0
            meta = rand_meta(rng, cls)
            flags = [bool(rng.integers(2)) for _ in range(n0)] if cls in ROT else []
            for name, kind in mem + [(nm, "args") for nm in ARG_CALLS.get(cls, [])]:
                c = {"cls": cls, "shape": shape, "data": data, "flags": flags, "meta": meta, "member": name,
                     "kind": kind}
                ctx.count(f"nomut/{cls}", ("nomut", cls, name, data, flags, meta))
                if name in ("azimuth", "axis") and rep == 0:
                    ctx.sample({"site": "nomut", **c})
                yield "nomut", c


def run(ctx, status):
    driver_ok = lean_phase(ctx, status, ["OrixProofs.Properties.C16"])
    if ctx.replay:
        site, case, body = sites.load_replay(ctx.replay)
        if site in SITES:
            sites.run_cases(ctx, SITES, [(site, case)], driver_ok)
    else:
        sites.run_cases(ctx, SITES, generate(ctx), driver_ok)
    return common.finish(
        ctx, "proof", PREDICATES,
        rule="seeded programs of 1-6 operations (getitem with ints/slices incl. negative and stepped/tuples/boolean "
             "masks, reshape incl. -1, flatten, transpose incl. 1-d, default and explicit axes, squeeze, stack, unit, "
             "inverse, negation; ~12% end in an invalid operation) over the six classes, 25 shapes incl. size-1 axes and "
             "empty, random improper flags, every metadata combination; elements carry integer tags so placement is "
             "compared exactly; each program runs against the Lean model (prog_model) and against numpy on an index "
             "array (prog_index); no-mutation: every public property / argument-free method / unary operator found by "
             "reflection on threshold-valued data; a program is non-trivial when the object has more than one element "
             "and at least one structural operation; distinct by hash of the whole case",
        assumptions=["numpy's own indexing/reshape/transpose/stack semantics is the reference for 'the same operation on "
                     "an index array' (prog_index) and is what the Lean model is compared with (prog_model)",
                     "the rotation classes renormalise in every constructor call; the tables hold unit quaternions "
                     "that are bitwise fixed points of that normalisation, so comparison stays exact",
                     "keys longer than the number of navigation axes, Ellipsis/None/integer-array keys and 0-d "
                     "reshape targets are outside the model and are not generated",
                     "the no-mutation clause is checked on the implementation (buffer hashes); model functions are "
                     "pure by construction"])
