"""C09 — crystal frame alignment and Miller index conversions are exact linear maps."""
from __future__ import annotations

import itertools
import warnings

import numpy as np

from .. import common, sites
from ..common import f2h, h2f
from ..gen import quat as G
from ..main import lean_phase

EPS = 2.0 ** -52
ROUND_UNIT = 1e-12          # the code rounds the aligned base to 12 decimals
FMTS = ["xyz", "uvw", "UVTW", "hkl", "hkil"]
NIDX = {"xyz": 3, "uvw": 3, "hkl": 3, "UVTW": 4, "hkil": 4}
KERNELS = ["hkl2hkil", "hkil2hkl", "uvw2UVTW", "UVTW2uvw"]   # T-ast names of miller._hkl2hkil etc.
SYSTEMS = ["cubic", "tetragonal", "orthorhombic", "hexagonal", "trigonal", "monoclinic", "triclinic", "neardegenerate"]


def _imp():
    warnings.filterwarnings("ignore")
    from diffpy.structure import Atom, Lattice, Structure
    from diffpy.structure.lattice import LatticeError
    from orix.crystal_map import Phase
    from orix.crystal_map.phase_list import _new_structure_matrix_from_alignment
    from orix.vector import Miller, Vector3d
    from orix.vector import miller as mm
    return Atom, Lattice, Structure, LatticeError, Phase, _new_structure_matrix_from_alignment, Miller, Vector3d, mm


def hexes(xs):
    return " ".join(f2h(x) for x in np.asarray(xs, float).reshape(-1))


def floats(o):
    return [h2f(x) for x in o.split()]


def err_of(exc):
    Atom, Lattice, Structure, LatticeError, *_ = _imp()
    if isinstance(exc, LatticeError):
        return "!err lattice-degenerate" if "degenerate" in str(exc) else "!err lattice-left-handed"
    if isinstance(exc, KeyError):
        return "!err key"
    if isinstance(exc, ValueError):
        return "!err value"
    raise exc


# ---------------- lattice oracles (independent of orix and diffpy) -------------------------------
def std_base(a, b, c, al, be, ga):
    """textbook aligned base: a along e1, b in the e1-e2 plane, c* along e3 (angles in degrees)"""
    ca, cb, cg = (np.cos(np.deg2rad(x)) for x in (al, be, ga))
    sg = np.sin(np.deg2rad(ga))
    vol = np.sqrt(max(1 - ca * ca - cb * cb - cg * cg + 2 * ca * cb * cg, 0.0))
    return np.array([[a, 0, 0], [b * cg, b * sg, 0], [c * cb, c * (ca - cb * cg) / sg, c * vol / sg]], float)


def rotmat(q):
    a, b, c, d = q
    return np.array([[a * a + b * b - c * c - d * d, 2 * (b * c - a * d), 2 * (b * d + a * c)],
                     [2 * (b * c + a * d), a * a - b * b + c * c - d * d, 2 * (c * d - a * b)],
                     [2 * (b * d - a * c), 2 * (c * d + a * b), a * a - b * b - c * c + d * d]], float)


def volume_factor(al, be, ga):
    ca, cb, cg = (np.cos(np.deg2rad(x)) for x in (al, be, ga))
    return 1 - ca * ca - cb * cb - cg * cg + 2 * ca * cb * cg


def gen_params(rng, system):
    L = lambda: float(np.round(10.0 ** rng.uniform(-0.5, 1.5), 4))
    a, b, c = L(), L(), L()
    if system == "cubic":
        return [a, a, a, 90.0, 90.0, 90.0]
    if system == "tetragonal":
        return [a, a, c, 90.0, 90.0, 90.0]
    if system == "orthorhombic":
        return [a, b, c, 90.0, 90.0, 90.0]
    if system == "hexagonal":
        return [a, a, c, 90.0, 90.0, 120.0]
    if system == "trigonal":
        al = float(np.round(rng.uniform(25, 115), 3))
        return [a, a, a, al, al, al]
    if system == "monoclinic":
        return [a, b, c, 90.0, float(np.round(rng.uniform(60, 135), 3)), 90.0]
    for _ in range(1000):
        if system == "neardegenerate":
            al, be = rng.uniform(15, 80), rng.uniform(15, 80)
            ga = al + be - 10.0 ** rng.uniform(-1.0, 0.7)       # nearly coplanar base vectors
            if rng.random() < 0.3:
                al, be, ga = rng.uniform(4, 12), rng.uniform(60, 120), rng.uniform(60, 120)
        else:
            al, be, ga = rng.uniform(40, 140, size=3)
        al, be, ga = (float(np.round(x, 3)) for x in (al, be, ga))
        lo = 1e-5 if system == "neardegenerate" else 0.05
        if volume_factor(al, be, ga) > lo and min(al, be, ga) > 3 and max(al, be, ga) < 177:
            return [a, b, c, al, be, ga]
    return [a, b, c, 80.0, 95.0, 100.0]


def gen_base(rng, system=None):
    """returns dict(params, q, B) with B = std_base(params) rotated by the rotation q (rows rotated)"""
    system = system or SYSTEMS[rng.integers(len(SYSTEMS))]
    p = gen_params(rng, system)
    q, s = G.unit_quat(rng)
    B = std_base(*p) @ rotmat(q).T
    return {"system": system, "params": p, "q": q, "rot": s, "B": [float(x) for x in B.reshape(-1)]}


DIAG = [0.5, 1.0, 2.0, 4.0]


def gen_dyadic(rng):
    """aligned lower-triangular base with dyadic entries (exactly representable, 12-decimal safe), pre-rotated by a
    rational rotation; the aligned base orix stores is then *exactly* L"""
    Lm = np.zeros((3, 3))
    for i in range(3):
        Lm[i, i] = DIAG[rng.integers(len(DIAG))]
        for j in range(i):
            Lm[i, j] = rng.integers(-16, 17) / 8.0
    q, s = G.unit_quat(rng, "pyth" if rng.random() < 0.7 else "identity")
    B = Lm @ rotmat(q).T
    return {"system": "dyadic", "L": [float(x) for x in Lm.reshape(-1)], "q": q, "rot": s,
            "B": [float(x) for x in B.reshape(-1)]}


def cond(B):
    B = np.asarray(B, float).reshape(3, 3)
    return float(np.linalg.cond(B))


_PHASES = {}


def phase_of(B, pg="m-3m"):
    """Phase whose structure carries Lattice(base=B); cached per run"""
    Atom, Lattice, Structure, LatticeError, Phase, *_ = _imp()
    key = (tuple(B), pg)
    if key not in _PHASES:
        if len(_PHASES) > 400:
            _PHASES.clear()
        _PHASES[key] = Phase(point_group=pg, structure=Structure(lattice=Lattice(base=np.array(B).reshape(3, 3))))
    return _PHASES[key]


def gen_indices(rng, n, kind=None):
    """index triplet: integers, reals, axis"""
    kind = kind or ["int", "int", "real", "axis", "dyadic"][rng.integers(5)]
    if kind == "int":
        v = rng.integers(-6, 7, size=n).astype(float)
        if not np.any(v):
            v[0] = 1.0
    elif kind == "axis":
        v = np.zeros(n)
        v[rng.integers(n)] = float(rng.choice([-1, 1]))
    elif kind == "dyadic":
        v = rng.integers(-40, 41, size=n) / 8.0
    else:
        v = rng.normal(size=n) * 10.0 ** rng.integers(-1, 2)
    return [float(x) for x in v], kind


def to4(v3, direct):
    """exact 4-index representation of a 3-index triplet (chosen so that the quartet is on the hyperplane)"""
    u, v, w = v3
    if direct:
        return [(2 * u - v) / 3, (2 * v - u) / 3, -(u + v) / 3, w]
    return [u, v, -(u + v), w]


# ---------------- corr sites -----------------------------------------------------------------------
def ts_lines(c):
    return [f"lat ts {c['sin']} {c['sout']} {hexes(c['B'])} {hexes(c['v'])}"]


def ts_check(ctx, c, outs):
    Atom, Lattice, Structure, LatticeError, Phase, align, Miller, V, mm = _imp()
    B = np.array(c["B"]).reshape(3, 3)
    try:
        lat = Lattice(base=B)
        impl = mm._transform_space(np.array(c["v"]), c["sin"], c["sout"], lat)
    except Exception as e:
        impl = err_of(e)
    model = outs[0]
    if isinstance(impl, str) or model.startswith("!err"):
        return None if impl == model else f"_transform_space {c['sin']}->{c['sout']}: implementation {impl!r}, model {model!r}"
    m = np.array(floats(model))
    if c.get("exact"):
        if [float(x) for x in impl] != [float(x) for x in m]:
            return f"exact case: _transform_space = {impl.tolist()} but model = {m.tolist()}"
        return None
    k = cond(B)
    nB = np.linalg.norm(B, 2)
    scale = {"dc": nB, "cr": nB, "cd": 1 / nB * k, "rc": 1 / nB * k, "dr": nB * nB, "rd": (k / nB) ** 2}.get(
        c["sin"] + c["sout"], 1.0)
    kk = k if c["sin"] + c["sout"] in ("dc", "cr", "cd", "rc") else k * k
    tol = 64 * EPS * kk * scale * max(np.linalg.norm(c["v"]), 1e-300)
    d = float(np.abs(impl - m).max())
    ctx.dev("transform_space_over_bound", d / tol if tol else 0.0)
    if d > tol:
        return (f"_transform_space {c['sin']}->{c['sout']} = {impl.tolist()} but model = {m.tolist()} "
                f"(diff {d:.3g} > {tol:.3g}, cond {k:.3g})")
    return None


def i4_lines(c):
    q = c["q"]
    ls = [f"lat i4 check {hexes(q)}", f"lat i4 hkil2hkl {hexes(q)}", f"lat i4 UVTW2uvw {hexes(q)}",
          f"lat i4 hkl2hkil {hexes(c['v'])}", f"lat i4 uvw2UVTW {hexes(c['v'])}"]
    for k in KERNELS:
        arg = q if k in ("hkil2hkl", "UVTW2uvw") else c["v"]
        ls.append(f"kern g {k} f {hexes(arg)}")
    return ls


def i4_check(ctx, c, outs):
    *_, mm = _imp()
    q, v = np.array(c["q"]), np.array(c["v"])
    res = []
    for fn in (mm._check_hkil, mm._check_UVTW):
        try:
            fn(q)
            ok = "1"
        except ValueError:
            ok = "0"
        if ok != outs[0]:
            res.append(f"{fn.__name__}({q.tolist()}) accepted={ok} but model check={outs[0]}")
    impl = {"_hkil2hkl": mm._hkil2hkl(q), "_UVTW2uvw": mm._UVTW2uvw(q), "_hkl2hkil": mm._hkl2hkil(v),
            "_uvw2UVTW": mm._uvw2UVTW(v)}
    for (name, val), o in zip(impl.items(), outs[1:5]):
        m = floats(o)
        # polynomial / short rational formulas on the same doubles: identical roundings
        if [float(x) for x in val] != m:
            res.append(f"{name} = {val.tolist()} but model = {m}")
    for k, o in zip(KERNELS, outs[5:]):
        if o.startswith("!err unknown"):
            continue
        if floats(o) != [float(x) for x in impl["_" + k]]:
            res.append(f"generated kernel {k} = {floats(o)} but implementation = {impl['_' + k].tolist()}")
    return "; ".join(res) if res else None


def align_lines(c):
    return [f"lat align {hexes(c['B'])}"]


def align_check(ctx, c, outs):
    Atom, Lattice, Structure, LatticeError, Phase, align, Miller, V, mm = _imp()
    B = np.array(c["B"]).reshape(3, 3)
    impl = align(B, x="a", z="c*")
    m = np.array(floats(outs[0])).reshape(2, 3, 3)
    k = cond(B)
    noise = 64 * EPS * k * np.linalg.norm(B, 2)
    d = float(np.abs(impl - m[1]).max())
    ctx.dev("align_rounded_abs", d)
    # both sides round to 12 decimals; rounding noise can move a value across a rounding boundary: one unit
    if d > ROUND_UNIT * (1 + 1e-3) + (noise if noise > 0.5 * ROUND_UNIT else 0):
        return f"_new_structure_matrix_from_alignment = {impl.tolist()} but model (rounded) = {m[1].tolist()}"
    d2 = float(np.abs(impl - m[0]).max())
    if d2 > 0.5 * ROUND_UNIT * (1 + 1e-3) + noise:
        return (f"_new_structure_matrix_from_alignment = {impl.tolist()} deviates from the unrounded model "
                f"{m[0].tolist()} by {d2:.3g}")
    if c.get("L") is not None and not np.array_equal(impl, np.array(c["L"]).reshape(3, 3)):
        return f"dyadic aligned base {c['L']} pre-rotated by a rational rotation came back as {impl.tolist()}"
    if c.get("L") is not None and not np.array_equal(m[1], np.array(c["L"]).reshape(3, 3)):
        return f"model: dyadic aligned base {c['L']} came back as {m[1].tolist()}"
    return None


def phase_lines(c):
    fr = np.array(c["frac"], float).reshape(-1, 3)
    return [f"lat phase {len(fr)} {hexes(c['B'])} {hexes(fr)}", f"lat abc {hexes(c['B'])}"]


def phase_check(ctx, c, outs):
    Atom, Lattice, Structure, LatticeError, Phase, align, Miller, V, mm = _imp()
    B = np.array(c["B"]).reshape(3, 3)
    fr = np.array(c["frac"], float).reshape(-1, 3)
    try:
        lat = Lattice(base=B)
        st = Structure(atoms=[Atom("Al", x) for x in fr], lattice=lat)
        cart_old = np.array(st.xyz_cartn).reshape(-1, 3).copy()
        ph = Phase(structure=st)
        impl = None
    except Exception as e:
        impl = err_of(e)
    if impl is not None or outs[0].startswith("!err"):
        return None if impl == outs[0] else f"Phase(structure) on base {B.tolist()}: implementation {impl!r}, model {outs[0]!r}"
    L2 = ph.structure.lattice
    m = np.array(floats(outs[0]))
    mb, mr, mg, mf = m[:9].reshape(3, 3), m[9:18].reshape(3, 3), m[18:27].reshape(3, 3), m[27:].reshape(-1, 3)
    k = cond(B)
    nB = np.linalg.norm(B, 2)
    noise = 64 * EPS * k * nB
    if np.abs(L2.base - mb).max() > ROUND_UNIT * (1 + 1e-3) + (noise if noise > 0.5 * ROUND_UNIT else 0):
        return f"Phase.structure.lattice.base = {L2.base.tolist()} but model = {mb.tolist()}"
    # recbase/metrics of two bases that may differ by one rounding unit per entry
    tr = (ROUND_UNIT * 3 + 64 * EPS * nB) * k * k / nB ** 2
    if np.abs(L2.recbase - mr).max() > tr:
        return f"lattice.recbase = {L2.recbase.tolist()} but model = {mr.tolist()} (tol {tr:.3g})"
    tg = (ROUND_UNIT * 6 + 64 * EPS * nB) * nB
    if np.abs(L2.metrics - mg).max() > tg:
        return f"lattice.metrics = {L2.metrics.tolist()} but model = {mg.tolist()} (tol {tg:.3g})"
    if len(fr):
        tf = (ROUND_UNIT * 3 + 64 * EPS * nB) * k * k / nB * max(1.0, float(np.abs(fr).max()))
        got = np.array(ph.structure.xyz).reshape(-1, 3)
        if np.abs(got - mf).max() > tf:
            return f"new fractional coordinates {got.tolist()} but model {mf.tolist()} (tol {tf:.3g})"
    abc = np.array(floats(outs[1]))
    impl_abc = np.array(lat.abcABG())
    ta = 64 * EPS * k * k * max(nB, 180.0)
    if np.abs(abc - impl_abc).max() > ta:
        return f"abcABG {impl_abc.tolist()} but model {abc.tolist()}"
    return None


def mil_lines(c):
    cs = np.array(c["coords"], float).reshape(-1, NIDX[c["fin"]])
    Bp = c["Bphase"]
    return [f"lat mil {c['fin']} {fo} {hexes(Bp)} {hexes(x)}" for x in cs for fo in c["fouts"]]


def mil_check(ctx, c, outs):
    Atom, Lattice, Structure, LatticeError, Phase, align, Miller, V, mm = _imp()
    ph = phase_of(c["B"])
    Bp = ph.structure.lattice.base
    if [float(x) for x in Bp.reshape(-1)] != c["Bphase"]:
        return f"phase base changed between generation and check: {Bp.tolist()} vs {c['Bphase']}"
    shape = tuple(c["shape"])
    n = NIDX[c["fin"]]
    cs = np.array(c["coords"], float).reshape(shape + (n,))
    try:
        m = Miller(**{c["fin"]: cs, "phase": ph})
        impl_err = None
    except Exception as e:
        impl_err = err_of(e)
    if impl_err is not None:
        # the implementation checks all rows at once: at least one row must be rejected by the model, the same way
        return None if impl_err in outs else f"Miller({c['fin']}=…) raised {impl_err} but the model answers {outs[:2]}"
    if any(o.startswith("!err") for o in outs):
        return f"Miller({c['fin']}={cs.tolist()}) accepted but model answers {[o for o in outs if o.startswith('!err')][0]}"
    if tuple(m.shape) != (shape or (1,)):      # a single vector is stored with shape (1,) (orix convention)
        return f"Miller shape {tuple(m.shape)} != input shape {shape}"
    if m.coordinate_format != c["fin"]:
        return f"coordinate_format {m.coordinate_format} != {c['fin']}"
    k = cond(Bp)
    nB = np.linalg.norm(Bp, 2)
    flat = cs.reshape(-1, n)
    it = iter(outs)
    length = np.asarray(m.length, float).reshape(-1) if flat.shape[0] else np.zeros(0)
    for r, x in enumerate(flat):
        for fo in c["fouts"]:
            o = floats(next(it))
            mo, ml = np.array(o[:-1]), o[-1]
            got = (m.data if fo == "xyz" else getattr(m, fo)).reshape(-1, NIDX[fo])[r]
            if got.shape != mo.shape:
                return f"{c['fin']}->{fo}: shape {got.shape} vs model {mo.shape}"
            pair = (c["fin"], fo)
            exact = c.get("exact") and pair in (("uvw", "xyz"), ("UVTW", "xyz"), ("uvw", "hkl"), ("UVTW", "hkl"),
                                                 ("xyz", "hkl"), ("xyz", "hkil"), ("uvw", "hkil"), ("xyz", "xyz"))
            if exact:
                if [float(v) for v in got] != [float(v) for v in mo]:
                    return f"exact lattice: Miller({c['fin']}={x.tolist()}).{fo} = {got.tolist()} but model = {mo.tolist()}"
            else:
                mag = max(float(np.abs(got).max()), float(np.abs(mo).max()), 1e-300)
                tol = 256 * EPS * k * k * mag
                d = float(np.abs(got - mo).max())
                ctx.dev("miller_rel_over_cond2", d / (k * k * mag))
                if d > tol:
                    return (f"Miller({c['fin']}={x.tolist()}).{fo} = {got.tolist()} but model = {mo.tolist()} "
                            f"(diff {d:.3g} > {tol:.3g})")
            if abs(length[r] - ml) > 256 * EPS * k * k * max(abs(ml), 1e-300):
                return f"Miller({c['fin']}={x.tolist()}).length = {length[r]} but model = {ml}"
    return None


def op_lines(c):
    return [f"lat {op} {c['f1']} {c['f2']} {c['pg1']} {c['pg2']} {hexes(c['B1p'])} {hexes(c['B2p'])} "
            f"{hexes(c['c1'])} {hexes(c['c2'])}" for op in ("dot", "cross", "angle")]


PGS = ["m-3m", "6/mmm", "1", "mmm"]


def op_check(ctx, c, outs):
    Atom, Lattice, Structure, LatticeError, Phase, align, Miller, V, mm = _imp()
    p1, p2 = phase_of(c["B1"], PGS[c["pg1"]]), phase_of(c["B2"], PGS[c["pg2"]])
    if [float(x) for x in p1.structure.lattice.base.reshape(-1)] != c["B1p"]:
        return "phase base changed between generation and check"
    m1 = Miller(**{c["f1"]: np.array(c["c1"]), "phase": p1})
    m2 = Miller(**{c["f2"]: np.array(c["c2"]), "phase": p2})
    k = max(cond(c["B1p"]), cond(c["B2p"]))
    res = []
    for op, o in zip(("dot", "cross", "angle_with"), outs):
        try:
            val = getattr(m1, op)(m2)
            impl = None
        except Exception as e:
            impl = err_of(e)
        if impl is not None or o.startswith("!err"):
            if impl != o:
                res.append(f"Miller.{op}({c['f1']},{c['f2']}; point groups {c['pg1']},{c['pg2']}): implementation "
                           f"{impl!r}, model {o!r}")
            continue
        if op == "cross":
            toks = o.split()
            if val.coordinate_format != toks[0]:
                res.append(f"cross of {c['f1']} vectors reported as {val.coordinate_format}, model {toks[0]}")
                continue
            mo = np.array([h2f(t) for t in toks[1:]])
            got = np.concatenate([val.data.reshape(-1), val.coordinates.reshape(-1)])
            mag = max(float(np.abs(mo).max()), 1e-300)
            if got.shape != mo.shape or np.abs(got - mo).max() > 256 * EPS * k * k * mag:
                res.append(f"cross = {got.tolist()} but model {mo.tolist()}")
        else:
            mo = floats(o)[0]
            got = float(np.asarray(val).reshape(-1)[0])
            if op == "dot":
                mag = float(np.linalg.norm(m1.data) * np.linalg.norm(m2.data))
                if abs(got - mo) > 64 * EPS * max(mag, 1e-300):
                    res.append(f"dot = {got} but model {mo}")
            else:
                # arccos of a cosine rounded to 10 decimals: a rounding flip moves the angle by <= 1e-10/sin
                if abs(np.cos(got) - np.cos(mo)) > 1.01e-10:
                    res.append(f"angle_with = {got} but model {mo}")
    return "; ".join(res) if res else None


# ---------------- prop sites (implementation only) ------------------------------------------------
def angle_tol_deg(p, extra=0.0):
    """slack for lattice angles after the 12-decimal rounding of the base (see module docstring of the check)"""
    a, b, c, al, be, ga = p
    mn = min(a, b, c)
    s = min(np.sin(np.deg2rad(x)) for x in (al, be, ga))
    return np.rad2deg((8 * ROUND_UNIT / mn + 256 * EPS) / s) + extra


def alignment_check(ctx, c, outs):
    Atom, Lattice, Structure, LatticeError, Phase, align, Miller, V, mm = _imp()
    p = c["params"]
    R = rotmat(c["q"])
    fr = np.array(c["frac"], float).reshape(-1, 3)
    if c["route"] == "baserot":
        lat = Lattice(*p, baserot=R)
    else:
        lat = Lattice(base=np.array(c["B"]).reshape(3, 3))
    old_base = lat.base.copy()
    st = Structure(atoms=[Atom("Fe", x) for x in fr], lattice=lat)
    cart_old = np.array(st.xyz_cartn).reshape(-1, 3).copy()
    ph = Phase(point_group="1", structure=st)
    L2 = ph.structure.lattice
    B2 = L2.base
    vf = np.sqrt(volume_factor(*p[3:]))
    sg = np.sin(np.deg2rad(p[5]))
    k = cond(old_base)
    mx = max(p[:3])
    # a along +e1, b in the e1-e2 plane (<=> c* along e3), right-handed; the zeros are exact after rounding
    slack = ROUND_UNIT + 64 * EPS * mx * k
    if abs(B2[0, 1]) > slack or abs(B2[0, 2]) > slack or B2[0, 0] <= 0:
        return f"a is not along +e1: base[0] = {B2[0].tolist()}"
    if abs(B2[1, 2]) > slack:
        return f"b is not in the e1-e2 plane (c* not along e3): base[1] = {B2[1].tolist()}"
    cstar = L2.recbase[:, 2]
    if abs(cstar[0]) > slack * k / mx ** 2 * 4 or abs(cstar[1]) > slack * k / mx ** 2 * 4 or cstar[2] <= 0:
        return f"c* = {cstar.tolist()} is not along +e3"
    if np.linalg.det(B2) <= 0:
        return f"aligned base is left-handed: det = {np.linalg.det(B2)}"
    if not np.array_equal(lat.base, old_base):
        return "Phase(structure=...) modified the caller's lattice"
    # lattice parameters unchanged (up to the 12-decimal rounding of the base)
    got = np.array(L2.abcABG())
    for i in range(3):
        if abs(got[i] - p[i]) > 4 * ROUND_UNIT + 64 * EPS * k * p[i]:
            return f"cell length {'abc'[i]} changed: {p[i]} -> {got[i]}"
    ta = angle_tol_deg(p, 64 * EPS * k * 180)
    for i in range(3, 6):
        ctx.dev("lattice_angle_change_deg", abs(got[i] - p[i]))
        if abs(got[i] - p[i]) > ta:
            return f"cell angle {['alpha', 'beta', 'gamma'][i - 3]} changed: {p[i]} -> {got[i]} (tol {ta:.3g})"
    # independent oracle: the textbook aligned base
    S = std_base(*p)
    tb = ROUND_UNIT + 256 * EPS * mx * k / min(sg, 1.0)
    if np.abs(B2 - S).max() > tb:
        return f"aligned base {B2.tolist()} differs from the textbook aligned base {S.tolist()} (tol {tb:.3g})"
    # atoms keep their Cartesian positions
    cart_new = np.array(ph.structure.xyz_cartn).reshape(-1, 3)
    if len(fr) and np.abs(cart_new - cart_old).max() > 64 * EPS * k * k * max(1.0, float(np.abs(cart_old).max())):
        return f"atom Cartesian positions changed: {cart_old.tolist()} -> {cart_new.tolist()}"
    # axis properties are the rows of the base / columns of recbase
    for nm, row in (("a_axis", B2[0]), ("b_axis", B2[1]), ("c_axis", B2[2]), ("ar_axis", L2.recbase[:, 0]),
                    ("br_axis", L2.recbase[:, 1]), ("cr_axis", L2.recbase[:, 2])):
        d = getattr(ph, nm).data.reshape(-1)
        if np.abs(d - row).max() > 16 * EPS * max(1.0, float(np.abs(row).max())):
            return f"Phase.{nm} = {d.tolist()} but lattice says {row.tolist()}"
    # a second pass through the setter changes nothing (already aligned)
    ph2 = Phase(point_group="1", structure=ph.structure)
    if np.abs(ph2.structure.lattice.base - B2).max() > ROUND_UNIT * (1 + 1e-3):
        return f"re-aligning an aligned base changed it: {B2.tolist()} -> {ph2.structure.lattice.base.tolist()}"
    return None


def d_spacing(p, hkl):
    """textbook 1/d^2 for a triclinic cell from (a,b,c,alpha,beta,gamma) — independent of any base matrix"""
    a, b, c, al, be, ga = p
    ca, cb, cg = (np.cos(np.deg2rad(x)) for x in (al, be, ga))
    sa, sb, sg = (np.sin(np.deg2rad(x)) for x in (al, be, ga))
    h, k, l = hkl
    V2 = (a * b * c) ** 2 * volume_factor(al, be, ga)
    s = (h * h * b * b * c * c * sa * sa + k * k * a * a * c * c * sb * sb + l * l * a * a * b * b * sg * sg
         + 2 * h * k * a * b * c * c * (ca * cb - cg) + 2 * k * l * a * a * b * c * (cb * cg - ca)
         + 2 * h * l * a * b * b * c * (cg * ca - cb))
    return 1.0 / np.sqrt(s / V2)


def identities_check(ctx, c, outs):
    """duality, uh+vk+wl, |g| = 1/d, cross product — on the implementation, for a lattice given by parameters"""
    Atom, Lattice, Structure, LatticeError, Phase, align, Miller, V, mm = _imp()
    p = c["params"]
    ph = phase_of(c["B"], "1")
    L = ph.structure.lattice
    k = cond(L.base)
    uvw = np.array(c["uvw"], float).reshape(-1, 3)
    hkl = np.array(c["hkl"], float).reshape(-1, 3)
    D = L.base @ L.recbase
    if np.abs(D - np.eye(3)).max() > 64 * EPS * k:
        return f"direct and reciprocal bases are not dual: base·recbase = {D.tolist()}"
    md = Miller(uvw=uvw, phase=ph)
    mr = Miller(hkl=hkl, phase=ph)
    # dot(direct, reciprocal) = uh + vk + wl  (Cartesian data; Miller.dot rejects mixed spaces)
    got = V(md.data).dot(V(mr.data))
    want = np.sum(uvw * hkl, axis=-1)
    mag = np.linalg.norm(md.data, axis=-1) * np.linalg.norm(mr.data, axis=-1)
    if np.any(np.abs(got - want) > 256 * EPS * k * np.maximum(mag, 1e-300)):
        return f"dot(direct, reciprocal) = {got.tolist()} but uh+vk+wl = {want.tolist()} for {uvw.tolist()}, {hkl.tolist()}"
    try:
        md.dot(mr)
        return "Miller.dot accepted operands from different spaces"
    except ValueError:
        pass
    # |g_hkl| = 1/d_hkl with d from the cell parameters
    vfac = np.sqrt(volume_factor(*p[3:]))
    for g, ln in zip(hkl, np.asarray(mr.length).reshape(-1)):
        if not np.any(g):
            continue
        d = d_spacing(p, g)
        tol = (256 * EPS * k * k + 32 * ROUND_UNIT / (min(p[:3]) * vfac ** 2)) * abs(1 / d)
        ctx.dev("recip_length_rel", abs(ln - 1 / d) * d)
        if abs(ln - 1 / d) > tol:
            return f"|g_hkl| = {ln} but 1/d_hkl = {1 / d} for hkl = {g.tolist()}, cell {p} (tol {tol:.3g})"
    # direct length from the metric formula
    a, b, cc, al, be, ga = p
    ca, cb, cg = (np.cos(np.deg2rad(x)) for x in (al, be, ga))
    Gm = np.array([[a * a, a * b * cg, a * cc * cb], [a * b * cg, b * b, b * cc * ca], [a * cc * cb, b * cc * ca, cc * cc]])
    for u, ln in zip(uvw, np.asarray(md.length).reshape(-1)):
        want = np.sqrt(max(u @ Gm @ u, 0.0))
        if abs(ln - want) > (256 * EPS * k + 32 * ROUND_UNIT / min(p[:3])) * max(want, float(np.linalg.norm(u)) * max(p[:3])):
            return f"|t_uvw| = {ln} but sqrt(u·g·u) = {want} for uvw = {u.tolist()}"
    # the length is that of the vector, whatever notation it is read in (uvw / UVTW, hkl / hkil) and however it was given
    for m0, fmts in ((md, ("uvw", "UVTW")), (mr, ("hkl", "hkil"))):
        cart = np.linalg.norm(m0.data, axis=-1).reshape(-1)
        for fmt in fmts:
            for how in ("switched", "constructed"):
                if how == "switched":
                    m1 = m0.deepcopy()
                    m1.coordinate_format = fmt
                else:
                    m1 = Miller(**{fmt: getattr(m0, fmt), "phase": ph})
                l1 = np.asarray(m1.length, float).reshape(-1)
                tol = 256 * EPS * k * k * np.maximum(cart, 1e-300) + 32 * ROUND_UNIT * np.maximum(cart, 1.0)
                if np.any(np.abs(l1 - cart) > tol):
                    j = int(np.argmax(np.abs(l1 - cart) - tol))
                    return (f"length of a vector read as {fmt} ({how}) = {l1[j]} but its Cartesian length is {cart[j]} "
                            f"({fmt} = {np.asarray(getattr(m1, fmt)).reshape(-1, np.asarray(getattr(m1, fmt)).shape[-1])[j].tolist()})")
    # … and of the vector at ITS position when the vectors are arranged in two dimensions
    for m0, fmt in ((md, "uvw"), (mr, "hkl"), (md, "UVTW"), (mr, "hkil")):
        cs = np.asarray(getattr(m0, fmt), float)
        nn = (len(cs) // 2) * 2
        if nn >= 4:
            m2 = Miller(**{fmt: cs[:nn].reshape(2, nn // 2, cs.shape[-1]), "phase": ph})
            l2 = np.asarray(m2.length, float)
            want = np.linalg.norm(m0.data.reshape(-1, 3)[:nn], axis=-1).reshape(2, nn // 2)
            if l2.shape != want.shape or np.any(np.abs(l2 - want) > 256 * EPS * k * k * np.maximum(want, 1e-300) + 32 * ROUND_UNIT * np.maximum(want, 1.0)):
                return (f"lengths of {fmt} vectors arranged as (2, {nn // 2}) are {l2.tolist()} but their Cartesian lengths are "
                        f"{want.tolist()}")
    # cross products: perpendicular to both, reported in the dual space with coordinates V·(u × v) resp. (g × h)/V
    vol = a * b * cc * vfac
    for (A, B_, fmt, dual, fac) in ((uvw[:-1], uvw[1:], "uvw", "hkl", vol), (hkl[:-1], hkl[1:], "hkl", "uvw", 1 / vol)):
        if len(A) == 0:
            continue
        m1 = Miller(**{fmt: A, "phase": ph})
        m2 = Miller(**{fmt: B_, "phase": ph})
        cr = m1.cross(m2)
        if cr.coordinate_format != dual:
            return f"cross of two {fmt} vectors is reported as {cr.coordinate_format}, not in the dual space ({dual})"
        n1, n2 = np.linalg.norm(m1.data, axis=-1), np.linalg.norm(m2.data, axis=-1)
        for other in (m1, m2):
            dd = np.sum(cr.data * other.data, axis=-1)
            if np.any(np.abs(dd) > 256 * EPS * k * n1 * n2 * np.linalg.norm(other.data, axis=-1) + 1e-300):
                return f"cross product not perpendicular to its factors: {dd.tolist()}"
        want = fac * np.cross(A, B_)
        got = cr.coordinates
        scale = abs(fac) * np.linalg.norm(A, axis=-1) * np.linalg.norm(B_, axis=-1)
        rel = 1024 * EPS * k * k + 64 * ROUND_UNIT / (min(p[:3]) * vfac ** 2)
        if np.any(np.abs(got - want).max(axis=-1) > rel * np.maximum(scale, 1e-300) * k):
            return (f"cross of {fmt} {A.tolist()} x {B_.tolist()} has {dual} coordinates {got.tolist()}, expected "
                    f"{want.tolist()} (volume {vol})")
    return None


def reuse_check(ctx, c, outs):
    """coordinates read from ONE Miller object before and after its phase / the phase's lattice is replaced agree with
    a freshly constructed object holding the same Cartesian data and the final phase"""
    Atom, Lattice, Structure, LatticeError, Phase, align, Miller, V, mm = _imp()
    ph = Phase(point_group="1", structure=Structure(lattice=Lattice(base=np.array(c["B"]).reshape(3, 3))))
    m = Miller(**{c["fmt"]: np.array(c["v"], float).reshape(tuple(c["shape"]) + (3,)), "phase": ph})
    reads = ("uvw", "hkl", "UVTW", "hkil", "length", "coordinates")
    for nm in reads:
        getattr(m, nm)
    new_struct = Structure(lattice=Lattice(base=np.array(c["B2"]).reshape(3, 3)))
    if c["edit"] == "structure":
        m.phase.structure = new_struct
    elif c["edit"] == "phase":
        m.phase = Phase(point_group="1", structure=new_struct)
    else:
        m.phase.structure.lattice.setLatBase(np.array(c["B2"]).reshape(3, 3))
    # the lattice vectors a phase hands out (a_axis … cr_axis) are values: editing them through the public setters leaves
    # the lattice of the phase as it was
    L = m.phase.structure.lattice
    base0, rec0, par0 = np.array(L.base, copy=True), np.array(L.recbase, copy=True), tuple(L.abcABG())
    for j, nm in enumerate(("a_axis", "b_axis", "c_axis", "ar_axis", "br_axis", "cr_axis")):
        t = getattr(m.phase, nm)
        want = base0[j] if j < 3 else rec0[:, j - 3]
        if np.abs(np.asarray(t.data, float).reshape(3) - want).max() > 1e-12 * max(1.0, float(np.abs(want).max())):
            return f"phase.{nm} = {np.asarray(t.data).reshape(3).tolist()} but the lattice has {want.tolist()}"
        if j < 3:
            t.uvw = [[1.0, 1.0, 0.0]]
        else:
            t.hkl = [[0.0, 1.0, 1.0]]
    if not (np.array_equal(L.base, base0) and np.array_equal(L.recbase, rec0) and tuple(L.abcABG()) == par0):
        return (f"editing the vectors returned by phase.a_axis … cr_axis changed the lattice of the phase: base {base0.tolist()} -> "
                f"{np.asarray(L.base).tolist()}")
    fresh = Miller(xyz=np.array(m.data, copy=True), phase=m.phase.deepcopy())
    fresh.coordinate_format = m.coordinate_format
    k = cond(fresh.phase.structure.lattice.base)
    for nm in reads:
        a, b = np.asarray(getattr(m, nm), float), np.asarray(getattr(fresh, nm), float)
        if a.shape != b.shape or np.any(np.abs(a - b) > 1e-9 * k * np.maximum(1.0, np.abs(b))):
            return (f".{nm} after the in-place edit '{c['edit']}' of the phase is {a.reshape(-1)[:6].tolist()} but a freshly "
                    f"constructed Miller with the same Cartesian data and phase gives {b.reshape(-1)[:6].tolist()}")
    return None


def roundtrip_check(ctx, c, outs):
    """every format converts to every other and back without change; shapes are kept"""
    Atom, Lattice, Structure, LatticeError, Phase, align, Miller, V, mm = _imp()
    ph = phase_of(c["B"], "1")
    L = ph.structure.lattice
    k = cond(L.base)
    shape = tuple(c["shape"])
    f1 = c["fin"]
    cs = np.array(c["coords"], float).reshape(shape + (NIDX[f1],))
    m = Miller(**{f1: common.relayout(cs, c["coords"]), "phase": ph})
    shape = shape or (1,)                      # a single vector is stored with shape (1,) (orix convention)
    cs = cs.reshape(shape + (NIDX[f1],))
    if tuple(m.shape) != shape:
        return f"Miller({f1}=array of shape {cs.shape}).shape = {tuple(m.shape)}"
    back = m.data if f1 == "xyz" else getattr(m, f1)
    if back.shape != cs.shape:
        return f".{f1} has shape {back.shape}, input had {cs.shape}"
    nrm = np.abs(cs).max() if cs.size else 1.0
    tol = 256 * EPS * k * max(nrm, 1e-300)
    if cs.size and np.abs(back - cs).max() > tol:
        return f"Miller({f1}=c).{f1} != c: {back.tolist()} vs {cs.tolist()} (tol {tol:.3g})"
    if np.array_equal(m.coordinates, back) is False:
        return f".coordinates differs from .{f1}"
    for f2 in FMTS:
        if f2 == f1:
            continue
        mid = m.data if f2 == "xyz" else getattr(m, f2)
        if mid.shape != shape + (NIDX[f2],):
            return f".{f2} has shape {mid.shape} for vectors of shape {shape}"
        if NIDX[f2] == 4 and mid.size and np.abs(mid[..., :3].sum(axis=-1)).max() > 64 * EPS * max(np.abs(mid).max(), 1e-300):
            return f".{f2} is off the hyperplane: {mid.tolist()}"
        m2 = Miller(**{f2: mid, "phase": ph})
        back = m2.data if f1 == "xyz" else getattr(m2, f1)
        if cs.size and np.abs(back - cs).max() > tol * k:
            return (f"{f1} -> {f2} -> {f1} changed the coordinates: {cs.tolist()} -> {mid.tolist()} -> {back.tolist()} "
                    f"(tol {tol * k:.3g}, cond {k:.3g})")
        # setter route
        m3 = Miller(xyz=np.zeros(shape + (3,)), phase=ph)
        if f2 != "xyz":
            setattr(m3, f2, mid)
            if cs.size and np.abs(m3.data - m.data).max() > 256 * EPS * k * k * max(np.abs(m.data).max(), 1e-300):
                return f"setting .{f2} = {mid.tolist()} gives data {m3.data.tolist()}, expected {m.data.tolist()}"
    return None


def reject_check(ctx, c, outs):
    """quartets off the hyperplane are rejected; unknown spaces are rejected"""
    Atom, Lattice, Structure, LatticeError, Phase, align, Miller, V, mm = _imp()
    ph = phase_of(c["B"], "1")
    q = np.array(c["q"], float)
    off = abs(q[:3].sum())
    for f in ("UVTW", "hkil"):
        try:
            Miller(**{f: q, "phase": ph})
            acc = True
        except ValueError:
            acc = False
        if off > 1.001e-4 and acc:
            return f"Miller({f}={q.tolist()}) accepted although the first three indices sum to {q[:3].sum()}"
        if off < 0.999e-4 and not acc:
            return f"Miller({f}={q.tolist()}) rejected although the first three indices sum to {q[:3].sum()}"
    try:
        mm._transform_space(np.ones(3), "x", "d", ph.structure.lattice)
        return "_transform_space accepted an unknown space"
    except ValueError:
        pass
    return None


SITES = {
    "transform_space": sites.Site("transform_space", "corr", ts_check, ts_lines),
    "four_index": sites.Site("four_index", "corr", i4_check, i4_lines),
    "align_matrix": sites.Site("align_matrix", "corr", align_check, align_lines),
    "phase_structure": sites.Site("phase_structure", "corr", phase_check, phase_lines),
    "miller_coords": sites.Site("miller_coords", "corr", mil_check, mil_lines),
    "miller_ops": sites.Site("miller_ops", "corr", op_check, op_lines),
    "alignment": sites.Site("alignment", "prop", alignment_check),
    "identities": sites.Site("identities", "prop", identities_check),
    "roundtrip": sites.Site("roundtrip", "prop", roundtrip_check),
    "reject": sites.Site("reject", "prop", reject_check),
    "reuse": sites.Site("reuse", "prop", reuse_check),
}
PREDICATES = {}


def _phase_base(B, pg="m-3m"):
    """base of the phase built from Lattice(base=B); if the implementation cannot build it the sites that use it
    re-raise inside their check (reported as a disagreement, not as a crash of the generator)"""
    try:
        return [float(x) for x in phase_of(B, pg).structure.lattice.base.reshape(-1)]
    except Exception:
        return [float(x) for x in B]


def generate(ctx):
    rng = ctx.rng
    quick = ctx.tier == "quick"
    n_lat = 9 if quick else 60          # lattices per system
    # -- 4-index helpers (exact) --------------------------------------------------------------------
    for k in range(60 if quick else 1500):
        v, kind = gen_indices(rng, 3)
        direct = bool(k % 2)
        q = to4(v, direct)
        stratum = "on-plane"
        r = k % 6
        if r == 3:
            q[2] += float(rng.choice([-1, 1])) * 10.0 ** rng.uniform(-7, -4.05)   # inside the 1e-4 tolerance
            stratum = "inside-tolerance"
        elif r == 4:
            q[2] += float(rng.choice([-1, 1])) * 10.0 ** rng.uniform(-3.95, 0.5)    # clearly off
            stratum = "off-plane"
        c = {"q": [float(x) for x in q], "v": v}
        ctx.count(f"four_index/{stratum}/{kind}", ("i4", c["q"], v), nontrivial=any(v))
        ctx.sample({"site": "four_index", **c})
        yield "four_index", c
    # -- lattices --------------------------------------------------------------------------------------
    lattices = []
    for system in SYSTEMS:
        for _ in range(n_lat):
            lattices.append(gen_base(rng, system))
    for _ in range(3 * n_lat):
        lattices.append(gen_dyadic(rng))
    # fixed strata (every run): the standard base turned by an exact half turn about e1, e2, e3 and by a quarter turn about
    # e3 - such a base is still triangular / has zeros in the places an "already aligned?" shortcut would look at
    for system in ("triclinic", "hexagonal", "monoclinic"):
        if system not in SYSTEMS:
            continue
        for q in ([0.0, 1.0, 0.0, 0.0], [0.0, 0.0, 1.0, 0.0], [0.0, 0.0, 0.0, 1.0], [float(np.sqrt(0.5)), 0.0, 0.0, float(np.sqrt(0.5))]):
            p = gen_params(rng, system)
            B = std_base(*p) @ rotmat(q).T
            lattices.append({"system": system, "params": p, "q": q, "rot": "half-turn-axis", "B": [float(x) for x in B.reshape(-1)]})
    for li in range(0, len(lattices) - 1, 3):
        shape = [(1,), (3,), (2, 2)][li % 3]
        n = int(np.prod(shape))
        c = {"B": lattices[li]["B"], "B2": lattices[li + 1]["B"], "fmt": ["uvw", "hkl"][li % 2], "shape": list(shape),
             "v": [[float(x) for x in rng.integers(-4, 5, size=3)] for _ in range(n)],
             "edit": ["structure", "phase", "lattice_inplace"][(li // 3) % 3]}
        ctx.count(f"reuse/{c['edit']}", ("ru", c["B"], c["B2"], c["edit"]), nontrivial=True)
        yield "reuse", c
    for li, lat in enumerate(lattices):
        B = lat["B"]
        dy = lat["system"] == "dyadic"
        tag = f"{lat['system']}/{'rotated' if lat['rot'] != 'identity' else 'unrotated'}"
        # alignment matrix + phase structure (model vs implementation)
        c = {"B": B, "L": lat.get("L")}
        ctx.count(f"align_matrix/{tag}", ("al", B), nontrivial=lat["rot"] != "identity")
        yield "align_matrix", c
        nat = int(rng.integers(0, 4))
        frac = [[float(x) for x in rng.integers(0, 8, size=3) / 8.0] if dy else [float(x) for x in rng.uniform(0, 1, 3)]
                for _ in range(nat)]
        ctx.count(f"phase_structure/{tag}/atoms{min(nat, 1)}", ("ps", B, frac))
        yield "phase_structure", {"B": B, "frac": frac}
        if not dy:
            route = "baserot" if li % 2 and lat["rot"] != "half-turn-axis" else "base"
            c = {"params": lat["params"], "q": lat["q"], "B": B, "route": route, "frac": frac}
            ctx.count(f"alignment/{tag}/{route}", ("ali", lat["params"], lat["q"]), nontrivial=lat["rot"] != "identity")
            ctx.sample({"site": "alignment", **c})
            yield "alignment", c
        # transform_space on the lattice as given (no alignment involved)
        for sin, sout in itertools.product("drc", "drc"):
            v, kind = gen_indices(rng, 3, "dyadic" if dy else None)
            Bt = lat["L"] if dy else B
            exact = bool(dy and sin + sout in ("dc", "cr", "dd", "rr", "cc"))
            c = {"B": Bt, "sin": sin, "sout": sout, "v": v, "exact": exact}
            ctx.count(f"transform_space/{sin}{sout}/{'exact' if exact else 'float'}", ("ts", Bt, sin, sout, v))
            yield "transform_space", c
        # Miller objects on the phase built from this lattice
        Bp = _phase_base(B)
        for fin in FMTS:
            shape = G.shape(rng, allow_empty=False, allow_scalar=True) if li % 3 else ()
            nvec = int(np.prod(shape)) if shape else 1
            rows = []
            kinds = set()
            for _ in range(nvec):
                v, kind = gen_indices(rng, 3, "dyadic" if (dy and rng.random() < 0.7) else None)
                kinds.add(kind)
                rows.append(to4(v, fin == "UVTW") if NIDX[fin] == 4 else v)
            if dy and fin == "UVTW":
                rows = [[float(x) for x in np.round(np.array(r) * 3)] for r in rows]      # integer quartets
                rows = [[r[0], r[1], -(r[0] + r[1]), r[3]] for r in rows]
            exact = bool(dy and kinds <= {"int", "axis", "dyadic"})
            c = {"B": B, "Bphase": Bp, "fin": fin, "fouts": FMTS, "shape": list(shape), "coords": rows, "exact": exact}
            ctx.count(f"miller_coords/{fin}/ndim{len(shape)}/{'exact' if exact else 'float'}", ("mc", Bp, fin, rows))
            if li < 3:
                ctx.sample({"site": "miller_coords", **{k: v for k, v in c.items() if k != "fouts"}}, cap=8)
            yield "miller_coords", c
            c2 = {"B": B, "fin": fin, "shape": list(shape), "coords": rows}
            ctx.count(f"roundtrip/{fin}/{lat['system']}", ("rt", Bp, fin, rows))
            yield "roundtrip", c2
        if not dy:
            nv = int(rng.integers(2, 5))
            c = {"params": lat["params"], "B": B,
                 "uvw": [gen_indices(rng, 3)[0] for _ in range(nv)], "hkl": [gen_indices(rng, 3)[0] for _ in range(nv)]}
            ctx.count(f"identities/{lat['system']}", ("id", lat["params"], c["uvw"], c["hkl"]))
            ctx.sample({"site": "identities", **c}, cap=8)
            yield "identities", c
        # dot / cross / angle_with with guards
        for _ in range(2):
            f1, f2 = FMTS[rng.integers(5)], FMTS[rng.integers(5)]
            if rng.random() < 0.5:
                f2 = f1
            pg1 = int(rng.integers(len(PGS)))
            pg2 = pg1 if rng.random() < 0.8 else int(rng.integers(len(PGS)))
            other = lattices[rng.integers(len(lattices))] if rng.random() < 0.2 else lat
            v1, v2 = gen_indices(rng, 3)[0], gen_indices(rng, 3)[0]
            c1 = to4(v1, f1 == "UVTW") if NIDX[f1] == 4 else v1
            c2_ = to4(v2, f2 == "UVTW") if NIDX[f2] == 4 else v2
            c = {"B1": B, "B2": other["B"], "B1p": _phase_base(B, PGS[pg1]), "B2p": _phase_base(other["B"], PGS[pg2]),
                 "f1": f1, "f2": f2, "pg1": pg1, "pg2": pg2, "c1": c1, "c2": c2_}
            same = f1 == f2 and pg1 == pg2 and other is lat
            ctx.count(f"miller_ops/{'same' if same else 'mixed'}/{f1}", ("op", c["B1p"], c["B2p"], f1, f2, pg1, pg2, c1, c2_))
            yield "miller_ops", c
        q4 = to4(gen_indices(rng, 3)[0], bool(li % 2))
        q4[int(rng.integers(3))] += float(rng.choice([-1, 1])) * 10.0 ** rng.uniform(-6, 0)
        ctx.count("reject/four-index", ("rj", q4))
        yield "reject", {"B": B, "q": [float(x) for x in q4]}
    # -- guards of the lattice constructor: left-handed, degenerate, huge cells -------------------
    for B, tag in (([1, 0, 0, 0, 1, 0, 0, 0, -1], "left-handed"), ([1, 0, 0, 2, 0, 0, 0, 0, 1], "degenerate"),
                   ([1e-3, 0, 0, 0, 1e-3, 0, 0, 0, 1e-3], "tiny-volume"), ([500.0, 0, 0, 0, 500.0, 0, 0, 0, 500.0], "huge-volume")):
        for sin, sout in (("d", "c"), ("r", "d"), ("d", "r")):
            c = {"B": [float(x) for x in B], "sin": sin, "sout": sout, "v": [1.0, 2.0, 3.0]}
            ctx.count(f"transform_space/guard/{tag}", ("tsg", B, sin, sout))
            yield "transform_space", c
    yield "transform_space", {"B": [1.0, 0, 0, 0, 1.0, 0, 0, 0, 1.0], "sin": "x", "sout": "d", "v": [1.0, 0.0, 0.0]}
    ctx.count("transform_space/guard/unknown-space", ("tsx",))


def run(ctx, status):
    driver_ok = lean_phase(ctx, status, ["OrixProofs.Properties.C09"], kernels=KERNELS)
    if ctx.replay:
        site, case, body = sites.load_replay(ctx.replay)
        if site in SITES:
            sites.run_cases(ctx, SITES, [(site, case)], driver_ok)
    else:
        sites.run_cases(ctx, SITES, generate(ctx), driver_ok)
    return common.finish(
        ctx, "proof", PREDICATES,
        rule="seeded stratified generation: 8 lattice strata (7 crystal systems + near-degenerate triclinic) with "
             "random lengths 0.3-30 and a pre-rotation of the base (Haar, near 0/pi, axis, rational, identity), plus "
             "dyadic aligned bases pre-rotated by rational rotations (exact comparison); indices integer / axis / "
             "dyadic / real; all five formats and all format pairs; shapes incl. scalar and 3-d; guards (off-plane "
             "quartets, mixed spaces / lattices / point groups, left-handed, degenerate and huge cells); a case is "
             "distinct by the hash of its canonical input",
        assumptions=["numpy.linalg.inv and diffpy.structure.Lattice (base, recbase, metrics, guards) are modelled by "
                     "their contracts and exercised by the correspondence check, not verified",
                     "floating-point rounding is outside the theorems; the 12-decimal rounding of the aligned base is "
                     "modelled (roundDec 12) and its effect bounded by a theorem (5e-13 per entry)",
                     "tolerances: 64-256·eps·cond(B)^k·scale (k = 1 for base/recbase maps, 2 for metric maps) plus one "
                     "rounding unit (1e-12) where the rounded base enters"])
