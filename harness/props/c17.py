"""C17 — unique() returns a duplicate-free cover with valid index maps.

Sites
  uniq_model (corr)  Lean model (`uniq` driver op: the code-shaped `baseUnique` / `rotUnique` of OrixModel/Unique.lean)
                     vs orix on the same rows: returned elements, idx, inv, tuple structure — exact `==`
                     (keys are the integers rint(x·10^d); dyadic inputs are additionally run through the exact
                     Int path of the model)
  uniq_prop  (prop)  the property's clauses evaluated on orix alone (no duplicates, cover, first-appearance order,
                     zero rows dropped, idx selects, inv reconstructs)

A case: {cls, shape, rows (floats, C order of the object's elements), flags, opts, [scale k for dyadic rows]}.
"""
from __future__ import annotations

import numpy as np

from .. import common, sites
from ..common import f2h
from ..main import lean_phase

BASE = ("Quaternion", "Vector3d", "Miller")
ROT = ("Rotation", "Misorientation", "Orientation")
CLASSES = BASE + ROT
HURWITZ = [[s if j == i else 0.0 for j in range(4)] for i in range(4) for s in (1.0, -1.0)] + \
          [[a, b, c, d] for a in (0.5, -0.5) for b in (0.5, -0.5) for c in (0.5, -0.5) for d in (0.5, -0.5)]


def _imp():
    from orix.quaternion import Quaternion, Rotation, Orientation, Misorientation
    from orix.vector import Vector3d, Miller
    return {"Quaternion": Quaternion, "Rotation": Rotation, "Misorientation": Misorientation,
            "Orientation": Orientation, "Vector3d": Vector3d, "Miller": Miller}


_PH = {}


def phase():
    if "p" not in _PH:
        from diffpy.structure import Lattice, Structure
        from orix.crystal_map import Phase
        _PH["p"] = Phase(name="cubic", point_group="m-3m", structure=Structure(lattice=Lattice(1, 1, 1, 90, 90, 90)))
    return _PH["p"]


def build(c):
    C = _imp()
    cls = c["cls"]
    dim = 3 if cls in ("Vector3d", "Miller") else 4
    data = common.relayout(np.array(c["rows"], dtype=float).reshape(tuple(c["shape"]) + (dim,)), c["rows"])
    if cls == "Miller":
        o = C[cls](xyz=data, phase=phase())
    elif cls == "Misorientation":
        from orix.quaternion import symmetry
        o = C[cls](data, symmetry=(symmetry.C2, symmetry.D3))
    elif cls == "Orientation":
        from orix.quaternion import symmetry
        o = C[cls](data, symmetry=symmetry.O)
    else:
        o = C[cls](data)
    if cls in ROT:
        o.improper = np.array(c["flags"], dtype=bool).reshape(tuple(c["shape"]))
    return o


def flat_rows(obj):
    """rows of the object in the order orix calls 'flattened' (first axis fastest), computed by numpy alone"""
    d = obj.data
    return np.stack([d[..., k].flatten(order="F") for k in range(d.shape[-1])], axis=-1).reshape(-1, d.shape[-1])


def flat_flags(obj):
    return obj.improper.flatten(order="F")


def call_unique(obj, c):
    o = c["opts"]
    if c["cls"] == "Miller":
        return obj.unique(return_index=o["return_index"])
    if c["cls"] in ROT:
        return obj.unique(return_index=o["return_index"], return_inverse=o["return_inverse"], antipodal=o["antipodal"])
    return obj.unique(return_index=o["return_index"], return_inverse=o["return_inverse"])


def unpack(res, c):
    """(object, idx | None, inv | None, structure error | None) according to the requested options"""
    o = c["opts"]
    want_idx = o["return_index"]
    want_inv = o["return_inverse"] and c["cls"] != "Miller"
    n = 1 + int(want_idx) + int(want_inv)
    if n == 1:
        if isinstance(res, tuple):
            return None, None, None, f"a tuple of {len(res)} was returned although no index array was requested"
        return res, None, None, None
    if not isinstance(res, tuple) or len(res) != n:
        got = f"a tuple of {len(res)}" if isinstance(res, tuple) else f"a bare {type(res).__name__}"
        return (res if not isinstance(res, tuple) else res[0]), None, None, \
            f"{n - 1} index array(s) requested but unique() returned {got}"
    idx = res[1] if want_idx else None
    inv = res[-1] if want_inv else None
    return res[0], idx, inv, None


# ---------------- corr -------------------------------------------------------------------
def variant(c):
    if c["cls"] in BASE:
        return "base"
    return "rotA" if c["opts"]["antipodal"] else "rotN"


def uniq_model_lines(c):
    obj = build(c)
    rows = flat_rows(obj)
    v = variant(c)
    if c["cls"] in ROT:
        fl = flat_flags(obj)
        vals = " ".join(" ".join(f2h(x) for x in r) + " " + f2h(1.0 if f else 0.0) for r, f in zip(rows, fl))
        nc = 5
    else:
        vals = " ".join(" ".join(f2h(x) for x in r) for r in rows)
        nc = rows.shape[1]
    lines = [f"uniq {v} f {nc} {vals}".rstrip()]
    if v == "base":  # the specification: accepted as well, so that a repair of idx / inv keeps this site green
        lines.append(f"uniq spec f {nc} {vals}".rstrip())
    if "scale" in c:  # dyadic rows: the exact Int path of the model must say the same
        k = c["scale"]
        ints = np.round(rows * 2.0 ** k).astype(int)
        if c["cls"] in ROT:
            vals = " ".join(" ".join(str(int(x)) for x in r) + " " + ("1" if f else "0") for r, f in zip(ints, flat_flags(obj)))
        else:
            vals = " ".join(" ".join(str(int(x)) for x in r) for r in ints)
        lines.append(f"uniq {v} i {nc} {vals}".rstrip())
    return lines


def parse_result(s):
    rows, idx, inv = s.split()
    rows = [] if rows == "-" else [[int(x) for x in r.split(",")] for r in rows.split("|")]
    idx = [] if idx == "-" else [int(x) for x in idx.split(",")]
    inv = [] if inv == "-" else [int(x) for x in inv.split(",")]
    return rows, idx, inv


def uniq_model_check(ctx, c, outs):
    obj = build(c)
    rows = flat_rows(obj)
    if any(o.startswith("!err") for o in outs):
        return f"model answered {outs}"
    m = parse_result(outs[0])
    spec = None
    if c["cls"] in BASE:
        spec = parse_result(outs[1])
        outs = [outs[0]] + list(outs[2:])
    if len(outs) > 1:
        m2 = parse_result(outs[1])
        if (m[1], m[2], len(m[0])) != (m2[1], m2[2], len(m2[0])):
            return f"model float path {outs[0]} disagrees with its exact Int path {outs[1]} on dyadic input"
    res = call_unique(obj, c)
    u, idx, inv, serr = unpack(res, c)
    if serr:
        return "structure: " + serr
    r = compare_unique(c, rows, obj, u, idx, inv, m)
    if r is not None and spec is not None and spec != m:
        if compare_unique(c, rows, obj, u, idx, inv, spec) is None:
            ctx.note("orix agrees with the specification (uniqueSpec) where the code-shaped model differs: "
                     "a known finding seems repaired")
            return None
    return r


def compare_unique(c, rows, obj, u, idx, inv, m):
    mrows, midx, minv = m
    if c["cls"] in BASE:
        want = np.array(mrows, dtype=float).reshape(-1, rows.shape[1]) / 1e10
        got = u.data.reshape(-1, rows.shape[1])
        if got.shape != want.shape or not np.array_equal(got, want):
            return f"returned elements {got.tolist()} but model {want.tolist()}"
    else:
        want = rows[midx] if len(midx) else rows[:0]
        got = u.data.reshape(-1, 4)
        # R[idx_sort] goes through the Rotation constructor, which renormalises: allow its rounding (a few ulp)
        if got.shape != want.shape or (got.size and np.abs(got - want).max() > RENORM_TOL):
            return f"returned elements {got.tolist()} but model selects input rows {midx}: {want.tolist()}"
        wf = flat_flags(obj)[midx] if len(midx) else np.zeros(0, bool)
        if not np.array_equal(u.improper.reshape(-1), wf):
            return f"returned improper flags {u.improper.reshape(-1).tolist()} but model {wf.tolist()}"
    if u.ndim != 1:
        return f"returned object has shape {u.shape}"
    if idx is not None and [int(x) for x in idx] != midx:
        return f"idx {[int(x) for x in idx]} but model {midx}"
    if inv is not None and [int(x) for x in np.asarray(inv).reshape(-1)] != minv:
        return f"inv {[int(x) for x in np.asarray(inv).reshape(-1)]} but model {minv}"
    return None


# ---------------- prop -------------------------------------------------------------------
RENORM_TOL = 1e-15 * 4  # unit quaternions renormalised once more by the constructor
MERGE_TOL = 3e-10   # elements identified by unique() must be this close (up to sign when antipodal)
ZERO_TOL = 1e-8


def same_elem(cls, opts, a, fa, b, fb, tol):
    if cls in ROT:
        if bool(fa) != bool(fb):
            return False
        d = np.abs(a - b).max()
        if opts["antipodal"]:
            d = min(d, np.abs(a + b).max())
        return d <= tol
    return np.abs(a - b).max() <= tol


def uniq_prop_check(ctx, c, outs):
    cls, opts = c["cls"], c["opts"]
    obj = build(c)
    rows = flat_rows(obj)
    flags = flat_flags(obj) if cls in ROT else np.zeros(len(rows), bool)
    res = call_unique(obj, c)
    u, idx, inv, serr = unpack(res, c)
    if serr:
        return "structure: " + serr
    # 0. the result is an object of the same kind: same class and the same symmetry / phase (an orientation is only "one
    # of the input elements" together with the symmetry it is an orientation of)
    if type(u) is not type(obj):
        return f"kind: unique() of a {type(obj).__name__} returned a {type(u).__name__}"
    # (an empty input has no element whose meaning could change: orix returns the default symmetry there, not checked)
    if cls in ("Orientation", "Misorientation") and obj.size:
        s_in = obj.symmetry if isinstance(obj.symmetry, tuple) else (obj.symmetry,)
        s_out = u.symmetry if isinstance(u.symmetry, tuple) else (u.symmetry,)
        if len(s_in) != len(s_out) or any(a.name != b.name or a.size != b.size or not np.allclose(a.data, b.data)
                                           for a, b in zip(s_in, s_out)):
            return (f"kind: unique() of a {cls} with symmetry {[a.name for a in s_in]} returned elements with symmetry "
                    f"{[b.name for b in s_out]}")
    if cls == "Miller" and obj.size:
        if u.phase.point_group.name != obj.phase.point_group.name or \
                not np.allclose(u.phase.structure.lattice.base, obj.phase.structure.lattice.base):
            return "kind: unique() of a Miller returned vectors with another phase (point group / lattice)"
    out = u.data.reshape(-1, rows.shape[1])
    oflags = u.improper.reshape(-1) if cls in ROT else np.zeros(len(out), bool)
    dropped = np.array([cls in BASE and bool(np.all(np.abs(r) <= ZERO_TOL)) for r in rows], bool)
    kept = np.flatnonzero(~dropped)
    # how the run exercised the thresholds: near pairs (closer than 2e-10, not identical) merged vs kept apart
    if c.get("stratum") == "threshold" and len(rows) <= 12:
        near = sum(1 for i in kept for j in kept if i < j and not same_elem(cls, opts, rows[i], flags[i], rows[j], flags[j], 0.0)
                   and same_elem(cls, opts, rows[i], flags[i], rows[j], flags[j], 2e-10))
        ctx.strata["threshold/near_pairs"] = ctx.strata.get("threshold/near_pairs", 0) + near
        ctx.strata["threshold/cases_with_merge"] = ctx.strata.get("threshold/cases_with_merge", 0) + int(
            len(out) < len({(tuple(rows[k].tolist()), bool(flags[k])) for k in kept}))
    # 1. pairwise distinct (exactly equal / exactly antipodal elements with equal flags are duplicates)
    for i in range(len(out)):
        for j in range(i + 1, len(out)):
            if same_elem(cls, opts, out[i], oflags[i], out[j], oflags[j], 0.0):
                return f"nodup: returned elements {i} and {j} are the same: {out[i].tolist()} / {out[j].tolist()}"
    # 1b. numerical equality of rotations without the antipodal identification is equality of the components at the 10th decimal
    # (the near-duplicate thresholds the property quantifies over): two returned rotations whose components agree after that
    # rounding - a component that rounds to zero from either side is zero, whatever its sign bit - are one rotation twice
    if cls in ROT and not opts["antipodal"]:
        r10 = np.round(out, 10) + 0.0
        # (rows with a component at a rounding tie are left to the correspondence site: the constructor renormalises returned
        # rows by an ulp, which may move a tie to the other side)
        tie = np.any(np.abs(np.abs(out) * 1e10 % 1.0 - 0.5) < 1e-3, axis=1) if len(out) else np.zeros(0, bool)
        for i in range(len(out)):
            for j in range(i + 1, len(out)):
                if tie[i] or tie[j]:
                    continue
                if bool(oflags[i]) == bool(oflags[j]) and np.array_equal(r10[i], r10[j]):
                    return (f"nodup: returned elements {i} and {j} agree in every component at the 10th decimal: "
                            f"{out[i].tolist()} / {out[j].tolist()}")
    # 2. zero vectors dropped
    if cls in BASE:
        for i in range(len(out)):
            if np.all(np.abs(out[i]) <= ZERO_TOL / 10):
                return f"zero: returned element {i} = {out[i].tolist()} is a zero entry"
    # 3. cover + order of first appearance: the first input position each returned element stands for
    first = []
    for i in range(len(out)):
        p = [int(k) for k in kept if same_elem(cls, opts, rows[k], flags[k], out[i], oflags[i], MERGE_TOL)]
        if not p:
            return f"cover: returned element {i} = {out[i].tolist()} is none of the input elements"
        first.append(p[0])
    for k in kept:
        if not any(same_elem(cls, opts, rows[k], flags[k], out[i], oflags[i], MERGE_TOL) for i in range(len(out))):
            return f"cover: input element {int(k)} = {rows[k].tolist()} (flag {bool(flags[k])}) equals none of the returned"
    if c.get("separated") and first != sorted(first):
        return f"order: returned elements first appear at input positions {first}, not in order of first appearance"
    # exact duplicates must be merged: already implied by nodup + cover when inputs are separated
    # 4. idx selects the returned elements from the flattened input
    if idx is not None:
        idx = np.asarray(idx).reshape(-1)
        if len(idx) != len(out):
            return f"idx_selects: {len(idx)} indices for {len(out)} returned elements"
        if len(idx) and (idx.min() < 0 or idx.max() >= len(rows)):
            return f"idx_selects: idx {idx.tolist()} out of range for {len(rows)} flattened elements"
        for i, p in enumerate(idx):
            tol = 1e-10 if cls in BASE else RENORM_TOL  # base classes return rows rounded to 10 decimals
            if np.abs(rows[p] - out[i]).max() > tol or bool(flags[p]) != bool(oflags[i]):
                return (f"idx_selects: returned element {i} = {out[i].tolist()} but flattened input[idx[{i}]={int(p)}] = "
                        f"{rows[p].tolist()} (idx = {idx.tolist()})")
    # 5. inv reconstructs the flattened input (non-dropped entries) from the returned elements
    if inv is not None:
        inv = np.asarray(inv).reshape(-1)
        if len(inv) != len(kept):
            return f"inv_reconstructs: {len(inv)} inverse indices for {len(kept)} non-dropped input elements"
        if len(inv) and (inv.min() < 0 or inv.max() >= len(out)):
            return f"inv_reconstructs: inv {inv.tolist()} out of range for {len(out)} returned elements"
        for j, k in enumerate(kept):
            if not same_elem(cls, opts, rows[k], flags[k], out[inv[j]], oflags[inv[j]], MERGE_TOL):
                return (f"inv_reconstructs: input element {int(k)} = {rows[k].tolist()} but returned[inv[{j}]={int(inv[j])}] = "
                        f"{out[inv[j]].tolist()} (inv = {inv.tolist()})")
    # 6. a duplicate-free cover of a duplicate-free set is that set: unique() of the result returns it unchanged, in order
    if c.get("separated") and len(out):
        u2 = unpack(call_unique(u, c), c)[0]
        o2 = u2.data.reshape(-1, rows.shape[1])
        f2 = u2.improper.reshape(-1) if cls in ROT else np.zeros(len(o2), bool)
        if len(o2) != len(out) or not all(same_elem(cls, opts, out[i], oflags[i], o2[i], f2[i], MERGE_TOL) for i in range(len(out))):
            return (f"idempotent: unique() of the returned elements gives {o2.tolist()} (flags {f2.tolist()}), not the returned "
                    f"elements {out.tolist()} themselves")
    return None


# ---------------- known findings ---------------------------------------------------------
def _why(case):
    class _Ctx:
        strata = {}
    try:
        return uniq_prop_check(_Ctx(), case, []) or ""
    except Exception as e:  # noqa
        return "exception " + repr(e)


def pred_base_idx(case):
    return case.get("cls") in BASE and case["opts"]["return_index"] and _why(case).startswith("idx_selects:")


def pred_base_inv(case):
    return case.get("cls") in ("Quaternion", "Vector3d") and case["opts"]["return_inverse"] \
        and _why(case).startswith("inv_reconstructs:")


PREDICATES = {"base_idx_not_for_returned": pred_base_idx, "base_inv_not_for_returned": pred_base_inv}

SITES = {
    "uniq_model": sites.Site("uniq_model", "corr", uniq_model_check, uniq_model_lines),
    "uniq_prop": sites.Site("uniq_prop", "prop", uniq_prop_check),
}

# ---------------- generation -------------------------------------------------------------
SHAPES = {0: [(0,), (2, 0), (0, 3)], 1: [(1,), (1, 1)], 2: [(2,), (2, 1), (1, 2)], 3: [(3,), (3, 1)], 4: [(4,), (2, 2)],
          5: [(5,)], 6: [(6,), (2, 3), (3, 2), (1, 3, 2)], 7: [(7,)], 8: [(8,), (2, 4), (2, 2, 2), (4, 2)],
          9: [(9,), (3, 3)], 10: [(10,), (2, 5), (5, 2)], 12: [(12,), (3, 4), (2, 3, 2), (2, 2, 3)]}
DELTAS = [0.0, 1e-14, 1e-13, 1e-12, 4e-12, 6e-12, 1e-11, 4e-11, 4.9e-11, 5.1e-11, 6e-11, 1e-10, 1.5e-10, 1e-9]
NEARZERO = [0.0, -0.0, 1e-13, 5e-11, -5e-11, 1e-9, -9e-9, 9.9e-9, 1e-8, -1e-8, 1.01e-8, 1.1e-8, 2e-8]


def pick_shape(rng, n):
    ss = SHAPES[n]
    return list(ss[rng.integers(len(ss))])


def opts_for(cls, j):
    o = {"return_index": bool(j & 1), "return_inverse": bool(j & 2), "antipodal": not bool(j & 4)}
    if cls == "Miller":
        o["return_inverse"] = False
    return o


def gen_base_rows(rng, dim, n, stratum):
    """n rows with duplicates; returns (rows, scale | None, separated)"""
    if stratum == "dyadic":
        k = int(rng.integers(0, 7))
        pool = [[int(x) for x in rng.integers(-6, 7, size=dim)] for _ in range(max(1, n // 2))]
        if rng.random() < 0.7:
            pool.append([0] * dim)
        rows = [pool[rng.integers(len(pool))] for _ in range(n)]
        return [[x / 2.0 ** k for x in r] for r in rows], k, True
    if stratum == "tie":  # x * 1e10 is exactly a half-integer: round-half-even
        pool = [[float((2 * int(rng.integers(-4, 5)) + 1)) / 2048.0 for _ in range(dim)] for _ in range(max(1, n // 2))]
        return [list(pool[rng.integers(len(pool))]) for _ in range(n)], None, True
    if stratum == "nearzero":
        rows = []
        for _ in range(n):
            if rng.random() < 0.6:
                rows.append([float(NEARZERO[rng.integers(len(NEARZERO))]) for _ in range(dim)])
            else:
                rows.append([float(x) for x in rng.integers(-2, 3, size=dim)])
        return rows, None, False
    # threshold: copies of a few base rows perturbed by deltas around 1e-10
    pool = [[float(x) for x in np.round(rng.normal(size=dim), 3)] for _ in range(max(1, n // 3))]
    rows = []
    for _ in range(n):
        b = list(pool[rng.integers(len(pool))])
        j = int(rng.integers(dim))
        b[j] = b[j] + float(rng.choice([-1, 1])) * float(DELTAS[rng.integers(len(DELTAS))])
        rows.append(b)
    return rows, None, False


def gen_rot_rows(rng, n, stratum):
    if stratum == "dyadic":
        pool = [HURWITZ[rng.integers(len(HURWITZ))] for _ in range(max(1, n // 2))]
        rows = []
        for _ in range(n):
            q = list(pool[rng.integers(len(pool))])
            if rng.random() < 0.4:
                q = [-x for x in q]
            rows.append(q)
        return rows, 1, True
    pool = []
    for _ in range(max(1, n // 3)):
        q = rng.normal(size=4)
        if rng.random() < 0.3:
            q[rng.integers(4)] = 0.0
        pool.append(q / np.linalg.norm(q))
    rows = []
    for _ in range(n):
        q = np.array(pool[rng.integers(len(pool))])
        if stratum == "threshold":
            q[rng.integers(4)] += float(rng.choice([-1, 1])) * float(DELTAS[rng.integers(len(DELTAS))])
        if rng.random() < 0.4:
            q = -q
        rows.append([float(x) for x in q])
    return rows, None, stratum != "threshold"


def generate(ctx):
    rng = ctx.rng
    quick = ctx.tier == "quick"
    reps = 36 if quick else 400
    sizes = sorted(SHAPES)
    for cls in CLASSES:
        dim = 3 if cls in ("Vector3d", "Miller") else 4
        strata = ["dyadic", "tie", "nearzero", "threshold"] if cls in BASE else ["dyadic", "exactdup", "threshold"]
        for stratum in strata:
            for j in range(8):
                if cls in BASE and j >= 4:
                    continue
                opts = opts_for(cls, j)
                for rep in range(reps):
                    n = int(sizes[rng.integers(len(sizes))])
                    if cls in BASE:
                        rows, scale, sep = gen_base_rows(rng, dim, n, stratum)
                        flags = []
                    else:
                        rows, scale, sep = gen_rot_rows(rng, n, stratum)
                        p = [0.0, 0.5, 0.5, 1.0][rng.integers(4)]
                        flags = [bool(rng.random() < p) for _ in range(n)]
                    c = {"cls": cls, "shape": pick_shape(rng, n), "rows": rows, "flags": flags, "opts": opts,
                         "separated": sep, "stratum": stratum}
                    if scale is not None:
                        c["scale"] = scale
                    nt = n > 1 and len({tuple(r) for r in rows}) < n
                    ctx.count(f"{cls}/{stratum}/idx{int(opts['return_index'])}inv{int(opts['return_inverse'])}"
                              + ("" if cls in BASE else f"anti{int(opts['antipodal'])}"),
                              ("u", cls, c["shape"], rows, flags, opts), nontrivial=nt)
                    ctx.strata[f"size/{'empty' if n == 0 else ('1' if n == 1 else 'many')}"] = ctx.strata.get(
                        f"size/{'empty' if n == 0 else ('1' if n == 1 else 'many')}", 0) + 1
                    if rep == 0 and j == 3 and stratum in ("dyadic", "threshold"):
                        ctx.sample({"site": "uniq_model+uniq_prop", **c}, cap=8)
                    yield "uniq_model", c
                    yield "uniq_prop", c


def run(ctx, status):
    driver_ok = lean_phase(ctx, status, ["OrixProofs.Properties.C17"])
    if ctx.replay:
        site, case, body = sites.load_replay(ctx.replay)
        if site in SITES:
            sites.run_cases(ctx, SITES, [(site, case)], driver_ok)
    else:
        sites.run_cases(ctx, SITES, generate(ctx), driver_ok)
    return common.finish(
        ctx, "proof", PREDICATES,
        rule="seeded multisets of 0-12 elements in 1-3-d shapes for Quaternion, Vector3d, Miller (Object3d.unique) and "
             "Rotation, Misorientation, Orientation (Rotation.unique, antipodal on/off), every combination of "
             "return_index/return_inverse; strata: exact dyadic values (model additionally run in exact Int "
             "arithmetic; for rotations the 24 dyadic unit quaternions), exact and antipodal duplicates, "
             "round-half-even ties, near-zero rows around the 1e-8 zero test, perturbations of 1e-14..1e-9 around the "
             "1e-10 / 1e-12 rounding thresholds, mixed improper flags; non-trivial = more than one element and at least "
             "one exact duplicate; distinct by hash of the whole case",
        assumptions=["np.unique(axis=0) is modelled by its contract (sorted distinct rows, first-occurrence indices, "
                     "inverse), np.round(x, d) by rint(x*10^d)/10^d; both are exercised by the correspondence check",
                     "Miller.unique(use_symmetry=True) belongs to C10 and is not exercised here",
                     "the prop site treats elements closer than 3e-10 (up to sign when antipodal) as 'equal' for the "
                     "cover / inverse clauses and only exactly equal elements as duplicates, so that it does not depend "
                     "on where a rounding boundary falls; the exact threshold behaviour is compared with the model"])
