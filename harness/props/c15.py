"""C15 — vendor file readers decode every field of the formats they support.

For each vendor variant (.ang: EDAX TSL 10/14 columns, EMsoft, ASTAR, orix; .ctf: Oxford, Bruker, EMsoft, ASTAR,
MTEX; h5ebsd: Bruker, EMsoft) a map `m` with distinct random values in every column is generated, the Lean
model's format description `encodeᵥ m` is obtained from the driver, rendered to a real file
(harness/gen/vendors.py) and loaded with `orix.io.load`.

Sites
  vendor_corr (corr)  the loaded map vs the model's `decodeᵥ (encodeᵥ m)` (the reader model on the same file record)
  vendor_prop (prop)  the loaded map vs `m` itself: grid, coordinates, scan unit, Euler angles in the file's angular
                      unit, phase ids with the vendor's not-indexed convention, property columns under their
                      documented names, phases with names / symmetries / lattice constants
  columns_corr/prop   .ang files with an unexpected number of columns: warning and generic names
"""
from __future__ import annotations

import os
import warnings

import numpy as np

from .. import common, sites
from ..gen import codecwire as W
from ..gen import vendors as V
from ..main import lean_phase
from .c14 import fval, map_vs_model

ANG_FMT = {"tsl": 0, "tslwide": 1, "emsoft": 2, "astar": 3}
ANG_PROPS = {"tsl": ["iq", "ci", "detector_signal", "fit"],
             "tslwide": ["iq", "ci", "detector_signal", "fit", "unknown1", "unknown2", "unknown3", "unknown4"],
             "emsoft": ["iq", "dp"], "astar": ["ind", "rel", "relx100"]}
ANG_PHASE_COL = 7
CTF_FMT = {"oxford": 0, "bruker": 0, "emsoft": 1, "astar": 2, "mtex": 3}
CTF_PROPS = {"emsoft": ["bands", "error", "DP", "OSM", "IQ"]}
CTF_PROPS_DEFAULT = ["bands", "error", "MAD", "BC", "BS"]
LAUE = ["-1", "2/m", "mmm", "4/m", "4/mmm", "-3", "-3m", "6/m", "6/mmm", "m-3", "m-3m"]   # Laue classes 1..11
SYM_SPELLINGS = {"432": ["43", "432"], "m-3m": ["m3m", "m-3m"], "222": ["22", "222"], "422": ["42", "422"],
                 "121": ["20", "121"], "32": ["32"], "622": ["622"], "6": ["6"], "3": ["3"], "23": ["23"], "4": ["4"],
                 "1": ["1"], "112": ["112"], "312": ["312"], "6/mmm": ["6/mmm"], "mmm": ["mmm"], "-3m": ["-3m"],
                 "4/mmm": ["4/mmm"], "2/m": ["2", "2/m"], "211": ["211"]}
BRUKER_PROPS = ["PCX", "PCY", "DD", "MAD", "MADPhase", "NIndexedBands", "RadonBandCount", "RadonQuality", "XBEAM",
                "YBEAM", "XSAMPLE", "YSAMPLE", "ZSAMPLE"]
BRUKER_DS = ["PCX", "PCY", "DD", "MAD", "MADPhase", "NIndexedBands", "RadonBandCount", "RadonQuality", "X BEAM",
             "Y BEAM", "X SAMPLE", "Y SAMPLE", "Z SAMPLE"]
EMSOFT_PROPS = ["AvDotProductMap", "CI", "IQ", "ISM", "KAM", "OSM", "RefinedDotProducts", "TopDotProductList",
                "TopMatchIndices"]


# ---------------- tokens ---------------------------------------------------------------------
def t_pmap(m):
    def pt(p):
        return [p["x"], p["y"], p["ph"]] + list(p["eu"]) + W.t_list(p["v"], W.t_int)
    return (W.t_list(m["props"], W.t_str) + W.t_list(m["pts"], pt) + W.t_list(m["phases"], W.t_phaseinfo)
            + W.t_str(m["unit"]) + W.t_bool(m["deg"]))


def pmap_json(m):
    """the PMap in the JSON form the driver prints (for comparing model read with m)"""
    return {"props": [[ord(c) for c in s] for s in m["props"]],
            "pts": [{"x": p["x"], "y": p["y"], "ph": p["ph"], "eu": list(p["eu"]), "v": list(p["v"])} for p in m["pts"]],
            "phases": [{"id": p["id"], "name": [ord(c) for c in p["name"]],
                        "pg": None if p.get("pg") is None else [ord(c) for c in p["pg"]], "sg": p.get("sg"),
                        "lat": list(p.get("lat", [])),
                        "atoms": [{"el": [ord(c) for c in a["el"]], "xyz": [[ord(c) for c in s] for s in a["xyz"]],
                                   "occ": a["occ"]} for a in p.get("atoms", [])]} for p in m["phases"]],
            "unit": [ord(c) for c in m["unit"]], "deg": m["deg"]}


def vendor_lines(c):
    fam = c["fam"]
    if fam == "ang":
        x = W.t_list(c["extras"]["phases"], lambda p: W.t_list(p["mat"], W.t_str) + W.t_str(p["sym"])) + [c["extras"]["ni_phase"]]
        return [W.line("encang", [ANG_FMT[c["fmt"]], 100000] + x + t_pmap(c["m"]))]
    if fam == "ctf":
        e = c["extras"]
        x = (W.t_list(e["laue"], W.t_int) + W.t_list(e["sg"], W.t_int) + [e["xcells"], e["ycells"], e["xstep"], e["ystep"]]
             + W.t_list(e["fileX"], W.t_int) + W.t_list(e["fileY"], W.t_int))
        return [W.line("encctf", [CTF_FMT[c["fmt"]]] + x + t_pmap(c["m"]))]
    if fam == "bruker":
        e = c["extras"]
        x = (W.t_bool(e["roi"]) + W.t_list(e["perm"], W.t_int) + [e["nrows"], e["ncols"], e["iy0"], e["ix0"], 0, 0]
             + W.t_list(e["atoms"], lambda ph: W.t_list(ph, lambda a: W.t_list(a, W.t_str))) + W.t_list(e["it"], W.t_int))
        return [W.line("encbruker", x + t_pmap(c["m"]))]
    if fam == "emsoft":
        e, m = c["extras"], c["m"]
        x = ([e["nrows"], e["ncols"], e["stepy"]] + W.t_str(e["material"]) + W.t_str(e["pg_text"]) + W.t_bool(e["refined"])
             + [e["nnk"]] + W.t_list(e["dict"], lambda t: list(t)) + W.t_list(e["idx"], lambda r: W.t_list(r, W.t_int))
             + W.t_list(e["shapes"], lambda s: W.t_list(s, W.t_int)))

        def kpt(p):
            return ([p["x"], p["y"], p["ph"]] + W.t_list(p["eus"], lambda t: list(t))
                    + W.t_list(p["v"], lambda v: W.t_list(v, W.t_int)))
        mm = (W.t_list(m["props"], W.t_str) + W.t_list(m["pts"], kpt) + W.t_list(m["phases"], W.t_phaseinfo)
              + W.t_str(m["unit"]) + W.t_bool(m["deg"]))
        return [W.line("encemsoft", x + mm)]
    raise ValueError(fam)


# ---------------- rendering + loading --------------------------------------------------------
def render_and_load(ctx, c, frec):
    from orix import io
    fam = c["fam"]
    ext = {"ang": "ang", "ctf": "ctf", "bruker": "h5", "emsoft": "h5"}[fam]
    path = os.path.join(ctx.scratch, f"v{os.getpid()}.{ext}")
    if fam == "ang":
        V.render_ang(path, frec, c["fmt"], dict(c["layout"], phase_col=ANG_PHASE_COL), c["grid"])
    elif fam == "ctf":
        V.render_ctf(path, frec, c["fmt"], c["layout"], c["nd"])
    elif fam == "bruker":
        V.render_bruker(path, frec, c["layout"], c["nd"])
    else:
        V.render_emsoft(path, frec, c["layout"], c["nd"])
    kw = {"refined": True} if fam == "emsoft" and c["extras"]["refined"] else {}
    try:
        with warnings.catch_warnings(record=True) as wl:
            warnings.simplefilter("always")
            y = io.load(path, **kw)
            if fam == "ang":
                # the plain rotation reader for .ang files (first three columns = Bunge angles in radians): same rotations
                legacy = io.loadang(path)
                a, b = np.asarray(legacy.data, float).reshape(-1, 4), np.asarray(y.rotations.data, float).reshape(-1, 4)
                if a.shape != b.shape or (a.size and np.minimum(np.abs(a - b).max(axis=1), np.abs(a + b).max(axis=1)).max() > 1e-12):
                    raise AssertionError(f"io.loadang gives other rotations than io.load for the same .ang file "
                                         f"({a.shape[0]} vs {b.shape[0]} rotations)")
        msgs = [str(w.message) for w in wl]
        return y, msgs
    finally:
        if os.path.exists(path):
            os.remove(path)


def scaled(pm, c):
    """PMap JSON with integers in file units -> the form map_vs_model expects (units 1e-5 for values)"""
    return pm


def pmap_vs_loaded(y, pm, c):
    """compare with the generic comparer of C14 after converting units: map_vs_model uses fval(·, 5)"""
    nd = c.get("nd", 5)
    if nd != 5:
        f = 10 ** (5 - nd) if nd < 5 else None

        def conv(v):
            return v * f if f else v
        if f is None:
            # finer unit than 1e-5 (ASTAR ctf): compare as floats directly
            return pmap_vs_loaded_fine(y, pm, nd)
        pm = dict(pm, pts=[dict(p, x=conv(p["x"]), y=conv(p["y"]), eu=[conv(v) for v in p["eu"]],
                                v=[conv(v) for v in p["v"]]) for p in pm["pts"]])
    # Bruker files may store the angles as float32; the reader converts to radians in that precision
    return map_vs_model(y, pm, rot_tol=2e-6 if c["fam"] == "bruker" else 1e-12)


def pmap_vs_loaded_fine(y, pm, nd):
    from orix.quaternion import Rotation
    pts = pm["pts"]
    n = len(pts)
    if y.size != n:
        return [f"loaded map has {y.size} points, expected {n}"]
    diffs = []
    for attr in ("x", "y"):
        exp = np.array([fval(p[attr], nd) for p in pts])
        got = getattr(y, attr)
        if got is None:
            if len(set(exp.tolist())) > 1:
                diffs.append(f"{attr} coordinates absent")
        elif not np.allclose(got, exp, rtol=1e-12, atol=1e-15):
            i = int(np.argmax(np.abs(got - exp)))
            diffs.append(f"{attr}[{i}] = {got[i]!r} expected {exp[i]!r}")
    if y.phase_id.tolist() != [p["ph"] for p in pts]:
        diffs.append(f"phase ids {y.phase_id.tolist()[:10]} expected {[p['ph'] for p in pts][:10]}")
    eu = np.array([[fval(v, nd) for v in p["eu"]] for p in pts]).reshape(n, 3)
    if pm["deg"]:
        eu = np.deg2rad(eu)
    if np.abs(Rotation.from_euler(eu).data - y.rotations.data.reshape(n, -1)).max() > 1e-12:
        diffs.append("rotations differ from the file's Euler angles")
    names = [W.s_of(s) for s in pm["props"]]
    if list(y.prop.keys()) != names:
        diffs.append(f"property names {list(y.prop.keys())} expected {names}")
    else:
        for k, nm in enumerate(names):
            exp = np.array([fval(p["v"][k], nd) for p in pts])
            if not np.array_equal(np.asarray(y.prop[nm], float), exp):
                diffs.append(f"property {nm} differs")
    got_ph = [(int(i), p.name, None if p.point_group is None else p.point_group.name,
               None if p.space_group is None else int(p.space_group.number)) for i, p in y.phases]
    exp_ph = [(p["id"], W.s_of(p["name"]), W.s_of(p["pg"]), p["sg"]) for p in pm["phases"]]
    if got_ph != exp_ph:
        diffs.append(f"phases {got_ph} expected {exp_ph}")
    if y.scan_unit != W.s_of(pm["unit"]):
        diffs.append(f"scan unit {y.scan_unit!r}")
    return diffs


def phases_sg_atoms(y, pm):
    """space groups and atoms (not covered by the C14 comparer)"""
    for (i, p), e in zip(y.phases, pm["phases"]):
        sg = None if p.space_group is None else int(p.space_group.number)
        if sg != e["sg"]:
            return f"phase {i}: space group {sg} expected {e['sg']}"
        got = [(a.element, [round(float(v), 9) for v in a.xyz], float(a.occupancy)) for a in p.structure]
        exp = [(W.s_of(a["el"]), [round(float(W.s_of(s)), 9) for s in a["xyz"]], float(a["occ"])) for a in e["atoms"]]
        if got != exp:
            return f"phase {i}: atoms {got} expected {exp}"
    return None


def kmap_vs_loaded(y, km, c):
    from orix.quaternion import Rotation
    nd = c["nd"]
    pts = km["pts"]
    n = len(pts)
    if y.size != n:
        return [f"loaded map has {y.size} points, expected {n}"]
    diffs = []
    for attr in ("x", "y"):
        exp = np.array([fval(p[attr], nd) for p in pts])
        got = getattr(y, attr)
        if got is None:
            if len(set(exp.tolist())) > 1:
                diffs.append(f"{attr} coordinates absent")
        elif not np.allclose(got, exp, rtol=1e-6, atol=1e-9):
            i = int(np.argmax(np.abs(got - exp)))
            diffs.append(f"{attr}[{i}] = {got[i]!r} expected {exp[i]!r}")
    if y.phase_id.tolist() != [p["ph"] for p in pts]:
        diffs.append(f"phase ids {y.phase_id.tolist()[:8]} expected {[p['ph'] for p in pts][:8]}")
    k = len(pts[0]["eus"])
    eu = np.array([[[fval(v, nd) for v in e] for e in p["eus"]] for p in pts], dtype=np.float32).astype(float)
    if km["deg"]:
        eu = np.deg2rad(eu)
    exp_q = Rotation.from_euler(eu.reshape(n, k, 3) if k > 1 else eu.reshape(n, 3)).data
    got_q = y.rotations.data
    if exp_q.shape != got_q.shape:
        diffs.append(f"rotations shape {got_q.shape[:-1]} expected {exp_q.shape[:-1]}")
    else:
        ang = 2 * np.arccos(np.clip(np.abs(np.sum(exp_q * got_q, axis=-1)), 0, 1))
        if ang.max() > 2e-5:   # float32 storage of the angles
            diffs.append(f"rotations differ from the file's Euler angles by up to {ang.max():.2e} rad")
    names = [W.s_of(s) for s in km["props"]]
    if list(y.prop.keys()) != names:
        diffs.append(f"property names {list(y.prop.keys())} expected {names}")
    else:
        for j, nm in enumerate(names):
            exp = np.array([[fval(v, nd) for v in p["v"][j]] for p in pts], dtype=np.float32)
            got = np.asarray(y.prop[nm], dtype=np.float32).reshape(n, -1)
            if got.shape != exp.shape or not np.array_equal(got, exp):
                diffs.append(f"property {nm}: shape {got.shape} vs {exp.shape} or values differ")
    got_ph = [(int(i), p.name, None if p.point_group is None else p.point_group.name,
               [round(float(v), 6) for v in p.structure.lattice.abcABG()]) for i, p in y.phases]
    exp_ph = [(p["id"], W.s_of(p["name"]), W.s_of(p["pg"]), [round(fval(v, 3), 6) for v in p["lat"]]) for p in km["phases"]]
    if got_ph != exp_ph:
        diffs.append(f"phases {got_ph} expected {exp_ph}")
    if y.scan_unit != W.s_of(km["unit"]):
        diffs.append(f"scan unit {y.scan_unit!r} expected {W.s_of(km['unit'])!r}")
    return diffs


def kmap_json(m):
    return {"props": [[ord(ch) for ch in s] for s in m["props"]],
            "pts": [{"x": p["x"], "y": p["y"], "ph": p["ph"], "eus": [list(e) for e in p["eus"]],
                     "v": [list(v) for v in p["v"]]} for p in m["pts"]],
            "phases": pmap_json({"props": [], "pts": [], "phases": m["phases"], "unit": "", "deg": False})["phases"],
            "unit": [ord(ch) for ch in m["unit"]], "deg": m["deg"]}


def vendor_check(ctx, c, outs, against_model):
    res = W.parse(outs[0]) if outs else None
    if res is None or "err" in res:
        return f"driver: {res}"
    try:
        y, msgs = render_and_load(ctx, c, res["file"])
    except Exception as e:
        if against_model and res["read"] is None:
            return None
        if against_model:
            return f"implementation raises {type(e).__name__}: {str(e)[:100]} but the model reader succeeds"
        return f"io.load raises {type(e).__name__}: {str(e)[:160]}"
    if c["fam"] == "emsoft":
        exp = res["read"] if against_model else kmap_json(c["m"])
        if exp is None:
            return "model reader fails but the implementation loads the file"
        d = kmap_vs_loaded(y, exp, c)
        return None if not d else ("loaded vs " + ("model read" if against_model else "the map the file encodes") + ": " + "; ".join(d[:3]))
    if against_model:
        rd = res["read"]
        if c["fam"] == "ang":
            if rd is None:
                return "model reader fails but the implementation loads the file"
            warned = any("Number of columns" in m for m in msgs)
            if warned != rd["warned"]:
                return f"column-count warning: implementation {warned}, model {rd['warned']}"
            exp = rd["map"]
        else:
            if rd is None:
                return "model reader fails but the implementation loads the file"
            exp = rd
        key = "model: decode(encode m) == m" if exp == pmap_json(c["m"]) else "model: decode(encode m) != m"
        ctx.strata[key] = ctx.strata.get(key, 0) + 1
    else:
        exp = pmap_json(c["m"])
        if c["fam"] == "ang" and any("Number of columns" in m for m in msgs):
            return "a file in the vendor's documented layout triggers the unexpected-number-of-columns warning"
    d = pmap_vs_loaded(y, exp, c)
    if not d and c["fam"] in ("ctf", "bruker"):
        e = phases_sg_atoms(y, exp)
        d = [e] if e else []
    return None if not d else ("loaded vs " + ("model read" if against_model else "the map the file encodes") + ": " + "; ".join(d[:3]))


def vendor_corr_check(ctx, c, outs):
    return vendor_check(ctx, c, outs, True)


def vendor_prop_check(ctx, c, outs):
    return vendor_check(ctx, c, outs, False)


# ---------------- .ang in orix's own layout --------------------------------------------------------
# The file text is rendered HERE from the structured file the Lean model of the writer produces (header lines, integer
# data rows); orix's writer is not involved, so the reader is tested on its own against (prop) the map the file encodes
# (the model's specification `quantise`) and (corr) the model reader.
ORIX_FILLER = ["TEM_PIXperUM          1.000000", "x-star                0.000000", "y-star                0.000000",
               "z-star                0.000000", "WorkingDistance       0.000000", ""]


def orix_ang_lines(c):
    from . import c14
    return c14.ang_lines(c)


def render_orix_ang(path, f, layout):
    from . import c14
    gap = layout["gap"]
    out = []
    k_other = 0
    for l in f["header"]:
        t = l["t"]
        if t == "other":
            out.append("# " + ORIX_FILLER[k_other % len(ORIX_FILLER)] if layout["filler"] else "#")
            k_other += 1
        elif t == "mark":
            continue
        elif t == "phase":
            out.append(f"# Phase{gap}{l['id']}")
        elif t == "name":
            out.append(f"# MaterialName{gap}" + " ".join(W.s_of(x) for x in l["toks"]))
        elif t == "formula":
            out.append(f"# Formula{gap}" + " ".join(W.s_of(x) for x in l["toks"]))
        elif t == "sym":
            out.append(f"# Symmetry{gap}" + W.s_of(l["s"]))
        elif t == "lat":
            out.append(f"# LatticeConstants{gap}" + " ".join("%.3f" % c14.fval(v, 3) for v in l["v"]))
        elif t == "cols":
            out.append("# Column names: " + ", ".join(W.s_of(x) for x in l["names"]))
        elif t == "grid":
            k = W.s_of(l["k"])
            out.append(f"# {k}: " + ("%.6f" % c14.fval(l["v"]) if k in ("XSTEP", "YSTEP") else str(int(l["v"]))))
    nextra = f["ncols"] - 10
    w = [x + layout["pad"] for x in f["widths"]]
    for r in f["rows"]:
        out.append(c14.render_row(r, w, nextra))
    with open(path, "w") as fh:
        fh.write("\n".join(out) + "\n")


def orix_ang_check(ctx, c, outs, against_model):
    from orix import io
    from . import c14
    res = W.parse(outs[0]) if outs else None
    if res is None or "err" in res:
        return None          # the model writer rejects this map: no file to read
    exp = res["read"]["map"] if (against_model and res["read"]) else res["spec"]
    if exp is None:
        return None if not against_model else "model reader fails on the model writer's file"
    path = os.path.join(ctx.scratch, f"o{os.getpid()}.ang")
    try:
        render_orix_ang(path, res["file"], c["orix_layout"])
        with warnings.catch_warnings(record=True) as wl:
            warnings.simplefilter("always")
            y = io.load(path)
        if any("Number of columns" in str(m.message) for m in wl) and res["file"]["ncols"] == 10:
            return "a 10-column file in orix's layout triggers the unexpected-number-of-columns warning"
        d = c14.map_vs_model(y, exp)
        return None if not d else ("file in orix's .ang layout: loaded vs " + ("model read" if against_model else
                                   "the map the file encodes") + ": " + "; ".join(d[:3]))
    except Exception as e:
        return f"io.load of a file in orix's .ang layout raises {type(e).__name__}: {str(e)[:160]}"
    finally:
        if os.path.exists(path):
            os.remove(path)


# ---------------- unexpected number of columns (.ang) ---------------------------------------------
def columns_lines(c):
    hdr = []
    for l in c["header"]:
        if l[0] == "mark":
            hdr.append([6, {"tsl": 0, "emsoft": 1, "astar": 2}[l[1]]])
        elif l[0] == "phase":
            hdr.append([0, l[1]])
        elif l[0] == "name":
            hdr.append([1] + W.t_list(l[1], W.t_str))
        elif l[0] == "formula":
            hdr.append([2] + W.t_list(l[1], W.t_str))
        elif l[0] == "sym":
            hdr.append([3] + W.t_str(l[1]))
        elif l[0] == "lat":
            hdr.append([4] + W.t_list(l[1], W.t_int))
        else:
            hdr.append([8])
    toks = [100000, len(hdr)]
    for h in hdr:
        toks += h
    toks += [c["ncols"]] + W.t_list(c["rows"], lambda r: W.t_list(r, W.t_int))
    return [W.line("decang", toks)]


def columns_file(c):
    hdr = []
    for l in c["header"]:
        d = {"t": l[0]}
        if l[0] == "mark":
            d["v"] = l[1]
        elif l[0] == "phase":
            d["id"] = l[1]
        elif l[0] in ("name", "formula"):
            d["toks"] = [[ord(ch) for ch in s] for s in l[1]]
        elif l[0] == "sym":
            d["s"] = [ord(ch) for ch in l[1]]
        elif l[0] == "lat":
            d["v"] = l[1]
        hdr.append(d)
    return {"header": hdr, "ncols": c["ncols"], "rows": c["rows"]}


def columns_check(ctx, c, outs, against_model):
    from orix import io
    path = os.path.join(ctx.scratch, f"u{os.getpid()}.ang")
    V.render_ang(path, columns_file(c), c["fmt"], dict(c["layout"], phase_col=ANG_PHASE_COL), c["grid"])
    try:
        with warnings.catch_warnings(record=True) as wl:
            warnings.simplefilter("always")
            y = io.load(path)
        warned = any("Number of columns" in str(w.message) for w in wl)
    except Exception as e:
        if against_model and W.parse(outs[0])["read"] is None:
            return None
        return f"io.load raises {type(e).__name__}: {str(e)[:120]} on a file with {c['ncols']} columns"
    finally:
        os.remove(path)
    if against_model:
        rd = W.parse(outs[0])["read"]
        if rd is None:
            return "model reader fails but the implementation loads the file"
        if warned != rd["warned"]:
            return f"warning: implementation {warned}, model {rd['warned']}"
        d = map_vs_model(y, rd["map"])
        return None if not d else "loaded vs model read: " + "; ".join(d[:3])
    # the property: still read, with a warning and generic names, nothing misassigned silently
    if not warned:
        return f"{c['ncols']} columns for vendor {c['fmt']}: no warning"
    names = list(y.prop.keys())
    if not all(nm.startswith("unknown") for nm in names):
        return f"{c['ncols']} columns for vendor {c['fmt']}: property names {names} are not generic"
    rows = np.array(c["rows"], float) / 1e5
    if not np.array_equal(y.x, rows[:, 3]) and y.x is not None:
        return "x column misassigned"
    for k, nm in enumerate(names):
        col = [5, 6][k] if k < 2 else 8 + (k - 2)
        if not np.array_equal(np.asarray(y.prop[nm], float), rows[:, col]):
            return f"generic property {nm} does not carry column {col}"
    return None


SITES = {
    "vendor_corr": sites.Site("vendor_corr", "corr", vendor_corr_check, vendor_lines),
    "vendor_prop": sites.Site("vendor_prop", "prop", vendor_prop_check, vendor_lines),
    "orix_ang_corr": sites.Site("orix_ang_corr", "corr", lambda ctx, c, o: orix_ang_check(ctx, c, o, True), orix_ang_lines),
    "orix_ang_prop": sites.Site("orix_ang_prop", "prop", lambda ctx, c, o: orix_ang_check(ctx, c, o, False), orix_ang_lines),
    "columns_corr": sites.Site("columns_corr", "corr", lambda ctx, c, o: columns_check(ctx, c, o, True), columns_lines),
    "columns_prop": sites.Site("columns_prop", "prop", lambda ctx, c, o: columns_check(ctx, c, o, False), columns_lines),
}

def _rows_permuted(c):
    if c.get("fam") != "bruker" or not c["extras"]["roi"]:
        return False
    nx = c["extras"]["ncols"]
    rows = [j // nx for j in c["extras"]["perm"]]
    return rows != sorted(rows)


NONCENTRO = {216: "-43m", 186: "6mm", 152: "321", 99: "4mm"}

PREDICATES = {
    "ctf_noncentrosymmetric_space_group": lambda c: c.get("fam") == "ctf" and any(s in NONCENTRO for s in c["extras"]["sg"]),
}


# ---------------- generation ---------------------------------------------------------------
NAMES1 = ["Al", "FeTiO3", "austenite", "ferrite", "Ni", "Ni3Al", "sigma", "Ti64", "ZrO2", "Cu2O"]
MATS = [["Aluminum"], ["Iron", "Titanium", "Oxide"], ["Nickel"], ["austenite"], ["Zirconium", "dioxide"], ["Gold"]]


def distinct(rng, n, lo, hi, step):
    """n distinct multiples of `step` in [lo, hi)"""
    m = (hi - lo) // step
    idx = rng.choice(m, size=n, replace=m < n)
    return [int(lo + i * step) for i in idx]


def euler_ints(rng, n, scale, degrees):
    two_pi = 360.0 if degrees else 2 * np.pi
    pi = 180.0 if degrees else np.pi
    e = np.column_stack([rng.uniform(0.05 * two_pi, 0.98 * two_pi, n), rng.uniform(0.05 * pi, 0.95 * pi, n),
                         rng.uniform(0.05 * two_pi, 0.98 * two_pi, n)])
    return [[int(round(v * scale)) for v in row] for row in e]


def gen_phases(rng, ids, proper=True):
    names = list(NAMES1)
    out, xs = [], []
    pool = ["432", "222", "422", "32", "622", "6", "3", "23", "4", "121", "1", "112", "312"] if proper else None
    for pid in ids:
        nm = names.pop(int(rng.integers(len(names))))
        pg = pool[int(rng.integers(len(pool)))]
        lat = [int(rng.integers(2000, 9000)) for _ in range(3)] + [90000, 90000, int(rng.choice([90000, 120000]))]
        out.append({"id": int(pid), "name": nm, "pg": pg, "sg": None, "lat": lat, "atoms": []})
        sp = SYM_SPELLINGS[pg]
        xs.append({"mat": MATS[int(rng.integers(len(MATS)))], "sym": sp[int(rng.integers(len(sp)))]})
    return out, xs


def ang_case(rng, fmt, with_ni):
    ny, nx = int(rng.integers(2, 7)), int(rng.integers(2, 8))
    n = ny * nx
    dx = int(rng.choice([10000, 150000, 286000, 5000, 100000]))
    dy = dx if rng.random() < 0.6 else int(rng.choice([20000, 100000, 250000]))
    nph = 1 if fmt == "astar" else int(rng.integers(1, 4))
    ids = sorted(int(v) for v in rng.choice(np.arange(1, 6), nph, replace=False))
    phases, xs = gen_phases(rng, ids)
    if fmt == "astar":
        phases[0]["name"] = " ".join(xs[0]["mat"])   # ASTAR has no Formula: the MaterialName is the name
    props = ANG_PROPS[fmt]
    eus = euler_ints(rng, n, 1e5, False)
    cols = {}
    for k, p in enumerate(props):
        if p in ("iq", "ind"):
            cols[p] = distinct(rng, n, 100 * 100000, 90000 * 100000, 10000)      # one decimal
        elif p in ("ci", "dp", "rel"):
            cols[p] = distinct(rng, n, 100, 99900, 100)                            # three decimals in (0, 1)
        elif p in ("detector_signal", "relx100") or p.startswith("unknown"):
            cols[p] = distinct(rng, n, (k + 1) * 1000 * 100000, (k + 2) * 1000 * 100000, 100000)   # integers
        else:
            cols[p] = distinct(rng, n, 100, 300000, 100)
    pid = [ids[i] for i in rng.integers(len(ids), size=n)]
    for t, i in enumerate(ids[:n]):
        pid[t] = i
    rng.shuffle(pid)
    pts = []
    ni = set()
    if with_ni and fmt.startswith("tsl"):
        ni = set(int(i) for i in rng.choice(n, size=max(1, n // 6), replace=False))
        # keep every phase present among indexed points
        for i in list(ni):
            if sum(1 for j in range(n) if j not in ni and pid[j] == pid[i]) == 0:
                ni.discard(i)
    for j in range(n):
        v = [cols[p][j] for p in props]
        eu = eus[j]
        ph = pid[j]
        if j in ni:
            v[props.index("ci")] = -100000
            v[props.index("fit")] = 180 * 100000
            eu = [1256637] * 3
            ph = -1
        pts.append({"x": (j % nx) * dx, "y": (j // nx) * dy, "ph": int(ph), "eu": eu, "v": v})
    m = {"props": props, "pts": pts,
         "phases": ([{"id": -1, "name": "not_indexed", "pg": None, "sg": None, "lat": [], "atoms": []}] if ni else []) + phases,
         "unit": "nm" if fmt == "astar" else "um", "deg": False}
    layout = {"ws": ["    ", "\t", "  \t", "              "][int(rng.integers(4))], "sep": [" ", "  ", "\t", "   "][int(rng.integers(4))],
              "lead": ["", " ", "  "][int(rng.integers(3))], "min_dec": [None, 1, 3][int(rng.integers(3))],
              "tok": [" ", "  "][int(rng.integers(2))]}
    return {"fam": "ang", "fmt": fmt, "m": m, "extras": {"phases": xs, "ni_phase": int(rng.choice([0, ids[0]]))},
            "layout": layout, "nd": 5,
            "grid": {"nx": nx, "ny": ny, "dx": V.dec(dx, 5), "dy": V.dec(dy, 5)}}


def ctf_case(rng, fmt, with_ni):
    ny, nx = int(rng.integers(2, 7)), int(rng.integers(2, 8))
    n = ny * nx
    astar = fmt == "astar"
    nd = 17 if astar else 4
    unit = 10 ** nd
    if astar:
        dx = 191999995708466               # 0.00191999995708466 in units of 1e-17
        dy = dx if rng.random() < 0.4 else int(rng.choice([287999993562699, 95999997854233, 127999997138977]))
    elif fmt == "bruker":
        dx = dy = 20                       # 0.0020 (header written 0,002)
    else:
        dx = int(rng.choice([1000, 15000, 10000, 2500]))
        dy = dx if rng.random() < 0.5 else int(rng.choice([2000, 10000, 20000]))
    nph = int(rng.integers(1, 4))
    # free-text names as acquisition software writes them: blanks, quotes, commas, points, brackets, semicolons
    names = ["Iron fcc", "Iron bcc", "Gold", "Ni", "_mineral 'Gold'  'Gold'", "Ti alpha", "ZrO2", "Ni,Cr superalloy", "(Fe,Cr)7C3",
             "Al 99.5", "M23C6; carbide"]
    phases, laue, sgs = [], [], []
    # (Laue class, centrosymmetric space group of that class)
    choices = [(11, 225), (11, 229), (9, 194), (5, 139), (3, 62), (2, 14), (7, 166), (1, 2), (4, 87), (6, 148), (8, 176), (10, 205),
               (11, 0), (9, 0), (7, 0)]
    for i in range(nph):
        la, sg = choices[int(rng.integers(len(choices)))]
        lat = [int(rng.integers(2000, 9000)) for _ in range(3)] + [90000, 90000, 120000 if la in (6, 7, 8, 9) else 90000]
        phases.append({"id": i + 1, "name": names.pop(int(rng.integers(len(names)))), "pg": LAUE[la - 1],
                       "sg": sg or None, "lat": lat, "atoms": []})
        laue.append(la)
        sgs.append(sg)
    eus = euler_ints(rng, n, 1e4, True)
    ni = set(int(i) for i in rng.choice(n, size=max(1, n // 6), replace=False)) if with_ni else set()
    pid = [int(rng.integers(1, nph + 1)) for _ in range(n)]
    for t in range(min(nph, n)):
        pid[t] = t + 1
    rng.shuffle(pid)
    for i in list(ni):
        if sum(1 for j in range(n) if j not in ni and pid[j] == pid[i]) == 0:
            ni.discard(i)
    bands = distinct(rng, n, 0, 333000, 1)
    err = [int(v) for v in rng.integers(0, 4, n)]
    mad = distinct(rng, n, 1, 19999, 1)
    bc = distinct(rng, n, 20000, 40000, 1)
    bs = distinct(rng, n, 50000, 70000, 1)
    s4 = unit // 10 ** 4
    pts, fx, fy = [], [], []
    for j in range(n):
        r, cidx = j // nx, j % nx
        x, yv = cidx * dx, r * dy
        if astar:   # the file carries coordinates rounded to 4 decimals
            fx.append(int(round(x / (unit / 1e4))) * s4)
            fy.append(int(round(yv / (unit / 1e4))) * s4)
        ph = -1 if j in ni else pid[j]
        eu = [0, 0, 0] if j in ni else eus[j]
        pts.append({"x": x, "y": yv, "ph": ph, "eu": [v * s4 for v in eu],
                    "v": [bands[j] * unit, err[j] * unit, mad[j] * s4, bc[j] * unit, bs[j] * unit]})
    m = {"props": CTF_PROPS.get(fmt, CTF_PROPS_DEFAULT), "pts": pts,
         "phases": ([{"id": -1, "name": "not_indexed", "pg": None, "sg": None, "lat": [], "atoms": []}] if ni else []) + phases,
         "unit": "um", "deg": True}
    return {"fam": "ctf", "fmt": fmt, "m": m, "nd": nd,
            "extras": {"laue": laue, "sg": sgs, "xcells": nx, "ycells": ny, "xstep": dx, "ystep": dy, "fileX": fx, "fileY": fy},
            "layout": {"sep": ["\t", " ", "   "][int(rng.integers(3))], "refs": bool(rng.integers(2)),
                       "swap_free_lines": bool(rng.integers(2)) and fmt not in ("emsoft",)}}


def bruker_case(rng, with_ni, order):
    ny, nx = int(rng.integers(2, 6)), int(rng.integers(2, 7))
    n = ny * nx
    nd = 3
    dx = int(rng.choice([500, 1500, 250, 2000]))    # multiples of 1/4: exact in binary
    dy = dx
    nph = int(rng.integers(1, 3))
    ids = sorted(int(v) for v in rng.choice(np.arange(1, 5), nph, replace=False))
    its = [int(rng.choice([225, 229, 194, 62, 221, 141])) for _ in ids]
    from orix.quaternion.symmetry import get_point_group
    phases, atoms = [], []
    for pid, it in zip(ids, its):
        lat = [int(rng.integers(2000, 9000)) for _ in range(3)] + [90000, 90000, 90000]
        ats = [[["Al", "Fe", "Ni", "O"][int(rng.integers(4))], str(int(rng.integers(0, 2))), str(int(rng.integers(0, 2))),
                str(int(rng.integers(0, 2))), "1", str(int(rng.integers(1, 3)))] for _ in range(int(rng.integers(0, 3)))]
        phases.append({"id": pid, "name": ["a", "b", "c", "d", "e"][pid], "pg": get_point_group(it).name, "sg": it, "lat": lat,
                       "atoms": [{"el": a[0], "xyz": a[1:4], "occ": int(a[-1])} for a in ats]})
        atoms.append(ats)
    eus = [[int(round(v / 125.0)) * 125 for v in row] for row in euler_ints(rng, n, 1e3, True)]   # multiples of 1/8 degree
    ni = set(int(i) for i in rng.choice(n, size=max(1, n // 6), replace=False)) if with_ni else set()
    pid = [ids[int(rng.integers(nph))] for _ in range(n)]
    for t, i in enumerate(ids[:n]):
        pid[t] = i
    rng.shuffle(pid)
    for i in list(ni):
        if sum(1 for j in range(n) if j not in ni and pid[j] == pid[i]) == 0:
            ni.discard(i)
    x0, y0 = int(rng.integers(0, 40)) * 250, int(rng.integers(0, 40)) * 250
    cols = {}
    for k, nm in enumerate(BRUKER_PROPS):
        if nm in ("MADPhase", "NIndexedBands", "RadonBandCount", "XBEAM", "YBEAM"):
            cols[nm] = distinct(rng, n, (k + 1) * 100 * 1000, (k + 2) * 100 * 1000, 1000)
        else:
            cols[nm] = distinct(rng, n, (k + 1) * 100 * 1000, (k + 2) * 100 * 1000, 125)   # multiples of 1/8: exact in float32
    pts = []
    for j in range(n):
        r, cidx = j // nx, j % nx
        v = [cols[nm][j] for nm in BRUKER_PROPS]
        # stage coordinates stored by Bruker: x mirrored
        v[BRUKER_PROPS.index("XSAMPLE")] = x0 + (nx - 1 - cidx) * dx
        v[BRUKER_PROPS.index("YSAMPLE")] = y0 + r * dy
        pts.append({"x": cidx * dx, "y": r * dy, "ph": -1 if j in ni else pid[j], "eu": eus[j], "v": v})
    if order == "rowmajor":
        perm = list(range(n))
    elif order == "within_rows":
        perm = []
        for r in range(ny):
            row = list(range(r * nx, (r + 1) * nx))
            rng.shuffle(row)
            perm += row
    elif order == "serpentine":
        perm = []
        for r in range(ny):
            row = list(range(r * nx, (r + 1) * nx))
            perm += row if r % 2 == 0 else row[::-1]
    else:
        perm = [int(v) for v in rng.permutation(n)]
    m = {"props": BRUKER_PROPS, "pts": pts,
         "phases": ([{"id": -1, "name": "not_indexed", "pg": None, "sg": None, "lat": [], "atoms": []}] if ni else []) + phases,
         "unit": "um", "deg": True}
    return {"fam": "bruker", "fmt": "bruker", "m": m, "nd": nd, "order": order,
            "extras": {"roi": order != "noroi", "perm": perm if order != "noroi" else list(range(n)), "nrows": ny, "ncols": nx,
                       "iy0": int(rng.integers(0, 30)), "ix0": int(rng.integers(0, 30)), "atoms": atoms, "it": its},
            "layout": {"sem_in_scan": bool(rng.integers(2)), "sem_prefix": bool(rng.integers(2)),
                       "scan": ["Scan 1", "Scan 0", "Map 1"][int(rng.integers(3))], "f32": bool(rng.integers(2))}}


def emsoft_case(rng, refined):
    ny, nx = int(rng.integers(2, 6)), int(rng.integers(2, 6))
    n = ny * nx
    nd = 3
    nnk = int(rng.integers(2, 5))
    stepy = int(rng.choice([500, 1500, 1000, 250]))
    nd_dict = int(rng.integers(20, 40))
    dict_e = euler_ints(rng, nd_dict, 1e3, True)
    idx = [[int(v) + 1 for v in rng.choice(nd_dict, nnk, replace=False)] for _ in range(n)]
    pgs = [("Cubic (Oh) [m-3m]", "m-3m"), ("Monoclinic b (C2h) [2/m]", "2/m"), ("Hexagonal (D6h) [6/mmm]", "6/mmm"),
           ("Tetragonal (D4h) [4/mmm]", "4/mmm")]
    pg_text, pg = pgs[int(rng.integers(len(pgs)))]
    material = ["Ni/Ni", "fe4al13/fe4al13", "austenite", "Ti_alpha/Ti"][int(rng.integers(4))]
    name = material.split("/")[0]
    lat = [int(rng.integers(2000, 15009)) for _ in range(3)] + [90000, 107720 if pg == "2/m" else 90000, 90000]
    present = [p for p in EMSOFT_PROPS if p not in ("RefinedDotProducts",) or refined]
    if rng.random() < 0.4:
        present = [p for p in present if p not in ("KAM", "ISM")]
    shapes, cols = [], {}
    for k, p in enumerate(present):
        if p == "TopMatchIndices":
            shapes.append([n, nnk])
            cols[p] = [[v * 1000 for v in row] for row in idx]
        elif p == "TopDotProductList":
            shapes.append([n, nnk])
            vals = distinct(rng, n * nnk, 1000 * (k + 1), 1000 * (k + 2), 1) if n * nnk < 1000 else None
            cols[p] = [vals[i * nnk:(i + 1) * nnk] for i in range(n)]
        else:
            shapes.append([ny, nx] if p in ("AvDotProductMap", "KAM", "OSM") else [n])
            step = 1000 if p == "AvDotProductMap" else 125
            cols[p] = [[v] for v in distinct(rng, n, 1000 * 100 * (k + 1), 1000 * 100 * (k + 2), step)]
    ref = euler_ints(rng, n, 1e3, False)
    pts = []
    for j in range(n):
        eus = [ref[j]] if refined else [dict_e[i - 1] for i in idx[j]]
        pts.append({"x": (j % nx) * 1500, "y": (j // nx) * stepy, "ph": 0, "eus": eus, "v": [cols[p][j] for p in present]})
    m = {"props": present, "pts": pts, "phases": [{"id": 0, "name": name, "pg": pg, "sg": None, "lat": lat, "atoms": []}],
         "unit": "um", "deg": not refined}
    return {"fam": "emsoft", "fmt": "emsoft", "m": m, "nd": nd,
            "extras": {"nrows": ny, "ncols": nx, "stepy": stepy, "material": material, "pg_text": pg_text, "refined": refined,
                       "nnk": nnk, "dict": dict_e, "idx": idx, "shapes": shapes},
            "layout": {"dict_pad": int(rng.integers(0, 5)), "idx_pad": int(rng.integers(0, 4)), "f32x": bool(rng.integers(2))}}


def columns_case(rng, fmt, ncols):
    ny, nx = 3, 4
    n = ny * nx
    hdr = []
    if fmt == "astar":
        hdr.append(("mark", "astar"))
    hdr += [("other",), ("phase", 1), ("name", ["Nickel"]), ("formula", ["Ni"]),
            ("mark", "emsoft") if fmt == "emsoft" else ("other",), ("sym", "43"), ("lat", [3520, 3520, 3520, 90000, 90000, 90000]),
            ("other",), ("other",)]
    rows = []
    eus = euler_ints(rng, n, 1e5, False)
    for j in range(n):
        row = eus[j] + [(j % nx) * 100000, (j // nx) * 100000]
        for k in range(5, ncols):
            row.append(100000 if k == 7 else int((k * 1000 + j * 7 + 1) * 100))
        rows.append(row[:ncols])
    return {"fmt": fmt, "ncols": ncols, "header": hdr, "rows": rows,
            "layout": {"ws": "    ", "sep": "  ", "lead": " ", "min_dec": None},
            "grid": {"nx": nx, "ny": ny, "dx": "1.00000", "dy": "1.00000"}}


def generate(ctx):
    rng = ctx.rng
    quick = ctx.tier == "quick"
    reps = 3 if quick else 18

    def emit(stratum, c):
        m = c["m"]
        ctx.count(stratum, ("c15", stratum, [p.get("eu", p.get("eus")) for p in m["pts"][:3]]), nontrivial=len(m["pts"]) > 1)
        ctx.sample({"site": "vendor_prop", "fam": c["fam"], "fmt": c["fmt"], "points": len(m["pts"]), "props": m["props"],
                    "phases": [(p["id"], p["name"], p["pg"], p["sg"]) for p in m["phases"]], "layout": c["layout"],
                    "first_point": m["pts"][0]}, cap=6)
        yield "vendor_corr", c
        yield "vendor_prop", c

    for _ in range(reps):
        for fmt in ("tsl", "tslwide", "emsoft", "astar"):
            for rep in range(6 if quick else 10):
                ni = fmt.startswith("tsl") and rep % 2 == 1
                yield from emit(f"ang/{fmt}/{'with' if ni else 'no'}-not-indexed", ang_case(rng, fmt, ni))
        for fmt in ("oxford", "bruker", "emsoft", "astar", "mtex"):
            for rep in range(5 if quick else 10):
                ni = rep % 2 == 1
                yield from emit(f"ctf/{fmt}/{'with' if ni else 'no'}-not-indexed", ctf_case(rng, fmt, ni))
        # Laue class 10 (m-3); known: a non-centrosymmetric space group is dropped because its point group is not
        # the Laue class
        for rep in range(2):
            c = ctf_case(rng, "oxford", False)
            c["extras"]["laue"][0], c["extras"]["sg"][0] = 10, 205
            c["m"]["phases"][0]["pg"], c["m"]["phases"][0]["sg"] = "m-3", 205
            yield from emit("ctf/laue_class_10", c)
        for sg, la in ((216, 11), (186, 9), (152, 7), (99, 5)):
            c = ctf_case(rng, "oxford", False)
            c["extras"]["laue"][0], c["extras"]["sg"][0] = la, sg
            c["m"]["phases"][0]["pg"], c["m"]["phases"][0]["sg"] = LAUE[la - 1], sg
            c["m"]["phases"][0]["lat"][5] = 120000 if la in (7, 9) else 90000
            yield from emit("known/ctf_noncentrosymmetric_space_group", c)
        for order in ("noroi", "rowmajor", "within_rows", "serpentine", "random"):
            for rep in range(3 if quick else 8):
                yield from emit(f"bruker/{order}/{'with' if rep % 2 else 'no'}-not-indexed", bruker_case(rng, rep % 2 == 1, order))
        # after files with region-of-interest orderings: files without a region of interest, with and without an (empty) SEM
        # group - nothing of an earlier file may carry over
        for rep in range(2 if quick else 6):
            cb = bruker_case(rng, rep % 2 == 1, "noroi")
            cb["layout"]["no_sem_group"] = bool(rep % 2 == 0)
            yield from emit(f"bruker/noroi_after_roi/{'no_sem_group' if cb['layout']['no_sem_group'] else 'empty_sem_group'}", cb)
        for refined in (False, True):
            for rep in range(5 if quick else 10):
                yield from emit(f"emsoft_h5/{'refined' if refined else 'dictionary'}", emsoft_case(rng, refined))
        # .ang in orix's own layout: one to three phases, with and without not-indexed points, extra columns
        from . import c14
        from ..gen import maps as GM
        for rep in range(8 if quick else 24):
            nph = 1 + rep % 3
            shape = [int(rng.integers(2, 7)), int(rng.integers(2, 7))]
            k = int(rng.choice([1, 1, 2]))
            c = GM.grid_case(rng, shape, nphases=nph, not_indexed=[0, 0.2, 0.4][(rep // 3) % 3], k=k,
                             props=c14.rand_props(rng, k), with_structure=False,
                             ids=None if rng.random() < 0.6 else sorted(int(x) for x in rng.choice(9, nph, replace=False)))
            c = c14.finish_case(rng, c, int(rng.integers(64)))
            if any(f(c) for f in (c14.has_unused_phase, c14.pred_extra_prop_name, c14.pred_nan_or_bool_property, c14.pred_single_point)):
                continue        # inputs on which the WRITER has open findings (C14) say nothing about the reader
            c["orix_layout"] = {"gap": ["  ", "\t", "              "][int(rng.integers(3))], "filler": bool(rng.integers(2)),
                                "pad": int(rng.integers(0, 3))}
            ni = any(p == -1 for p in c["phase_id"])
            ctx.count(f"ang/orix/{nph}ph/{'with' if ni else 'no'}-not-indexed", ("c15o", c["shape"], c["phase_id"], c["quats"][:2]))
            yield "orix_ang_corr", c
            yield "orix_ang_prop", c
        for fmt, counts in (("tsl", (8, 9, 11, 12, 13, 15)), ("emsoft", (9, 10, 12)), ("astar", (8, 10, 11))):
            for nc in counts:
                c = columns_case(rng, fmt, nc)
                ctx.count(f"columns/{fmt}", ("cols", fmt, nc, c["rows"][0]))
                yield "columns_corr", c
                yield "columns_prop", c


def run(ctx, status):
    from ..extract import gen
    io_status = gen.regen_io()
    if "__crash__" in io_status:
        ctx.fail("tgen:io_tables", io_status["__crash__"], {"stage": "I/O table extraction"}, found_input=False, kind="obligation")
        io_status = {}
    for k, v in io_status.items():
        if v not in ("extracted", "extracted (ast)", "extracted (ast+exec agree)") and not k.startswith("h5."):
            ctx.note(f"T-gen: {k} {v}")
    ctx.extra["tgen_io_tables"] = {k: v for k, v in io_status.items() if not k.startswith("h5.")}
    driver_ok = lean_phase(ctx, status, ["OrixProofs.Properties.C15"])
    if ctx.replay:
        site, case, body = sites.load_replay(ctx.replay)
        if site in SITES:
            sites.run_cases(ctx, SITES, [(site, case)], driver_ok)
    else:
        sites.run_cases(ctx, SITES, generate(ctx), driver_ok)
    return common.finish(
        ctx, "proof", PREDICATES,
        rule="per vendor variant (ang: TSL 10/14 columns, EMsoft, ASTAR; ctf: Oxford, Bruker, EMsoft, ASTAR, MTEX; "
             "h5ebsd: Bruker with/without region-of-interest ordering, EMsoft dictionary/refined): random grid sizes "
             "and steps, 1-3 phases with header ids / symmetry spellings / space groups, distinct random values in "
             "every column (swaps visible), Euler angles away from multiples of the other unit (degrees vs radians "
             "distinguishable), with and without not-indexed points, whitespace / separator / number-format / free "
             "header-line variants; plus .ang files with unexpected column counts; non-trivial = more than one point",
        assumptions=["the theorems are about the format models (file records with integer payloads in the unit of the "
                     "text column); rendering a record to text / HDF5 (harness/gen/vendors.py), numpy's number parsing "
                     "and h5py are outside them and exercised by the correspondence check",
                     "vendor layouts follow the reader docstrings and the synthetic files of the repository's own "
                     "fixtures; no real vendor software was available"])
