"""C11 — crystal-map selections compose like intersections; per-point data stays aligned."""
from __future__ import annotations

import copy
import itertools
import warnings

import numpy as np

from .. import common, sites
from ..common import f2h
from ..gen import xmap as G
from ..main import lean_phase
from . import xmap_views

FILL_I = -7


# ---------------------------------------------------------------------------------------------------
# helpers
# ---------------------------------------------------------------------------------------------------
def case_line(c):
    return " ".join(["xmap", "c11", str(c["ny"]), str(c["nx"]), f2h(c["oy"]), f2h(c["ox"]), f2h(c["dy"]),
                     f2h(c["dx"]), G.ints(c["pid"]), G.bits(c["mask"]), G.enc_props(c["props"]),
                     G.enc_entries(G.c11_phase_entries(c))] + [G.enc_key(k) for k in c["keys"]])


def parse_obs(s):
    d = {}
    for f in s.split(";"):
        if f == "LAYERS-DIFFER":
            d["LAYERS-DIFFER"] = "1"
            continue
        k, _, v = f.partition("=")
        d[k] = v
    return d


def lst(v, conv=int):
    return [] if v == "-" else [conv(x) for x in v.split(",")]


ROT_TOL = 1e-15   # Rotation.__getitem__ re-normalises unit quaternions: a few ulp(1) per component


def same_rot(a, b):
    return a.shape == b.shape and (a.size == 0 or float(np.abs(a - b).max()) <= ROT_TOL)


def same_euler(a, b):
    """Euler triplets of the same unit quaternion up to re-normalisation rounding (conditioning 1/sin(Phi))"""
    if abs(np.sin(b[1])) < 1e-4:
        return abs(a[1] - b[1]) <= 1e-7
    d = np.abs((np.asarray(a) - np.asarray(b) + np.pi) % (2 * np.pi) - np.pi)
    return bool(d.max() <= 1e-11 / abs(np.sin(b[1])) + 1e-12)


def try_(f):
    try:
        return f(), None
    except Exception as e:  # noqa: BLE001 — the exception class is the observation
        return None, G.classify_exc(e)


class Snapshot:
    """everything the root map owns, to show that selections leave their source untouched"""

    def __init__(self, xm):
        self.xm = xm
        self.mask = xm.is_in_data.copy()
        self.pid = xm._phase_id.copy()
        self.x = None if xm._x is None else np.array(xm._x).copy()
        self.y = None if xm._y is None else np.array(xm._y).copy()
        self.props = {k: np.array(dict.__getitem__(xm._prop, k)).copy() for k in xm._prop.keys()}
        self.rot = xm._rotations.data.copy()
        self.phases = [(int(i), p.name, None if p.point_group is None else p.point_group.name) for i, p in xm.phases]
        self.shape = xm._original_shape

    def diff(self):
        xm = self.xm
        if not np.array_equal(xm.is_in_data, self.mask):
            return "is_in_data of the source map changed"
        if not np.array_equal(xm._phase_id, self.pid):
            return "_phase_id changed"
        for nm, a, b in (("x", xm._x, self.x), ("y", xm._y, self.y)):
            if (a is None) != (b is None) or (a is not None and not np.array_equal(a, b)):
                return f"_{nm} changed"
        if set(xm._prop.keys()) != set(self.props):
            return "property set changed"
        for k, v in self.props.items():
            if not np.array_equal(dict.__getitem__(xm._prop, k), v):
                return f"property {k} changed"
        if not np.array_equal(xm._rotations.data, self.rot):
            return "rotations changed"
        ph = [(int(i), p.name, None if p.point_group is None else p.point_group.name) for i, p in xm.phases]
        if ph != self.phases:
            return f"phase list changed: {self.phases} -> {ph}"
        if xm._original_shape != self.shape:
            return "_original_shape changed"
        return None


def compare_map(c, xm, base, o):
    """one map of orix against one observation `o` (dict of strings) of the model; returns None or text"""
    n = c["ny"] * c["nx"]
    ids = lst(o["id"])
    got = [int(i) for i in xm.id]
    if got != ids:
        return f"id: orix {got} model {ids}"
    if o.get("LAYERS-DIFFER") or o.get("layers") != "ok":
        return "the model's coordinate-level and index-level computations differ on this input (model defect)"
    if int(xm.size) != int(o["size"]) or len(ids) != int(o["size"]):
        return f"size: orix {xm.size} model {o['size']}"
    # shape
    v, e = try_(lambda: tuple(int(i) for i in xm.shape))
    want = o["shape"]
    if e is not None or want.startswith("!"):
        if "!" + str(e) != want:
            return f"shape: orix {v if e is None else 'raises ' + e} model {want}"
    elif list(v) != lst(want):
        return f"shape: orix {v} model {want}"
    else:
        v2, e2 = try_(lambda: int(xm.ndim))
        if e2 is not None or v2 != len(v):
            return f"ndim {v2} {e2} inconsistent with shape {v}"
    # row / col
    for nm, attr in (("rows", "row"), ("cols", "col")):
        v, e = try_(lambda: [int(i) for i in getattr(xm, attr)])
        want = o[nm]
        if e is not None or want.startswith("!"):
            if "!" + str(e) != want:
                return f"{attr}: orix {v if e is None else 'raises ' + e} model {want}"
        elif v != lst(want):
            return f"{attr}: orix {v} model {want}"
    # phase id
    got = [int(i) for i in xm.phase_id]
    if got != lst(o["pid"]):
        return f"phase_id: orix {got} model {o['pid']}"
    if [bool(b) for b in xm.is_indexed] != [p != -1 for p in got]:
        return "is_indexed is not phase_id != -1"
    # x / y, bit for bit
    for nm in ("x", "y"):
        a = getattr(xm, nm)
        want = o[nm]
        if a is None or want == "N":
            if not (a is None and want == "N"):
                return f"{nm}: orix {'None' if a is None else list(a)} model {want}"
        else:
            got = ",".join(f2h(v) for v in a) if len(a) else "-"
            if got != want:
                return f"{nm}: orix {list(a)} (bits {got}) model bits {want}"
    # properties (both access paths)
    for k in c["props"]:
        want = lst(o["P" + k])
        a = [int(v) for v in xm.prop[k]]
        b = [int(v) for v in getattr(xm, k)]
        if a != want or b != want:
            return f"prop {k}: orix {a} / {b} model {want}"
    if set(xm.prop.keys()) != set(c["props"]):
        return "property names differ"
    # rotations by original id
    r = xm.rotations.data
    if r.shape[0] != len(ids) or not same_rot(r, base["rot"].data[ids]):
        return f"rotations are not those of the original points {ids}"
    v, e = try_(lambda: int(xm.rotations_per_point))
    if len(ids) and (e is not None or v != c.get("nrot", 1)):
        return f"rotations_per_point {v} {e} != {c.get('nrot', 1)}"
    # get_map_data of several kinds
    shape_ok = not o["shape"].startswith("!")
    shp = tuple(lst(o["shape"])) if shape_ok else None

    def gmd(field, call, conv, fill, exact_bits=False):
        want = o[field]
        v, e = try_(call)
        if e is not None or want.startswith("!"):
            if "!" + str(e) != want:
                return f"get_map_data[{field}]: orix {('shape ' + str(v.shape)) if e is None else 'raises ' + e} model {want}"
            return None
        toks = [] if want == "-" else want.split(",")
        if tuple(v.shape) != shp:
            return f"get_map_data[{field}] shape {tuple(v.shape)} != map shape {shp}"
        flat = v.reshape(-1)
        if len(flat) != len(toks):
            return f"get_map_data[{field}] has {len(flat)} values, model {len(toks)}"
        for j, (a, t) in enumerate(zip(flat, toks)):
            if t == "F":
                ok = (a != a) if fill is None else (a == fill)
            elif exact_bits:
                ok = f2h(a) == t
            else:
                ok = (a == conv(t))
            if not ok:
                return f"get_map_data[{field}] position {j}: orix {a} model {t} (F = fill {fill})"
        return None

    res = gmd("Gpid", lambda: xm.get_map_data("phase_id", fill_value=FILL_I), int, FILL_I)
    if res:
        return res
    res = gmd("Gid", lambda: xm.get_map_data("id"), int, None)
    if res:
        return res
    if xm.x is not None:
        res = gmd("Gx", lambda: xm.get_map_data("x"), None, None, exact_bits=True)
        if res:
            return res
    for k in c["props"]:
        res = gmd("G" + k, lambda: xm.get_map_data(k, fill_value=-3), int, -3)
        if res:
            return res
    if not o["Gid"].startswith("!"):
        toks = [] if o["Gid"] == "-" else o["Gid"].split(",")
        v, e = try_(lambda: xm.get_map_data("rotations"))
        if e is not None:
            return f"get_map_data('rotations') raises {e}"
        if tuple(v.shape) != shp + (3,):
            return f"get_map_data('rotations') shape {v.shape} != {shp + (3,)}"
        flat = v.reshape(-1, 3)
        for j, t in enumerate(toks):
            if t == "F":
                if not np.all(np.isnan(flat[j])):
                    return f"get_map_data('rotations') position {j} should be the fill value"
            elif not same_euler(flat[j], base["euler"][int(t)]):
                return f"get_map_data('rotations') position {j} is not the rotation of original point {t}"
        # the per-phase variant (needs a point group for every phase in the data, otherwise orix raises): same placement
        v2, e2 = try_(lambda: xm.get_map_data("orientations"))
        if e2 is None:
            if tuple(v2.shape) != shp + (3,):
                return f"get_map_data('orientations') shape {v2.shape} != {shp + (3,)}"
            f2 = v2.reshape(-1, 3)
            for j, t in enumerate(toks):
                if t == "F":
                    if not np.all(np.isnan(f2[j])):
                        return f"get_map_data('orientations') position {j} should be the fill value"
                elif not same_euler(f2[j], base["euler"][int(t)]):
                    return f"get_map_data('orientations') position {j} is not the orientation of original point {t}"
        # a boolean attribute
        v, e = try_(lambda: xm.get_map_data("is_indexed", fill_value=False))
        if e is not None or tuple(v.shape) != shp:
            return f"get_map_data('is_indexed') {e} {None if v is None else v.shape}"
        for j, t in enumerate(toks):
            w = False if t == "F" else (c["pid"][int(t)] != -1)
            if bool(v.reshape(-1)[j]) != w:
                return f"get_map_data('is_indexed') position {j}: orix {v.reshape(-1)[j]} expected {w}"
    return None


def base_of(c, xm):
    rot = xm._rotations
    r0 = rot[:, 0] if c.get("nrot", 1) > 1 else rot
    return {"rot": copy.deepcopy(rot), "euler": r0.to_euler()}


def run_history(c, outs_line):
    """returns (None | failure text, index of failing step or None)"""
    obs = outs_line.split(" | ")
    if outs_line.startswith("!err") or len(obs) != len(c["keys"]) + 1:
        return f"driver answered {outs_line[:120]}", None
    xm0 = G.build_map(c)
    base = base_of(c, xm0)
    entries = [(int(i), p.name, None if p.point_group is None else p.point_group.name) for i, p in xm0.phases]
    want = [(e[0], e[1], e[2]) for e in G.c11_phase_entries(c)]
    if entries != want:
        return f"phase list after construction {entries} != expected {want}", None
    snap0 = Snapshot(xm0)
    r = compare_map(c, xm0, base, parse_obs(obs[0]))
    if r:
        return "initial map: " + r, -1
    cur = xm0
    for t, key in enumerate(c["keys"]):
        o = parse_obs(obs[t + 1])
        cur_mask = cur.is_in_data.copy()
        new, e = try_(lambda: cur[G.py_key(key)])
        if "E" in o or e is not None:
            if o.get("E") != e:
                return (f"step {t} key {key}: orix {'raises ' + e if e else 'returns ids ' + str(list(new.id))} "
                        f"model {'raises ' + o['E'] if 'E' in o else 'returns ids ' + o.get('id', '?')}"), t
        else:
            r = compare_map(c, new, base, o)
            if r:
                return f"step {t} key {key}: " + r, t
        d = snap0.diff()
        if d:
            return f"step {t} key {key}: root map modified: {d}", t
        if not np.array_equal(cur.is_in_data, cur_mask):
            return f"step {t} key {key}: the indexed map's is_in_data was modified", t
        if e is None:
            cur = new
    return None, None


def shrink_history(c, fails, budget=14):
    """drop history steps while `fails(case)` stays true; returns the smaller case"""
    best = c
    i = len(best["keys"]) - 1
    while i >= 0 and budget > 0:
        cand = dict(best)
        cand["keys"] = best["keys"][:i] + best["keys"][i + 1:]
        budget -= 1
        try:
            if fails(cand):
                best = cand
        except Exception:  # noqa: BLE001
            pass
        i -= 1
    return best


# ---------------------------------------------------------------------------------------------------
# corr sites
# ---------------------------------------------------------------------------------------------------
def history_lines(c):
    return [case_line(c)]


def history_check(ctx, c, outs):
    warnings.simplefilter("ignore")
    res, t = run_history(c, outs[0])
    if res is None:
        return None
    if t is not None and t >= 0 and len(c["keys"]) > 1:
        full = len(c["keys"])
        c["keys"] = c["keys"][:t + 1]
        drv = common.Driver(ctx)

        def fails(cand):
            return run_history(cand, drv.run([case_line(cand)])[0])[0] is not None
        small = shrink_history(c, fails)
        c["keys"] = small["keys"]
        res2, _ = run_history(c, drv.run([case_line(c)])[0])
        res = (res2 or res) + f" [history shrunk from {full} to {len(c['keys'])} steps]"
    return res


SL_VALS = [None] + list(range(-7, 8))
SL_STEPS = [None, -3, -2, -1, 0, 1, 2, 3]


def slice_lines(c):
    L = c["L"]
    f = lambda v: "_" if v is None else str(v)  # noqa: E731
    return [f"xmap slice {L} {f(a)} {f(b)} {f(s)}" for a in SL_VALS for b in SL_VALS for s in SL_STEPS]


def slice_check(ctx, c, outs):
    L = c["L"]
    for (a, b, s), o in zip(itertools.product(SL_VALS, SL_VALS, SL_STEPS), outs):
        try:
            want = G.ints(range(L)[slice(a, b, s)])
        except ValueError:
            want = "!err zero-step"
        if o != want:
            return f"range({L})[slice({a},{b},{s})] = {want} but model PySlice.indices = {o}"
        if s != 0:
            z = np.zeros(L, bool)
            z[slice(a, b, s)] = True
            if G.ints(np.nonzero(z)[0]) != G.ints(sorted(range(L)[slice(a, b, s)])):
                return f"numpy basic slicing differs from range({L})[slice({a},{b},{s})]"
    return None


# ---------------------------------------------------------------------------------------------------
# prop sites: the property's predicates on orix against the set-semantics reference
# ---------------------------------------------------------------------------------------------------
def ref_of(c):
    n = c["ny"] * c["nx"]
    return G.Ref(c["ny"], c["nx"], c["pid"], [(e[0], e[1]) for e in G.c11_phase_entries(c)],
                 [p for p in range(n) if c["mask"][p]])


def check_against_ref(c, xm, ref, base, x, y, where):
    S = ref.S
    got = [int(i) for i in xm.id]
    if got != S:
        extra = sorted(set(got) - set(S))
        miss = sorted(set(S) - set(got))
        return f"{where}: ids {got} but the reference selects {S} (extra {extra}, missing {miss})"
    if xm.size != len(S):
        return f"{where}: size {xm.size} != {len(S)}"
    if [int(v) for v in xm.phase_id] != [c["pid"][p] for p in S]:
        return f"{where}: phase_id not aligned with ids"
    if xm.x is not None and not np.array_equal(xm.x, x[S]):
        return f"{where}: x not aligned with ids"
    if xm.y is not None and not np.array_equal(xm.y, y[S]):
        return f"{where}: y not aligned with ids"
    if (xm.x is None) != (c["nx"] == 1) or (xm.y is None) != (c["ny"] == 1):
        return f"{where}: x/y None-ness does not match the grid"
    for k, v in c["props"].items():
        if [int(a) for a in xm.prop[k]] != [v[p] for p in S]:
            return f"{where}: property {k} not aligned with ids"
    if not same_rot(xm.rotations.data, base["rot"].data[S]):
        return f"{where}: rotations not aligned with ids"
    if not S:
        return None
    shp = ref.shape()
    v, e = try_(lambda: tuple(int(i) for i in xm.shape))
    if e is not None or v != shp:
        return f"{where}: shape {v} {e or ''} is not the bounding box {shp} of the selected points"
    v, e = try_(lambda: ([int(i) for i in xm.row], [int(i) for i in xm.col]))
    if e is not None or v != (ref.rows(), ref.cols()):
        return f"{where}: row/col {v} {e or ''} != reference {(ref.rows(), ref.cols())}"
    rows, cols = ref.rows(), ref.cols()
    H, W = max(rows) + 1, max(cols) + 1
    for item, vals, fill in (("phase_id", [c["pid"][p] for p in S], FILL_I), ("id", S, None)) + tuple(
            (k, [pv[p] for p in S], 99) for k, pv in c["props"].items()):
        v, e = try_(lambda: xm.get_map_data(item) if fill is None else xm.get_map_data(item, fill_value=fill))
        if e is not None:
            return f"{where}: get_map_data({item!r}) raises {e}"
        if int(np.prod(v.shape)) != H * W or tuple(v.shape) != shp:
            return f"{where}: get_map_data({item!r}) shape {v.shape} != {shp}"
        a = v.reshape(H, W)
        exp = {(r, cc): val for r, cc, val in zip(rows, cols, vals)}
        for r in range(H):
            for cc in range(W):
                if (r, cc) in exp:
                    if a[r, cc] != exp[(r, cc)]:
                        return f"{where}: get_map_data({item!r})[{r},{cc}] = {a[r, cc]} != {exp[(r, cc)]}"
                elif not ((a[r, cc] != a[r, cc]) if fill is None else a[r, cc] == fill):
                    return f"{where}: get_map_data({item!r})[{r},{cc}] = {a[r, cc]} is not the fill value"
    # rotations (first one per point) as Euler angles
    v, e = try_(lambda: xm.get_map_data("rotations"))
    if e is not None:
        return f"{where}: get_map_data('rotations') raises {e}"
    if tuple(v.shape) != shp + (3,):
        return f"{where}: get_map_data('rotations') shape {v.shape} != {shp + (3,)}"
    a = v.reshape(H, W, 3)
    exp = {(r, cc): p for r, cc, p in zip(rows, cols, S)}
    for r in range(H):
        for cc in range(W):
            if (r, cc) in exp:
                if not same_euler(a[r, cc], base["euler"][exp[(r, cc)]]):
                    return f"{where}: get_map_data('rotations')[{r},{cc}] is not the rotation of point {exp[(r, cc)]}"
            elif not np.all(np.isnan(a[r, cc])):
                return f"{where}: get_map_data('rotations')[{r},{cc}] is not the fill value"
    return None


def setsem_run(c):
    xm0 = G.build_map(c)
    base = base_of(c, xm0)
    x, y = G.coords(c)
    ref = ref_of(c)
    snap = Snapshot(xm0)
    r = check_against_ref(c, xm0, ref, base, x, y, "initial map")
    if r:
        return r
    cur = xm0
    for t, key in enumerate(c["keys"]):
        try:
            nref = ref.select(key)
        except G.RefError:
            nref = None
        new, e = try_(lambda: cur[G.py_key(key)])
        if nref is None:
            continue            # the reference leaves this step undefined: whatever orix does is accepted
        if e is not None:
            return f"step {t} key {key}: orix raises {e} but the reference selects {nref.S}"
        if not set(int(i) for i in new.id) <= set(int(i) for i in cur.id):
            return f"step {t} key {key}: result contains points absent from the map being indexed"
        r = check_against_ref(c, new, nref, base, x, y, f"step {t} key {key}")
        if r:
            return r
        d = snap.diff()
        if d:
            return f"step {t} key {key}: source map modified: {d}"
        cur, ref = new, nref
    return None


def setsem_check(ctx, c, outs):
    warnings.simplefilter("ignore")
    res = setsem_run(c)
    if res is not None and len(c["keys"]) > 1:
        full = len(c["keys"])
        small = shrink_history(c, lambda cand: setsem_run(cand) is not None, budget=40)
        c["keys"] = small["keys"]
        res = (setsem_run(c) or res) + f" [history shrunk from {full} to {len(c['keys'])} steps]"
    return res


def geom_check(ctx, c, outs):
    """the same history on the same grid with origin 0 / step 1 selects the same points, rows, columns"""
    c0 = dict(c)
    c0.update({"oy": 0.0, "ox": 0.0, "dy": 1.0, "dx": 1.0})
    a, b = G.build_map(c), G.build_map(c0)
    for t, key in enumerate(c["keys"]):
        na, ea = try_(lambda: a[G.py_key(key)])
        nb, eb = try_(lambda: b[G.py_key(key)])
        if ea != eb:
            return f"step {t} key {key}: raises {ea} with origin/step of the case, {eb} with origin 0 / step 1"
        if ea is not None:
            continue
        if not np.array_equal(na.id, nb.id):
            return (f"step {t} key {key}: ids {list(na.id)} with origin ({c['oy']},{c['ox']}) step ({c['dy']},{c['dx']}) "
                    f"but {list(nb.id)} with origin 0 / step 1")
        if na.size:
            if na.shape != nb.shape or not np.array_equal(na.row, nb.row) or not np.array_equal(na.col, nb.col):
                return f"step {t} key {key}: shape/row/col depend on origin or step"
        a, b = na, nb
    return None


def item_check(ctx, c, outs):
    """get_map_data(ndarray): each value lands at the (row, col) of its point"""
    xm = G.build_map(c)
    ref = ref_of(c)
    for key in c["keys"]:
        try:
            nref = ref.select(key)
            xm = xm[G.py_key(key)]
            ref = nref
        except Exception:  # noqa: BLE001
            return None
    if not ref.S:
        return None
    vals = np.array(c["item"][:len(ref.S)]) if c["item_dtype"] == "int" else np.array(c["item"][:len(ref.S)], float) / 4
    if len(vals) != len(ref.S):
        return None
    v, e = try_(lambda: xm.get_map_data(vals, fill_value=-1))
    if e is not None:
        return f"get_map_data(array of {len(vals)} values) raises {e}"
    shp = ref.shape()
    if tuple(v.shape) != shp:
        return f"get_map_data(array of {len(vals)} values) has shape {tuple(v.shape)}, map shape is {shp}"
    rows, cols = ref.rows(), ref.cols()
    W = max(cols) + 1
    flat = v.reshape(-1)
    exp = {r * W + cc: val for r, cc, val in zip(rows, cols, vals)}
    for j in range(len(flat)):
        if flat[j] != exp.get(j, -1):
            return f"get_map_data(array)[{j // W},{j % W}] = {flat[j]} != {exp.get(j, -1)}"
    return None


SITES = {
    "history": sites.Site("history", "corr", history_check, history_lines),
    "slice_kernel": sites.Site("slice_kernel", "corr", slice_check, slice_lines),
    "set_semantics": sites.Site("set_semantics", "prop", setsem_check),
    "geometry": sites.Site("geometry", "prop", geom_check),
    "map_data_item": sites.Site("map_data_item", "prop", item_check),
    "live_views": sites.Site("live_views", "prop", xmap_views.views_read_check),
    "same_name": sites.Site("same_name", "prop", xmap_views.same_name_check),
}


# narrow classifiers of failing cases for known_findings.json


def pred_grid_1x1(case):
    """original grid of one point, and the failure is the crash of row / col / get_map_data"""
    if not (case.get("ny") == 1 and case.get("nx") == 1):
        return False
    with warnings.catch_warnings():
        warnings.simplefilter("ignore")
        msg = setsem_run(case) or ""
    return "degenerate" in msg


PREDICATES = {"grid_1x1": pred_grid_1x1}


def tally(ctx, stratum):
    """secondary stratum counter (does not count as an evaluation)"""
    ctx.strata[stratum] = ctx.strata.get(stratum, 0) + 1


def generate(ctx):
    rng = ctx.rng
    quick = ctx.tier == "quick"
    for L in range(0, 6 if quick else 8):
        ctx.count("slice_kernel", ("sl", L), nontrivial=L > 0)
        yield "slice_kernel", {"L": L}
    n_hist = 700 if quick else 4000
    forced = ["one", "row", "col", "1d", "thin", "2d"]
    for i in range(n_hist):
        c, strata = G.gen_c11_case(rng, ctx.tier, kind=forced[i] if i < len(forced) else None)
        seq = [k["t"] for k in c["keys"]]
        nontrivial = len(c["keys"]) >= 2 and c["ny"] * c["nx"] > 1
        ctx.count(f"history/grid={c['kind']}", ("h", c["ny"], c["nx"], c["pid"], c["mask"], G.ints([]), repr(c["keys"])),
                  nontrivial=nontrivial)
        tally(ctx, f"history/geom={c['geom']}")
        tally(ctx, f"history/len={min(len(c['keys']), 12)}")
        for st in set(strata):
            tally(ctx, "key/" + st)
        for a, b in zip(seq, seq[1:]):
            tally(ctx, f"pair/{a}-then-{b}")
        if not all(c["mask"]):
            tally(ctx, "history/initial-mask")
        if c.get("nrot", 1) > 1:
            tally(ctx, "history/several-rotations-per-point")
        if i % 40 == 0:
            ctx.sample({"site": "history", **c})
        yield "history", c
        c2 = copy.deepcopy(c)
        ctx.count("set_semantics", None)
        yield "set_semantics", c2
        if i % 2 == 0 and c["ny"] * c["nx"] > 1:
            ctx.count("geometry", None)
            yield "geometry", copy.deepcopy(c)
    n_item = 150 if quick else 1000
    for i in range(n_item):
        c, _ = G.gen_c11_case(rng, ctx.tier, kind=["2d", "row", "col", "thin"][i % 4], length=int(rng.integers(0, 3)))
        c["item"] = [int(v) for v in rng.integers(0, 40, c["ny"] * c["nx"])]
        c["item_dtype"] = ["int", "float"][i % 2]
        ctx.count("map_data_item", ("it", c["ny"], c["nx"], c["mask"], repr(c["keys"]), c["item"]))
        yield "map_data_item", c


def generate_views(ctx):
    rng = ctx.rng
    for i in range(60 if ctx.tier == "quick" else 600):
        c = xmap_views.gen_views_case(rng, assign=False)
        ctx.count("live_views", ("lv", i, tuple(c["shape"]), tuple(c["order"])))
        yield "live_views", c
    # selection by a name that several phases carry
    for i in range(12 if ctx.tier == "quick" else 120):
        n = int(rng.integers(4, 10))
        pid = [int(x) for x in rng.integers(-1 if i % 3 == 0 else 0, 3, n)]
        c = {"phase_id": pid, "rename": [None, ["ferrite"], ["a", "b", "a"], ["x", "x", "y"]][i % 4], "tuple": bool(i % 5 == 0)}
        ctx.count(f"same_name/{'unnamed' if c['rename'] is None else 'renamed'}", ("sn", i, tuple(pid)))
        yield "same_name", c


def run(ctx, status):
    driver_ok = lean_phase(ctx, status, ["OrixProofs.Properties.C11"])
    if ctx.replay:
        site, case, body = sites.load_replay(ctx.replay)
        if site in SITES:
            sites.run_cases(ctx, SITES, [(site, case)], driver_ok)
    else:
        sites.run_cases(ctx, SITES, list(generate(ctx)) + list(generate_views(ctx)), driver_ok)
    return common.finish(
        ctx, "proof", PREDICATES,
        rule="seeded stratified generation of grids (2-D, (1,n), (n,1), 1-D, (1,1), thin), origins/steps (unit, integer "
             "origin, dyadic, decimal, large offsets), phase-id patterns, initial masks, 1-3 rotations per point, 0-3 "
             "properties and selection histories (ints, negative ints, plain/open/negative/stepped/reversed/empty/"
             "over-wide slices, tuples, boolean masks with holes inside / shrinking the bounding box / wrong length, "
             "phase names, indexed/not_indexed, error keys), generated while tracking the current map with a pure-Python "
             "set-semantics reference; a history is non-trivial when it has at least two steps on a grid with more "
             "than one point; distinct by hash of grid, phase ids, mask and key sequence",
        assumptions=["numpy basic indexing and boolean-mask assignment follow the documented semantics (the slice "
                     "kernel of the model is compared exhaustively with Python's slice.indices and numpy on small "
                     "lengths on every run)",
                     "floating-point division and rounding in _data_slices_from_coordinates recover the integer "
                     "index (proved for exact arithmetic; measured by the correspondence check for floats)"])
