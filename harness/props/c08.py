"""C08 — inverse pole figure colours respect crystal symmetry."""
from __future__ import annotations

import warnings

import numpy as np

from .. import common, sites
from ..common import f2h, h2f
from ..gen import quat as GQ
from ..main import lean_phase
from . import c07

MARGIN = 1e-6
TOL_RGB = 1e-6


def key_for(k):
    from orix.plot import DirectionColorKeyTSL
    from orix.quaternion import symmetry as S
    return DirectionColorKeyTSL(S._groups[k]), S._groups[k]


def colours(key, v):
    from orix.vector import Vector3d
    with warnings.catch_warnings():
        warnings.simplefilter("ignore")
        return key.direction2color(Vector3d(np.asarray(v, float)))


def off_boundary(k, v):
    """every equivalent of v is at least MARGIN away from every wall of the Laue sector"""
    G, fs, n, m = c07.sector_data(k, "laue")
    u = np.einsum("gij,j->gi", m, np.asarray(v, float))
    u = u / np.linalg.norm(u, axis=1, keepdims=True)
    return not len(n) or bool(np.min(np.abs(u @ n.T)) > MARGIN)


# ---- corr: colour arithmetic -----------------------------------------------------------------
def hsl_lines(c):
    a = " ".join(f2h(x) for x in (c["h"], c["s"], c["l"]))
    return [f"kern m hslToHsv f {a}", f"kern g hsl_to_hsv f {a}",
            f"kern m rgbOfHuePolar f {f2h(c['h'])} {f2h(c['p'])}"]


def hsl_check(ctx, c, outs):
    from orix.plot.direction_color_keys._util import hsl_to_hsv, rgb_from_polar_coordinates
    model = [h2f(x) for x in outs[0].split()]
    if not outs[1].startswith("!err unknown"):
        gen = [h2f(x) for x in outs[1].split()]
        if not np.allclose(gen, model, rtol=0, atol=1e-15, equal_nan=True):
            return f"generated hsl_to_hsv {gen} != model {model}"
    with np.errstate(all="ignore"):
        impl = [float(np.asarray(x).reshape(-1)[0]) for x in
                hsl_to_hsv(np.array([c["h"]]), np.array([c["s"]]), np.array([c["l"]]))]
    if not np.allclose(impl, model, rtol=0, atol=1e-14, equal_nan=True):
        return f"hsl_to_hsv({c['h']}, {c['s']}, {c['l']}) = {impl} but model = {model}"
    rgb_m = [h2f(x) for x in outs[2].split()]
    az = c["h"] * 2 * np.pi
    rgb_i = rgb_from_polar_coordinates(np.array([az]), np.array([0.5 + c["p"] / 2])).reshape(-1)
    d = np.abs(rgb_i - np.array(rgb_m)).max()
    ctx.dev("rgb_abs", d)
    if d > 1e-9:
        return (f"rgb_from_polar_coordinates(azimuth={az}, polar={0.5 + c['p'] / 2}) = {rgb_i.tolist()} but the HSL->HSV->RGB "
                f"model gives {rgb_m}")
    return None


# ---- prop ----------------------------------------------------------------------------------
def direction_check(ctx, c, outs):
    key, G = key_for(c["k"])
    v = np.asarray(c["v"], float)
    rgb = colours(key, [v])
    if rgb.shape != (1, 3):
        return f"colour array has shape {rgb.shape}, expected (1, 3)"
    if not np.isfinite(rgb).all() or rgb.min() < -1e-12 or rgb.max() > 1 + 1e-12:
        return f"colour {rgb.tolist()} of direction {v.tolist()} is not a finite RGB triplet in [0,1]"
    shp = tuple(c.get("shape", (2, 3)))
    block = np.broadcast_to(v, shp + (3,)).copy()
    r2 = colours(key, block)
    if r2.shape != shp + (3,):
        return f"colour array of directions with shape {shp} has shape {r2.shape}"
    if not off_boundary(c["k"], v):
        return None
    L, fs, n, m = c07.sector_data(c["k"], "laue")
    eq = np.einsum("gij,j->gi", m, v)
    cols = colours(key, eq)
    d = np.abs(cols - rgb[0]).max()
    ctx.dev("colour_spread_over_orbit", d)
    if d > TOL_RGB:
        j = int(np.argmax(np.abs(cols - rgb[0]).max(axis=1)))
        return (f"{G.name}: directions equivalent under the Laue group get different colours: {v.tolist()} -> "
                f"{rgb[0].tolist()} but {eq[j].tolist()} -> {cols[j].tolist()}")
    return None


_FIRST = {}      # (group index, role, direction) -> colour computed the first time in this process


def recolour_check(ctx, c, outs):
    """the colour of a direction depends only on the group and the direction: computing it again later in the same
    process, after keys of other groups were used (and with a freshly built key), gives bit-identical channels"""
    k = c["k"]
    v = np.asarray(c["v"], float).reshape(-1, 3)
    tag = (k, tuple(map(tuple, v.tolist())))
    try:
        col = colours(key_for(k)[0], v)
    except Exception as e:
        return f"{c['name']}: colour computation raised {type(e).__name__}: {str(e)[:200]}"
    if c["phase"] == "first":
        _FIRST[tag] = col
        return None
    first = _FIRST.get(tag)
    if first is None:      # replay of a 'again' case alone: establish the reference in a fresh interpreter
        import json as _json
        import subprocess
        import sys
        code = ("import json,sys,numpy as np\nfrom orix.quaternion import symmetry as S\nfrom orix.vector import Vector3d\n"
                "from orix.plot.direction_color_keys import DirectionColorKeyTSL\n"
                "k=int(sys.argv[1]);v=np.array(json.loads(sys.argv[2]))\n"
                "G=list(S._groups)[k]\nprint(json.dumps(DirectionColorKeyTSL(G).direction2color(Vector3d(v)).tolist()))")
        pr = subprocess.run([sys.executable, "-c", code, str(k), _json.dumps(v.tolist())], capture_output=True, text=True)
        if pr.returncode != 0:
            return None
        first = np.array(_json.loads(pr.stdout.strip().split("\n")[-1]))
        # in a replay, pollute as the original run did: use the keys of the groups used before
        for kk in c.get("used_before", []):
            try:
                colours(key_for(kk)[0], v)
            except Exception:
                pass
        col = colours(key_for(k)[0], v)
    d = np.abs(col - first)
    d = np.where(np.isnan(col) & np.isnan(first), 0.0, d)
    if not (d <= 0).all():
        i = int(np.argmax(np.nan_to_num(d, nan=9.0).max(axis=1)))
        return (f"{c['name']}: the colour of direction {v[i].tolist()} was {first[i].tolist()} when first computed and is "
                f"{col[i].tolist()} after the colour keys of other groups were used in the same process")
    return None


def orientation_check(ctx, c, outs):
    from orix.plot import IPFColorKeyTSL
    from orix.quaternion import Orientation, Rotation
    from orix.quaternion import symmetry as S
    from orix.vector import Vector3d
    G = S._groups[c["k"]]
    d = Vector3d(np.asarray(c["dir"], float))
    with warnings.catch_warnings():
        warnings.simplefilter("ignore")
        key = IPFColorKeyTSL(G, direction=d)
        O = Orientation(np.asarray(c["q"], float).reshape(1, 4), symmetry=G)
        rgb = key.orientation2color(O)
        if rgb.shape != (1, 3) or not np.isfinite(rgb).all() or rgb.min() < -1e-12 or rgb.max() > 1 + 1e-12:
            return f"orientation colour {rgb.tolist()} is not a finite RGB triplet in [0,1] with shape (1,3)"
        h = (O * d).data.reshape(3)
        direct = colours(key.direction_color_key, [h])
        if np.abs(direct - rgb).max() > 1e-12:
            return "orientation colour differs from the colour of the crystal direction O*v"
        if not off_boundary(c["k"], h):
            return None
        # all orientations equivalent under the Laue group get the same colour
        L = G.laue
        eq = Rotation(L).outer(Rotation(O)).flatten()
        Oe = Orientation(eq.data, symmetry=G)
        Oe.improper = eq.improper
        cols = key.orientation2color(Oe)
    dmax = np.abs(cols - rgb[0]).max()
    ctx.dev("colour_spread_over_equivalent_orientations", dmax)
    if dmax > TOL_RGB:
        return (f"{G.name}: symmetrically equivalent orientations get different IPF colours (spread {dmax:.3e}) for "
                f"q = {c['q']}, sample direction {c['dir']}")
    return None


def cubic_check(ctx, c, outs):
    from orix.quaternion.symmetry import Oh
    from orix.plot import DirectionColorKeyTSL
    key = DirectionColorKeyTSL(Oh)
    with warnings.catch_warnings():
        warnings.simplefilter("ignore")
        fs = Oh.fundamental_sector
        corners = colours(key, [[0, 0, 1], [1, 0, 1], [1, 1, 1]])
        centre = colours(key, fs.center.data.reshape(1, 3))[0]
        inside = np.asarray(c["inside"], float)
        cols = colours(key, inside)
    want = np.eye(3)
    if np.abs(corners - want).max() > 0.02:
        return f"cubic key corners [001],[101],[111] are {corners.round(3).tolist()}, expected red, green, blue"
    if centre.sum() < 3 - 1e-6:
        return f"cubic key centre colour {centre.tolist()} is not white"
    if (cols.sum(axis=1) > centre.sum() + 1e-9).any():
        return "a direction inside the cubic sector is lighter than the sector centre"
    return None


SITES = {
    "colour_arith": sites.Site("colour_arith", "corr", hsl_check, hsl_lines),
    "direction_colour": sites.Site("direction_colour", "prop", direction_check),
    "orientation_colour": sites.Site("orientation_colour", "prop", orientation_check),
    "cubic_key": sites.Site("cubic_key", "prop", cubic_check),
    "recolour": sites.Site("recolour", "prop", recolour_check),
}
PREDICATES = {}


def generate(ctx, status):
    rng = ctx.rng
    n = 60 if ctx.tier == "quick" else 1500
    for i in range(n):
        s = i % 4
        c = {"h": float(rng.random()), "s": 1.0 if s else float(rng.random()),
             "l": float(0.5 + rng.random() / 2) if s < 3 else float(rng.random()), "p": float(rng.random())}
        if i % 10 == 0:
            c["l"] = [0.5, 1.0][(i // 10) % 2]
            c["p"] = [0.0, 1.0][(i // 10) % 2]
        ctx.count("colour_arith", ("h", c["h"], c["l"]))
        yield "colour_arith", c
    from orix.quaternion import symmetry as S
    per = 12 if ctx.tier == "quick" else 150
    # order independence: a few directions per group now (first use of each key) and again at the very end, in a seeded
    # random group order, after every other key has been used
    again = []
    for k, G in enumerate(S._groups):
        vs = [GQ.vec(rng) for _ in range(4)]
        c = {"k": k, "name": G.name, "label": f"laue({G.name})", "v": vs, "phase": "first"}
        yield "recolour", c
        again.append(dict(c, phase="again", used_before=list(range(len(S._groups)))))
    for k, G in enumerate(S._groups):
        Gl, fs, nrm, m = c07.sector_data(k, "laue")
        for v, tag in c07.directions(rng, nrm, per):
            ctx.count(f"direction_colour/{tag}", ("d", k, tuple(v)), nontrivial=len(m) > 2)
            yield "direction_colour", {"k": k, "name": G.name, "label": f"laue({G.name})", "v": v,
                                       "shape": [int(x) for x in rng.integers(1, 4, size=rng.integers(1, 3))]}
        for _ in range(max(2, per // 4)):
            q, s = GQ.unit_quat(rng)
            d = GQ.vec(rng)
            ctx.count(f"orientation_colour/{s}", ("o", k, tuple(q)), nontrivial=True)
            yield "orientation_colour", {"k": k, "name": G.name, "label": f"laue({G.name})", "q": q, "dir": d}
    for j in rng.permutation(len(again)):
        ctx.count("recolour/again", ("rc", int(j)), nontrivial=True)
        yield "recolour", again[int(j)]
    for j in rng.permutation(len(again))[:12]:     # and once more, a different order
        yield "recolour", again[int(j)]
    ctx.sample({"site": "direction_colour", "k": 37, "v": v})
    w = rng.random((40, 3))
    w /= w.sum(axis=1, keepdims=True)
    pts = w @ np.array([[0, 0, 1.0], [1, 0, 1.0] / np.sqrt(2), [1, 1, 1.0] / np.sqrt(3)])
    ctx.count("cubic_key", ("cubic", 0))
    yield "cubic_key", {"inside": pts.tolist()}


def near_wall(case, width):
    """some Laue-equivalent of the case's crystal direction is within `width` (sine of the angle) of a sector wall"""
    from ..props.c04 import hmul
    if "v" in case:
        h = np.asarray(case["v"], float).reshape(-1, 3)[0]
    else:
        q = np.asarray(case["q"], float)
        q = q / np.linalg.norm(q)
        vq = np.concatenate([[0.0], np.asarray(case["dir"], float)])
        qc = q * np.array([1, -1, -1, -1.0])
        h = hmul(hmul(q[None], vq[None]), qc[None])[0, 1:]
    G, fs, n, m = c07.sector_data(case["k"], "laue")
    u = np.einsum("gij,j->gi", m, h)
    u = u / np.linalg.norm(u, axis=1, keepdims=True)
    return bool(len(n)) and bool(np.min(np.abs(u @ n.T)) < width)


def run(ctx, status):
    def pred(eid):
        def f(case):
            for e in common.load_findings().get("findings", []):
                if e["id"] == eid:
                    if case.get("label") not in e.get("members", []):
                        return False
                    return near_wall(case, e["band"]) if "band" in e else True
            return False
        return f
    for e in common.load_findings().get("findings", []):
        if e.get("property") == ctx.prop:
            PREDICATES[e["predicate"]] = pred(e["id"])
    st = status["sectors"]
    driver_ok = lean_phase(ctx, status, ["OrixProofs.Properties.C08"], kernels=["hsl_to_hsv"],
                           gen_theorems=st["theorems"])
    if ctx.replay:
        site, case, body = sites.load_replay(ctx.replay)
        if site in SITES:
            sites.run_cases(ctx, SITES, [(site, case)], driver_ok)
    else:
        sites.run_cases(ctx, SITES, generate(ctx, status), driver_ok)
    return common.finish(
        ctx, "proof", PREDICATES,
        rule="colour arithmetic on seeded (hue, saturation, lightness, polar) incl. end points; for all 38 point-group "
             "objects: stratified directions (as C07) and random orientations x sample directions; a case is non-trivial "
             "when the Laue group has more than 2 operations; the cubic-key clause on 40 barycentric points",
        assumptions=["matplotlib hsv_to_rgb is modelled by the standard sextant algorithm (compared on every run)",
                     "vertex/centre colours depend on the 1000-step numeric azimuth table: measured (tolerance 0.02), not proved",
                     "symmetry invariance is inherited from C07 for the exact-centre model; on the implementation it is "
                     "checked off the sector boundary (margin 1e-6)"])
