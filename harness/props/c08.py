"""C08 — inverse pole figure colours respect crystal symmetry."""
from __future__ import annotations

import warnings

import numpy as np

from .. import common, sites
from ..common import f2h, h2f
from ..gen import quat as GQ
from ..main import lean_phase
from . import c07

MARGIN = 1e-6
TOL_RGB = 1e-6


def key_for(k):
    from orix.plot import DirectionColorKeyTSL
    from orix.quaternion import symmetry as S
    return DirectionColorKeyTSL(S._groups[k]), S._groups[k]


def colours(key, v):
    from orix.vector import Vector3d
    with warnings.catch_warnings():
        warnings.simplefilter("ignore")
        return key.direction2color(Vector3d(common.relayout(np.asarray(v, float), [float(x) for x in np.asarray(v, float).reshape(-1)[:3]])))


def off_boundary(k, v):
    """every equivalent of v is at least MARGIN away from every wall of the Laue sector"""
    G, fs, n, m = c07.sector_data(k, "laue")
    u = np.einsum("gij,j->gi", m, np.asarray(v, float))
    u = u / np.linalg.norm(u, axis=1, keepdims=True)
    return not len(n) or bool(np.min(np.abs(u @ n.T)) > MARGIN)


# ---- corr: colour arithmetic -----------------------------------------------------------------
def hsl_lines(c):
    a = " ".join(f2h(x) for x in (c["h"], c["s"], c["l"]))
    return [f"kern m hslToHsv f {a}", f"kern g hsl_to_hsv f {a}",
            f"kern m rgbOfHuePolar f {f2h(c['h'])} {f2h(c['p'])}"]


def hsl_check(ctx, c, outs):
    from orix.plot.direction_color_keys._util import hsl_to_hsv, rgb_from_polar_coordinates
    model = [h2f(x) for x in outs[0].split()]
    if not outs[1].startswith("!err unknown"):
        gen = [h2f(x) for x in outs[1].split()]
        if not np.allclose(gen, model, rtol=0, atol=1e-15, equal_nan=True):
            return f"generated hsl_to_hsv {gen} != model {model}"
    with np.errstate(all="ignore"):
        impl = [float(np.asarray(x).reshape(-1)[0]) for x in
                hsl_to_hsv(np.array([c["h"]]), np.array([c["s"]]), np.array([c["l"]]))]
    if not np.allclose(impl, model, rtol=0, atol=1e-14, equal_nan=True):
        return f"hsl_to_hsv({c['h']}, {c['s']}, {c['l']}) = {impl} but model = {model}"
    rgb_m = [h2f(x) for x in outs[2].split()]
    az = c["h"] * 2 * np.pi
    rgb_i = rgb_from_polar_coordinates(np.array([az]), np.array([0.5 + c["p"] / 2])).reshape(-1)
    d = np.abs(rgb_i - np.array(rgb_m)).max()
    ctx.dev("rgb_abs", d)
    if d > 1e-9:
        return (f"rgb_from_polar_coordinates(azimuth={az}, polar={0.5 + c['p'] / 2}) = {rgb_i.tolist()} but the HSL->HSV->RGB "
                f"model gives {rgb_m}")
    return None


# ---- corr: geometry of the colour key (`_util.py`) ------------------------------------------------
EPS = 2.0 ** -52
TWO_PI = 2 * np.pi
TABLE_M = 1000
# `_correct_azimuth` table: sums of <= 999 positive terms in a different order (numpy sums pairwise) differ by at most
# (n-1) eps relatively, three times (segment sum, total, cumsum): 3 * 1000 * eps * 2 pi = 4.2e-12.  In addition one of the
# 3 * 999 cosines may fall on the other side of a `np.round(cos, 10)` bucket edge: a distance changes by
# 1e-10 / sin(d) <= 1e-9, the table by 2 pi * 1e-9 / sum(d) (sum(d) > 100) = 6e-11 at most.
TABLE_TOL = 8e-11
_SECT = {}


def hexes(xs):
    return " ".join(f2h(x) for x in np.asarray(xs, float).reshape(-1))


def sector_inputs(k):
    """the Laue sector of group k as the colour key sees it: (sector, normals as stored, centre, vertices)"""
    if k not in _SECT:
        G, fs, n, m = c07.sector_data(k, "laue")
        with warnings.catch_warnings():
            warnings.simplefilter("ignore")
            _SECT[k] = (fs, fs.data.reshape(-1, 3).astype(float), fs.center.data.reshape(3).astype(float),
                        fs.vertices.data.reshape(-1, 3).astype(float))
    return _SECT[k]


def synthetic_sector(d):
    """a sector object with prescribed normals, centre and vertices (to reach the branch of `polar_coordinates_in_sector`
    that no Laue sector reaches: all walls contain the centre / no walls)"""
    from orix.vector import FundamentalSector, Vector3d

    class Synthetic(FundamentalSector):
        center = property(lambda self: Vector3d(np.asarray(d["center"], float).reshape(1, 3)))
        vertices = property(lambda self: Vector3d(np.asarray(d["vertices"], float).reshape(-1, 3)))
    fs = Synthetic(np.asarray(d["normals"], float).reshape(-1, 3))
    return (fs, np.asarray(d["normals"], float).reshape(-1, 3), np.asarray(d["center"], float).reshape(3),
            np.asarray(d["vertices"], float).reshape(-1, 3))


def sector_of(c):
    return synthetic_sector(c["sector"]) if "sector" in c else sector_inputs(c["k"])


def sector_request(op, c, dirs=None):
    fs, nrm, cen, vert = sector_of(c)
    tail = "" if dirs is None else " " + hexes(dirs)
    head = f"ckey {op} {len(nrm)} {len(vert)} " + " ".join(x for x in (hexes(nrm), hexes(cen), hexes(vert)) if x)
    return head + tail


def rx_of(fs):
    from orix.vector import Vector3d
    c = fs.center.unit
    return c, (Vector3d.xvector() if fs.vertices.size == 0 else Vector3d.zvector()) - c


def impl_table(k):
    """the implementation's correction table, read off by interpolating at the table angles themselves"""
    from orix.plot.direction_color_keys._util import _correct_azimuth
    fs = sector_inputs(k)[0]
    with warnings.catch_warnings():
        warnings.simplefilter("ignore")
        return _correct_azimuth(np.linspace(0, TWO_PI, TABLE_M), fs, rx_of(fs)[1])


def projected(k, vs):
    from orix.vector import Vector3d
    G, fs, n, m = c07.sector_data(k, "laue")
    if not len(vs):
        return np.zeros((0, 3))
    with warnings.catch_warnings():
        warnings.simplefilter("ignore")
        return Vector3d(np.asarray(vs, float)).in_fundamental_sector(G).data.reshape(-1, 3)


def key_dirs(c):
    """directions handed to `polar_coordinates_in_sector`: the implementation's projection of the raw directions, then
    the special directions of the case (centre, vertices, wall points, ...) as they are"""
    h = projected(c["k"], c["vs"]) if len(c["vs"]) else np.zeros((0, 3))
    return np.vstack([h, np.asarray(c["hs"], float).reshape(-1, 3)])


def absdiff(a, b):
    """|a - b|, 0 where both are the same infinity or both NaN"""
    a, b = np.asarray(a, float), np.asarray(b, float)
    with np.errstate(invalid="ignore"):
        return np.where((a == b) | (np.isnan(a) & np.isnan(b)), 0.0, np.abs(a - b))


def circ(a, b):
    d = absdiff(a, b)
    return np.minimum(d, np.abs(TWO_PI - d))


def bucket_flip(cos, unc):
    """can the pre-rounding cosine, known up to `unc`, fall on either side of an edge of `np.round(cos, 10)`?"""
    t = cos * 1e10
    return np.abs(t - np.floor(t) - 0.5) <= unc * 1e10 + 1e-5


def bucket_width(cos):
    """change of arccos(round(cos, 10)) when the rounded cosine moves to a neighbouring bucket"""
    r = np.round(cos, 10)
    with np.errstate(invalid="ignore"):
        return np.abs(np.arccos(np.clip(r - 1e-10, -1, 1)) - np.arccos(np.clip(r + 1e-10, -1, 1)))


def polar_tolerance(nrm, cu, hu):
    """admissible |model - implementation| of the polar coordinate, from the conditioning of the formula:
    the angles are arccos(round(cos, 10)); as long as model and implementation round to the same bucket they differ by
    rounding of arccos and of the quotient only; the pre-rounding cosines are uncertain by a few eps, amplified by the
    normalisation of `v x centre` (small near the centre) and of the boundary vector; only if a cosine is that close
    to a bucket edge the effect of one bucket is admitted."""
    with np.errstate(all="ignore"):
        raw = np.cross(hu, cu)
        nv = np.linalg.norm(raw, axis=1)
        vcn = np.nan_to_num(raw / nv[:, None])
        tol = np.zeros(len(hu))
        for n in nrm:
            braw = np.cross(vcn, n)
            nb = np.linalg.norm(braw, axis=1)
            b = np.nan_to_num(braw / nb[:, None])
            cn = np.sum(-hu * b, axis=1) / np.linalg.norm(hu, axis=1) / np.linalg.norm(b, axis=1)
            cd = np.sum(-cu * b, axis=1) / np.linalg.norm(cu) / np.linalg.norm(b, axis=1)
            an, ad = np.arccos(np.round(cn, 10)), np.arccos(np.round(cd, 10))
            ratio = an / ad
            unc = 16 * EPS * (1 + 1 / np.maximum(nv, 1e-300) + 1 / np.maximum(nb, 1e-300))
            t = 16 * EPS * (1 + ratio) / ad
            t = t + np.where(bucket_flip(cn, unc), bucket_width(cn) / ad, 0.0)
            t = t + np.where(bucket_flip(cd, unc), bucket_width(cd) * ratio / ad, 0.0)
            tol = np.maximum(tol, np.where(np.isfinite(t), t, 0.0))
    return tol + 4 * EPS


def key_lines(c):
    return [sector_request("dirs", c, key_dirs(c))]


def key_check(ctx, c, outs):
    from orix.plot.direction_color_keys._util import (_calculate_azimuth, polar_coordinates_in_sector,
                                                      rgb_from_polar_coordinates)
    from orix.vector import Vector3d
    k = c["k"]
    fs, nrm, cen, vert = sector_of(c)
    hd = key_dirs(c)
    H = Vector3d(hd)
    try:
        with warnings.catch_warnings():
            warnings.simplefilter("ignore")
            az, pol = polar_coordinates_in_sector(fs, H)
    except Exception as e:
        if outs[0].startswith("!err exception"):
            return None
        return f"{c['label']}: polar_coordinates_in_sector raised {type(e).__name__}: {str(e)[:120]} but the model returns values"
    if outs[0].startswith("!err"):
        return f"{c['label']}: model answers {outs[0]} but polar_coordinates_in_sector returns values"
    m = np.array([h2f(x) for x in outs[0].split()]).reshape(-1, 6)
    if len(m) != len(hd):
        return f"model returned {len(m)} directions for {len(hd)}"
    cu, rx = rx_of(fs)
    hu = H.unit
    with warnings.catch_warnings():
        warnings.simplefilter("ignore")
        az0 = _calculate_azimuth(cu, rx, hu)
        rgb = rgb_from_polar_coordinates(az, 0.5 + pol / 2)
    dist = np.linalg.norm(hu.data - cu.data, axis=1)
    # arctan2 of the components of d = unit(v - centre) along rx, ry: the difference vector is known to 2 eps / |v - centre|
    # relatively, and only its part orthogonal to the centre (length rho; 0 for the antipode of the centre) carries the angle
    with np.errstate(all="ignore"):
        dvec = np.nan_to_num((hu.data - cu.data) / dist[:, None])
        rho = np.linalg.norm(np.cross(dvec, cu.data.reshape(3)), axis=1)
        tol_az = np.where(dist > 0, np.minimum(TWO_PI, 16 * EPS * (1 + 1 / np.maximum(dist, 1e-300)) / np.maximum(rho, 1e-300)),
                          4 * EPS)
    if fs.vertices.size:
        tab = impl_table(k)          # synthetic sectors have no vertices
        slope = float(np.max(np.diff(tab)) / (TWO_PI / (TABLE_M - 1)))
        tol_c = TABLE_TOL + max(slope, 1.0) * tol_az
    else:
        tol_c = tol_az
    tol_p = polar_tolerance(nrm, cu.data.reshape(3), hu.data.reshape(-1, 3))
    tol_rgb = tol_p + 6 * tol_c / TWO_PI + 16 * EPS
    d0, d1, d2 = circ(az0, m[:, 0]), circ(az, m[:, 1]), absdiff(pol, m[:, 2])
    d3 = absdiff(rgb, m[:, 3:]).max(axis=1)
    ctx.dev("key_azimuth_over_tol", float(np.max(d0 / tol_az)))
    ctx.dev("key_corrected_azimuth_abs", float(np.max(np.where(tol_az < 1e-9, d1, 0.0))))
    ctx.dev("key_polar_abs", float(np.max(d2)))
    ctx.dev("key_polar_over_tol", float(np.max(d2 / tol_p)))
    ctx.dev("key_rgb_abs", float(np.max(np.where(tol_az < 1e-9, d3, 0.0))))
    for name, d, tol, impl, mod in (("azimuth before the correction", d0, tol_az, az0, m[:, 0]),
                                    ("corrected azimuth", d1, tol_c, az, m[:, 1]),
                                    ("polar coordinate", d2, tol_p, pol, m[:, 2])):
        bad = ~(d <= tol)
        if bad.any():
            j = int(np.argmax(np.where(bad, d / tol, 0)))
            return (f"{c['label']}: {name} of direction {hd[j].tolist()} in the sector: implementation {float(impl[j])!r}, "
                    f"model {float(mod[j])!r} (|diff| {float(d[j]):.3g} > tolerance {float(tol[j]):.3g})")
    bad = ~(d3 <= tol_rgb)
    if bad.any():
        j = int(np.argmax(np.where(bad, d3 / tol_rgb, 0)))
        return (f"{c['label']}: rgb_from_polar_coordinates for direction {hd[j].tolist()}: implementation {rgb[j].tolist()}, "
                f"model {m[j, 3:].tolist()}")
    inside = (hu.data.reshape(-1, 3) @ nrm.T >= -1e-9).all(axis=1) if len(nrm) else np.ones(len(hd), bool)
    if "sector" not in c and (not np.isfinite(m).all() or not ((m[inside, 2] >= 0) & (m[inside, 2] <= 1)).all()):
        return f"{c['label']}: model polar coordinate of a direction in the sector outside [0, 1] or not finite"
    # the public entry: direction2color(v) = colour of the projection of v
    nv = len(c["vs"])
    if nv:
        full = colours(key_for(k)[0], np.asarray(c["vs"], float))
        d4 = np.abs(full - m[:nv, 3:]).max(axis=1)
        ctx.dev("key_direction2color_abs", float(np.max(np.where(tol_az[:nv] < 1e-9, d4, 0.0))))
        bad = ~(d4 <= tol_rgb[:nv])
        if bad.any():
            j = int(np.argmax(np.where(bad, d4 / tol_rgb[:nv], 0)))
            return (f"{c['label']}: direction2color({c['vs'][j]}) = {full[j].tolist()} but the model colour of its projection "
                    f"{hd[j].tolist()} is {m[j, 3:].tolist()}")
    return None


def table_lines(c):
    return [sector_request("table", c)]


def table_check(ctx, c, outs):
    """the correction table itself; and, measured on the implementation: it is a cumulative distribution (0 .. 2 pi,
    increasing), a 3-vertex sector has the values 2 pi/3 and 4 pi/3 at the segment boundaries, and the corrected
    azimuth of each vertex differs from k * 2 pi / 3 only through the table's discretisation"""
    from orix.plot.direction_color_keys._util import _calculate_azimuth, _correct_azimuth
    k = c["k"]
    fs, nrm, cen, vert = sector_inputs(k)
    try:
        tab = impl_table(k)
    except Exception as e:
        if outs[0].startswith("!err exception"):
            return None
        return f"{c['label']}: _correct_azimuth raised {type(e).__name__}: {str(e)[:120]} but the model returns a table"
    if outs[0].startswith("!err"):
        return f"{c['label']}: model answers {outs[0]} but _correct_azimuth returns values"
    t = outs[0].split()
    a, b = int(t[0]), int(t[1])
    mt = np.array([h2f(x) for x in t[2:]])
    if mt.shape != tab.shape:
        return f"{c['label']}: model table has {mt.shape} entries, implementation {tab.shape}"
    d = np.abs(mt - tab)
    ctx.dev("table_abs", float(d.max()))
    if not d.max() <= TABLE_TOL:
        j = int(np.argmax(d))
        return f"{c['label']}: correction table entry {j}: implementation {float(tab[j])!r}, model {float(mt[j])!r}"
    for name, x in (("implementation", tab), ("model", mt)):
        if x[0] != 0 or abs(x[-1] - TWO_PI) > 64 * EPS * TWO_PI or not (np.diff(x) >= 0).all():
            return f"{c['label']}: {name} table is not increasing from 0 to 2 pi: ends {float(x[0])!r}, {float(x[-1])!r}"
    if len(vert) == 3:
        for name, x in (("implementation", tab), ("model", mt)):
            e = max(abs(x[a] - TWO_PI / 3), abs(x[b] - 2 * TWO_PI / 3))
            ctx.dev("table_third_abs", float(e))
            if not e <= TABLE_TOL:
                return (f"{c['label']}: {name} table at the segment boundaries {a}, {b} is {float(x[a])!r}, {float(x[b])!r}, expected "
                        f"2 pi/3 and 4 pi/3")
        from orix.vector import Vector3d
        cu, rx = rx_of(fs)
        with warnings.catch_warnings():
            warnings.simplefilter("ignore")
            av = _calculate_azimuth(cu, rx, Vector3d(vert).unit)
            cv = _correct_azimuth(av.copy(), fs, rx)
        slope = float(np.max(np.diff(tab)) / (TWO_PI / (TABLE_M - 1)))
        for x, y in zip(av, cv):
            kk = np.array([0.0, 1.0, 2.0, 3.0]) * TWO_PI / 3
            node = np.array([0.0, a, b, TABLE_M - 1]) * TWO_PI / (TABLE_M - 1)
            j = int(np.argmin(np.abs(y - kk)))
            off = abs(y - kk[j])
            ctx.dev("vertex_hue_offset_from_third", float(off / TWO_PI))
            if not off <= slope * abs(x - node[j]) + TABLE_TOL:
                return (f"{c['label']}: vertex with azimuth {float(x)!r} gets the corrected azimuth {float(y)!r}; it is {off:.3g} away from "
                        f"{j} * 2 pi/3, more than the table discretisation explains")
    return None


def contract_lines(c):
    xp, fp, xs = c["xp"], c["fp"], c["x"]
    return [f"ckey linspace {c['n']} {hexes([c['a'], c['b']])}", f"ckey cumsum {hexes(fp)}",
            f"ckey interp {len(xp)} {hexes(xp)} {hexes(fp)} {hexes(xs)}",
            f"ckey anglewith {hexes(c['u'])} {hexes(c['w'])}"]


def contract_check(ctx, c, outs):
    """numpy contracts used by the model: linspace, cumsum (bit-exact), interp (few ulps: a compiler may contract
    slope * dx + y), Vector3d.angle_with"""
    from orix.vector import Vector3d
    fl = lambda o: np.array([h2f(x) for x in o.split()])
    ls = np.linspace(c["a"], c["b"], c["n"])
    if not np.array_equal(fl(outs[0]), ls):
        return f"np.linspace({c['a']}, {c['b']}, {c['n']}) differs from the model"
    cs = np.cumsum(np.array(c["fp"]))
    if not np.array_equal(fl(outs[1]), cs):
        return f"np.cumsum({c['fp']}) = {cs.tolist()} but model = {fl(outs[1]).tolist()}"
    it = np.interp(np.array(c["x"]), np.array(c["xp"]), np.array(c["fp"]))
    mi = fl(outs[2])
    scale = max(1.0, float(np.abs(c["fp"]).max()))
    if mi.shape != it.shape or not (np.abs(mi - it) <= 4 * EPS * scale).all():
        return f"np.interp({c['x']}, {c['xp']}, {c['fp']}) = {it.tolist()} but model = {mi.tolist()}"
    with np.errstate(all="ignore"):
        ang = float(Vector3d(np.array(c["u"])).angle_with(Vector3d(np.array(c["w"])))[0])
    ma = float(fl(outs[3])[0])
    if not (ang == ma or abs(ang - ma) <= 4 * EPS * np.pi or (ang != ang and ma != ma)):
        # the rounded cosine may sit on a bucket edge
        cos = np.dot(c["u"], c["w"]) / np.linalg.norm(c["u"]) / np.linalg.norm(c["w"])
        if not (bucket_flip(cos, 8 * EPS) and abs(ang - ma) <= bucket_width(cos)):
            return f"angle_with({c['u']}, {c['w']}) = {ang!r} but model = {ma!r}"
    return None


# ---- prop ----------------------------------------------------------------------------------
def direction_check(ctx, c, outs):
    key, G = key_for(c["k"])
    v = np.asarray(c["v"], float)
    rgb = colours(key, [v])
    if rgb.shape != (1, 3):
        return f"colour array has shape {rgb.shape}, expected (1, 3)"
    if not np.isfinite(rgb).all() or rgb.min() < -1e-12 or rgb.max() > 1 + 1e-12:
        return f"colour {rgb.tolist()} of direction {v.tolist()} is not a finite RGB triplet in [0,1]"
    shp = tuple(c.get("shape", (2, 3)))
    block = np.broadcast_to(v, shp + (3,)).copy()
    r2 = colours(key, block)
    if r2.shape != shp + (3,):
        return f"colour array of directions with shape {shp} has shape {r2.shape}"
    if not off_boundary(c["k"], v):
        return None
    L, fs, n, m = c07.sector_data(c["k"], "laue")
    eq = np.einsum("gij,j->gi", m, v)
    cols = colours(key, eq)
    d = np.abs(cols - rgb[0]).max()
    ctx.dev("colour_spread_over_orbit", d)
    if d > TOL_RGB:
        j = int(np.argmax(np.abs(cols - rgb[0]).max(axis=1)))
        return (f"{G.name}: directions equivalent under the Laue group get different colours: {v.tolist()} -> "
                f"{rgb[0].tolist()} but {eq[j].tolist()} -> {cols[j].tolist()}")
    return None


_FIRST = {}      # (group index, role, direction) -> colour computed the first time in this process


def recolour_check(ctx, c, outs):
    """the colour of a direction depends only on the group and the direction: computing it again later in the same
    process, after keys of other groups were used (and with a freshly built key), gives bit-identical channels"""
    k = c["k"]
    v = np.asarray(c["v"], float).reshape(-1, 3)
    tag = (k, tuple(map(tuple, v.tolist())))
    try:
        col = colours(key_for(k)[0], v)
    except Exception as e:
        return f"{c['name']}: colour computation raised {type(e).__name__}: {str(e)[:200]}"
    if c["phase"] == "first":
        _FIRST[tag] = col
        return None
    first = _FIRST.get(tag)
    if first is None:      # replay of a 'again' case alone: establish the reference in a fresh interpreter
        import json as _json
        import subprocess
        import sys
        code = ("import json,sys,numpy as np\nfrom orix.quaternion import symmetry as S\nfrom orix.vector import Vector3d\n"
                "from orix.plot.direction_color_keys import DirectionColorKeyTSL\n"
                "k=int(sys.argv[1]);v=np.array(json.loads(sys.argv[2]))\n"
                "G=list(S._groups)[k]\nprint(json.dumps(DirectionColorKeyTSL(G).direction2color(Vector3d(v)).tolist()))")
        pr = subprocess.run([sys.executable, "-c", code, str(k), _json.dumps(v.tolist())], capture_output=True, text=True)
        if pr.returncode != 0:
            return None
        first = np.array(_json.loads(pr.stdout.strip().split("\n")[-1]))
        # in a replay, pollute as the original run did: use the keys of the groups used before
        for kk in c.get("used_before", []):
            try:
                colours(key_for(kk)[0], v)
            except Exception:
                pass
        col = colours(key_for(k)[0], v)
    d = np.abs(col - first)
    d = np.where(np.isnan(col) & np.isnan(first), 0.0, d)
    if not (d <= 0).all():
        i = int(np.argmax(np.nan_to_num(d, nan=9.0).max(axis=1)))
        return (f"{c['name']}: the colour of direction {v[i].tolist()} was {first[i].tolist()} when first computed and is "
                f"{col[i].tolist()} after the colour keys of other groups were used in the same process")
    return None


def orientation_check(ctx, c, outs):
    from orix.plot import IPFColorKeyTSL
    from orix.quaternion import Orientation, Rotation
    from orix.quaternion import symmetry as S
    from orix.vector import Vector3d
    G = S._groups[c["k"]]
    d = Vector3d(np.asarray(c["dir"], float))
    with warnings.catch_warnings():
        warnings.simplefilter("ignore")
        key = IPFColorKeyTSL(G, direction=d)
        O = Orientation(np.asarray(c["q"], float).reshape(1, 4), symmetry=G)
        rgb = key.orientation2color(O)
        if rgb.shape != (1, 3) or not np.isfinite(rgb).all() or rgb.min() < -1e-12 or rgb.max() > 1 + 1e-12:
            return f"orientation colour {rgb.tolist()} is not a finite RGB triplet in [0,1] with shape (1,3)"
        h = (O * d).data.reshape(3)
        direct = colours(key.direction_color_key, [h])
        if np.abs(direct - rgb).max() > 1e-12:
            return "orientation colour differs from the colour of the crystal direction O*v"
        if not off_boundary(c["k"], h):
            return None
        # all orientations equivalent under the Laue group get the same colour
        L = G.laue
        eq = Rotation(L).outer(Rotation(O)).flatten()
        Oe = Orientation(eq.data, symmetry=G)
        Oe.improper = eq.improper
        cols = key.orientation2color(Oe)
    dmax = np.abs(cols - rgb[0]).max()
    ctx.dev("colour_spread_over_equivalent_orientations", dmax)
    if dmax > TOL_RGB:
        return (f"{G.name}: symmetrically equivalent orientations get different IPF colours (spread {dmax:.3e}) for "
                f"q = {c['q']}, sample direction {c['dir']}")
    return None


def cubic_check(ctx, c, outs):
    from orix.quaternion.symmetry import Oh
    from orix.plot import DirectionColorKeyTSL
    key = DirectionColorKeyTSL(Oh)
    with warnings.catch_warnings():
        warnings.simplefilter("ignore")
        fs = Oh.fundamental_sector
        corners = colours(key, [[0, 0, 1], [1, 0, 1], [1, 1, 1]])
        centre = colours(key, fs.center.data.reshape(1, 3))[0]
        inside = np.asarray(c["inside"], float)
        cols = colours(key, inside)
    want = np.eye(3)
    if np.abs(corners - want).max() > 0.02:
        return f"cubic key corners [001],[101],[111] are {corners.round(3).tolist()}, expected red, green, blue"
    if centre.sum() < 3 - 1e-6:
        return f"cubic key centre colour {centre.tolist()} is not white"
    if (cols.sum(axis=1) > centre.sum() + 1e-9).any():
        return "a direction inside the cubic sector is lighter than the sector centre"
    return None


SHAPE_STRATA = [(0,), (0, 4), (3, 0), (2, 0, 5), (1,), (1, 1), (4, 1), (2, 3, 2), (5, 2)]


def shape_axis_check(ctx, c, outs):
    """the colour array has the input's shape plus a colour axis — also for empty inputs of any dimension and for
    size-1 axes — and entry [i] is the colour of direction / orientation [i] computed alone (both entry points)"""
    from orix.plot import IPFColorKeyTSL
    from orix.quaternion import Orientation
    from orix.vector import Vector3d
    key, G = key_for(c["k"])
    shp = tuple(c["shape"])
    rng = np.random.default_rng(c["seed"])
    v = rng.normal(size=shp + (3,))
    with warnings.catch_warnings():
        warnings.simplefilter("ignore")
        try:
            rgb = key.direction2color(Vector3d(v))
        except Exception as e:
            return f"{G.name}: direction2color of directions with shape {shp} raises {type(e).__name__}: {e}"
        if rgb.shape != shp + (3,):
            return f"{G.name}: direction2color of directions with shape {shp} has shape {rgb.shape}, expected {shp + (3,)}"
        q = rng.normal(size=shp + (4,))
        if q.size:
            q /= np.linalg.norm(q, axis=-1, keepdims=True)
        ipf = IPFColorKeyTSL(G, Vector3d(np.asarray(c["direction"], float)))
        try:
            orgb = ipf.orientation2color(Orientation(q, symmetry=G))
        except Exception as e:
            return f"{G.name}: orientation2color of orientations with shape {shp} raises {type(e).__name__}: {e}"
        if orgb.shape != shp + (3,):
            return f"{G.name}: orientation2color of orientations with shape {shp} has shape {orgb.shape}, expected {shp + (3,)}"
        for ix in np.ndindex(*shp):
            one = key.direction2color(Vector3d(v[ix].reshape(1, 3)))[0]
            if off_boundary(c["k"], v[ix]) and np.abs(one - rgb[ix]).max() > TOL_RGB:
                return (f"{G.name}: entry {ix} of the colour array of directions with shape {shp} is {rgb[ix].tolist()} but direction "
                        f"{v[ix].tolist()} alone gets {one.tolist()}")
            oone = ipf.orientation2color(Orientation(q[ix].reshape(1, 4), symmetry=G))[0]
            h = (Orientation(q[ix].reshape(1, 4), symmetry=G) * Vector3d(np.asarray(c["direction"], float))).data.reshape(3)
            if off_boundary(c["k"], h) and np.abs(oone - orgb[ix]).max() > TOL_RGB:
                return (f"{G.name}: entry {ix} of the colour array of orientations with shape {shp} is {orgb[ix].tolist()} but "
                        f"orientation {q[ix].tolist()} alone gets {oone.tolist()}")
    return None


SITES = {
    "shape_axis": sites.Site("shape_axis", "prop", shape_axis_check),
    "colour_arith": sites.Site("colour_arith", "corr", hsl_check, hsl_lines),
    "direction_colour": sites.Site("direction_colour", "prop", direction_check),
    "orientation_colour": sites.Site("orientation_colour", "prop", orientation_check),
    "cubic_key": sites.Site("cubic_key", "prop", cubic_check),
    "recolour": sites.Site("recolour", "prop", recolour_check),
    "colour_key": sites.Site("colour_key", "corr", key_check, key_lines),
    "key_table": sites.Site("key_table", "corr", table_check, table_lines),
    "numpy_contracts": sites.Site("numpy_contracts", "corr", contract_check, contract_lines),
}
PREDICATES = {}


def generate(ctx, status):
    rng = ctx.rng
    n = 60 if ctx.tier == "quick" else 1500
    for i in range(n):
        s = i % 4
        c = {"h": float(rng.random()), "s": 1.0 if s else float(rng.random()),
             "l": float(0.5 + rng.random() / 2) if s < 3 else float(rng.random()), "p": float(rng.random())}
        if i % 10 == 0:
            c["l"] = [0.5, 1.0][(i // 10) % 2]
            c["p"] = [0.0, 1.0][(i // 10) % 2]
        ctx.count("colour_arith", ("h", c["h"], c["l"]))
        yield "colour_arith", c
    from orix.quaternion import symmetry as S
    per = 12 if ctx.tier == "quick" else 150
    # order independence: a few directions per group now (first use of each key) and again at the very end, in a seeded
    # random group order, after every other key has been used
    again = []
    for k, G in enumerate(S._groups):
        vs = [GQ.vec(rng) for _ in range(4)]
        c = {"k": k, "name": G.name, "label": f"laue({G.name})", "v": vs, "phase": "first"}
        yield "recolour", c
        again.append(dict(c, phase="again", used_before=list(range(len(S._groups)))))
    for k, G in enumerate(S._groups):
        for j, shp in enumerate(SHAPE_STRATA):
            if ctx.tier == "quick" and (k + j) % 3:
                continue
            ctx.count(f"shape_axis/{'empty' if 0 in shp else 'nonempty'}", ("shp", k, shp), nontrivial=True)
            yield "shape_axis", {"k": k, "name": G.name, "shape": list(shp), "seed": int(rng.integers(1 << 30)),
                                 "direction": [[0, 0, 1], [1, 0, 0], [1, 1, 1]][(k + j) % 3]}
    for k, G in enumerate(S._groups):
        Gl, fs, nrm, m = c07.sector_data(k, "laue")
        for v, tag in c07.directions(rng, nrm, per):
            ctx.count(f"direction_colour/{tag}", ("d", k, tuple(v)), nontrivial=len(m) > 2)
            yield "direction_colour", {"k": k, "name": G.name, "label": f"laue({G.name})", "v": v,
                                       "shape": [int(x) for x in rng.integers(1, 4, size=rng.integers(1, 3))]}
        for _ in range(max(2, per // 4)):
            q, s = GQ.unit_quat(rng)
            d = GQ.vec(rng)
            ctx.count(f"orientation_colour/{s}", ("o", k, tuple(q)), nontrivial=True)
            yield "orientation_colour", {"k": k, "name": G.name, "label": f"laue({G.name})", "q": q, "dir": d}
    for j in rng.permutation(len(again)):
        ctx.count("recolour/again", ("rc", int(j)), nontrivial=True)
        yield "recolour", again[int(j)]
    for j in rng.permutation(len(again))[:12]:     # and once more, a different order
        yield "recolour", again[int(j)]
    ctx.sample({"site": "direction_colour", "k": 37, "v": v})
    w = rng.random((40, 3))
    w /= w.sum(axis=1, keepdims=True)
    pts = w @ np.array([[0, 0, 1.0], [1, 0, 1.0] / np.sqrt(2), [1, 1, 1.0] / np.sqrt(3)])
    ctx.count("cubic_key", ("cubic", 0))
    yield "cubic_key", {"inside": pts.tolist()}
    # geometry of the colour key, model against implementation (generated last: the cases above keep their seeds)
    quick = ctx.tier == "quick"
    per_key, chunk = (12, 64) if quick else (96, 24)
    for k, G in enumerate(S._groups):
        Gl, fs, nrm, m = c07.sector_data(k, "laue")
        raw = c07.directions(rng, nrm, per_key)
        spec = special_dirs(rng, k, 6 if quick else 48)
        base = {"k": k, "name": G.name, "label": f"laue({G.name})"}
        for v, tag in raw + spec:
            ctx.count(f"colour_key/{tag}", ("ck", k, tuple(v)), nontrivial=True)
        for i in range(0, max(len(raw), len(spec)), chunk):
            yield "colour_key", dict(base, vs=[v for v, t in raw[i:i + chunk]], hs=[v for v, t in spec[i:i + chunk]])
        if sector_inputs(k)[3].size:
            ctx.count("key_table", ("kt", k))
            yield "key_table", dict(base)
    for j in range(3 if quick else 12):
        # the branch no Laue sector reaches: every wall contains the centre, or there is no wall
        cen = GQ.vec(rng)
        if j % 3 == 1:
            ax = np.eye(3)[rng.permutation(3)] * rng.choice([-1.0, 1.0], size=(3, 1))
            cen = [float(x) for x in ax[0] * rng.uniform(0.5, 2)]
            sec = {"normals": [[float(x) for x in r] for r in ax[1:1 + int(rng.integers(1, 3))]], "center": cen, "vertices": []}
        elif j % 3 == 2:      # orthogonal only up to rounding: the other branch, with degenerate denominators
            w = np.cross(cen, GQ.vec(rng))
            sec = {"normals": [[float(x) for x in w]], "center": cen, "vertices": []}
        else:
            sec = {"normals": [], "center": cen, "vertices": []}
        hs = [GQ.vec(rng) for _ in range(6)] + [cen, [-x for x in cen]]
        ctx.count("colour_key/synthetic", ("cks", j, tuple(cen)))
        yield "colour_key", {"k": -1, "name": "synthetic", "label": "synthetic sector", "sector": sec, "vs": [], "hs": hs}
    for j in range(20 if quick else 300):
        n = int(rng.integers(2, 13))
        xp = np.cumsum(rng.uniform(0.01, 1.0, n)) + rng.uniform(-2, 2)
        fp = np.cumsum(rng.uniform(0, 1.0, n)) if j % 2 else rng.normal(size=n)
        x = np.concatenate([rng.uniform(xp[0] - 1, xp[-1] + 1, 5), xp[[0, -1, int(rng.integers(n))]],
                            [xp[0] - 1.0, xp[-1] + 1.0]])
        u, w = GQ.vec(rng), GQ.vec(rng)
        if j % 5 == 1:
            w = [float(t) * [2.5, -0.5, 0.0][j % 3] for t in u]          # parallel, antiparallel, zero vector
        elif j % 5 == 2:
            w = [float(t) for t in np.cross(u, w)]
        c = {"n": int(rng.integers(0, 40)) if j % 4 else TABLE_M, "a": float(rng.uniform(-3, 3)) if j % 4 else 0.0,
             "b": float(rng.uniform(-3, 9)) if j % 4 else TWO_PI, "xp": [float(t) for t in xp], "fp": [float(t) for t in fp],
             "x": [float(t) for t in x], "u": u, "w": w}
        ctx.count("numpy_contracts", ("np", j, c["n"], c["a"]))
        yield "numpy_contracts", c


def special_dirs(rng, k, count):
    """directions given directly inside the Laue sector of group k: the centre (as stored, unit, scaled, and at
    distances 1e-3 .. 1e-15 from it), the vertices, points on the walls (exactly and within 1e-9), points on the arcs
    centre -> wall point"""
    fs, nrm, cen, vert = sector_inputs(k)
    nh = nrm / np.linalg.norm(nrm, axis=1, keepdims=True) if len(nrm) else nrm
    cu = cen / np.linalg.norm(cen)
    out = [(cen, "centre"), (cu, "centre"), (cu * float(rng.uniform(0.1, 10)), "centre")]
    for e in (1e-3, 1e-6, 1e-9, 1e-12, 1e-15):
        t = np.cross(cu, rng.normal(size=3))
        out.append((cu + e * t / np.linalg.norm(t), "near_centre"))
    for v in vert:
        out.append((v, "vertex"))
        out.append((v + 1e-9 * (cu - v), "vertex"))
    inner = projected(k, rng.normal(size=(count, 3)))
    for i, p in enumerate(inner):
        if not len(nh):
            out.append((p, "inside"))
            continue
        n = nh[int(rng.integers(len(nh)))]
        q = p - (p @ n) * n
        q = q / np.linalg.norm(q)
        if (nh @ q < -1e-12).any():
            out.append((p, "inside"))
            continue
        r = i % 4
        if r == 0:
            out.append((q, "wall"))
        elif r == 1:
            out.append((q + n * float(rng.choice([1e-9, 1e-12])), "wall"))
        else:
            t = float(rng.uniform(0, 1))
            out.append(((1 - t) * cu + t * q, "arc"))
    return [([float(x) for x in np.asarray(v, float)], tag) for v, tag in out]


def near_wall(case, width):
    """some Laue-equivalent of the case's crystal direction is within `width` (sine of the angle) of a sector wall"""
    from ..props.c04 import hmul
    if "v" in case:
        h = np.asarray(case["v"], float).reshape(-1, 3)[0]
    else:
        q = np.asarray(case["q"], float)
        q = q / np.linalg.norm(q)
        vq = np.concatenate([[0.0], np.asarray(case["dir"], float)])
        qc = q * np.array([1, -1, -1, -1.0])
        h = hmul(hmul(q[None], vq[None]), qc[None])[0, 1:]
    G, fs, n, m = c07.sector_data(case["k"], "laue")
    u = np.einsum("gij,j->gi", m, h)
    u = u / np.linalg.norm(u, axis=1, keepdims=True)
    return bool(len(n)) and bool(np.min(np.abs(u @ n.T)) < width)


def run(ctx, status):
    def pred(eid):
        def f(case):
            for e in common.load_findings().get("findings", []):
                if e["id"] == eid:
                    if case.get("label") not in e.get("members", []):
                        return False
                    return near_wall(case, e["band"]) if "band" in e else True
            return False
        return f
    for e in common.load_findings().get("findings", []):
        if e.get("property") == ctx.prop:
            PREDICATES[e["predicate"]] = pred(e["id"])
    st = status["sectors"]
    driver_ok = lean_phase(ctx, status, ["OrixProofs.Properties.C08"], kernels=["hsl_to_hsv"],
                           gen_theorems=st["theorems"])
    if ctx.replay:
        site, case, body = sites.load_replay(ctx.replay)
        if site in SITES:
            sites.run_cases(ctx, SITES, [(site, case)], driver_ok)
    else:
        sites.run_cases(ctx, SITES, generate(ctx, status), driver_ok)
    return common.finish(
        ctx, "proof", PREDICATES,
        rule="colour arithmetic on seeded (hue, saturation, lightness, polar) incl. end points; for all 38 point-group "
             "objects: stratified directions (as C07) and random orientations x sample directions; a case is non-trivial "
             "when the Laue group has more than 2 operations; the cubic-key clause on 40 barycentric points; the geometry of "
             "the key (`_util.py`) model against implementation for the Laue sector of all 38 groups: projected seeded "
             "directions plus the centre (as stored / unit / scaled / at 1e-3..1e-15 from it), vertices, wall points "
             "(exact, 1e-9, 1e-12 off), arcs centre-wall, synthetic sectors for the branch without walls; the correction "
             "table of every sector with vertices; numpy contracts (linspace, cumsum, interp, angle_with) on seeded input",
        assumptions=["matplotlib hsv_to_rgb is modelled by the standard sextant algorithm (compared on every run)",
                     "corner hues: proved are polar = 0 on every wall, table = 2 pi/3, 4 pi/3 exactly at the segment boundaries "
                     "and red/green/blue at hue 0, 1/3, 2/3; that the vertex azimuths fall on their rounded table indices "
                     "holds only up to the 1/1000 discretisation (measured by key_table: hue offset <= 1.5e-3)",
                     "the sector (normals, centre, vertices) is an input of the colour-key model, taken from the live "
                     "fundamental_sector; that the table's 999 boundary distances are positive is measured (the theorems "
                     "need non-negativity only, which arccos gives)",
                     "numpy: np.sum order (pairwise) and np.round(cos, 10) bucket edges are covered by the table tolerance "
                     "8e-11; np.interp/linspace/cumsum/angle_with are modelled by contract and compared on every run",
                     "Rotation.from_axes_angles and Rotation * Vector3d (numpy-quaternion) inside _correct_azimuth are "
                     "modelled by Conv.fromAxesAngles and the sandwich product (compared through the table)",
                     "symmetry invariance is inherited from C07 for the exact-centre model; on the implementation it is "
                     "checked off the sector boundary (margin 1e-6)"])
