"""C07 — the fundamental sector is a fundamental domain and projection into it is exact."""
from __future__ import annotations

import warnings

import numpy as np

from .. import common, sites
from ..common import f2h, h2f
from ..extract import groups as X
from ..extract import sectors as SX
from ..main import lean_phase

TOL_IN = 2e-9      # twice the code's own closed-sector slack (absolute for |v| <= 1, relative above)
MARGIN = 1e-6      # "general position" / "off the boundary": every wall and every stabiliser test beyond this
TOL_SAME = 1e-7    # same direction


def gobj(k, role):
    from orix.quaternion import symmetry as S
    G = S._groups[k]
    return G if role == "self" else G.laue


_cache = {}


def sector_data(k, role):
    """normals (unit) of the live sector and Cartesian O(3) matrices of the live operations"""
    key = (k, role)
    if key not in _cache:
        G = gobj(k, role)
        with warnings.catch_warnings():
            warnings.simplefilter("ignore")
            fs = G.fundamental_sector
        n = fs.data.reshape(-1, 3)
        n = n / np.linalg.norm(n, axis=1, keepdims=True) if len(n) else n
        m = G.to_matrix().reshape(-1, 3, 3) * np.where(G.improper.reshape(-1), -1.0, 1.0)[:, None, None]
        _cache[key] = (G, fs, n, m)
    return _cache[key]


def unit(v):
    v = np.asarray(v, float)
    return v / np.linalg.norm(v, axis=-1, keepdims=True)


def project_impl(G, v):
    from orix.vector import Vector3d
    with warnings.catch_warnings():
        warnings.simplefilter("ignore")
        # own copy in, own copy out: whether the call mutates its operand is property C16's business (site nomut)
        out = Vector3d(np.array(v, float)).in_fundamental_sector(G)
        return np.array(out.data.reshape(-1, 3), copy=True)


# ---- corr: sector table and model projection ----------------------------------------------
def table_lines(c):
    return [f"sec walls {c['gi']}"] if c["gi"] is not None else []


def table_check(ctx, c, outs):
    live = SX.analyse(gobj(c["k"], c["role"]))
    if live["status"] != c["status"]:
        return f"sector of {c['label']}: classification now {live['status']} but the generated table says {c['status']}"
    if c["gi"] is None:
        return None
    walls, half, centre, nops = outs[0].split("|")
    w = [int(x) for x in walls.split()]
    lean_walls = [tuple(w[1 + 3 * i:4 + 3 * i]) for i in range(w[0])]
    if lean_walls != [tuple(h) for h in live["walls"]]:
        return f"sector of {c['label']}: Lean walls {lean_walls} != live walls {live['walls']}"
    if int(nops) != live["n_ops"]:
        return f"sector of {c['label']}: Lean group order {nops} != live {live['n_ops']}"
    return None


def to_lattice(v, basis):
    B = X.BASES[basis]
    return np.asarray(v, float) @ np.linalg.inv(B)


def from_lattice(x, basis):
    return np.asarray(x, float) @ X.BASES[basis]


def proj_lines(c):
    x = to_lattice(c["v"], c["basis"])
    return [f"sec proj {c['gi']} {f2h(x[0])} {f2h(x[1])} {f2h(x[2])}"]


def proj_check(ctx, c, outs):
    if outs[0].startswith("!err"):
        return f"model projection failed: {outs[0]}"
    p = outs[0].split()
    model = from_lattice([h2f(p[0]), h2f(p[1]), h2f(p[2])], c["basis"])
    nstrict = int(p[3])
    G, fs, n, m = sector_data(c["k"], c["role"])
    impl = project_impl(G, [c["v"]])[0]
    ctx.strata["proj_model/strict%d" % min(nstrict, 2)] = ctx.strata.get("proj_model/strict%d" % min(nstrict, 2), 0) + 1
    if nstrict != 1:
        return None  # orbit touches the boundary: the representative is not unique, nothing to compare
    # off the boundary the representative is unique (theorem), so model and implementation must agree
    imgs = unit(np.einsum("gij,j->gi", m, np.asarray(c["v"], float)))
    if len(n) and np.min(np.abs(imgs @ n.T)) < MARGIN:
        return None
    d = np.abs(unit(impl) - unit(model)).max()
    ctx.dev("proj_direction", d)
    if d > TOL_SAME:
        return (f"{c['label']}: in_fundamental_sector({c['v']}) = {impl.tolist()} but the unique orbit member inside "
                f"the sector is {model.tolist()}")
    return None


# ---- prop: the property's clauses on the implementation ------------------------------------
def clauses(k, role, v):
    """returns (failure text | None, flags) for direction v"""
    G, fs, n, m = sector_data(k, role)
    v = np.asarray(v, float)
    scale = np.linalg.norm(v)
    r = project_impl(G, [v])[0]
    imgs = np.einsum("gij,j->gi", m, v)
    # (1) result = s·v for some operation s
    if np.min(np.abs(imgs - r).max(axis=1)) > 1e-9 * scale:
        return f"result {r.tolist()} is not s*v for any operation s of the group (v = {v.tolist()})"
    # (2) inside the closed sector
    if len(n) and np.min(n @ r) < -TOL_IN * max(scale, 1.0):
        return (f"result {r.tolist()} lies outside the closed sector (normal·result = {float(np.min(n @ r)):.3e}) "
                f"for v = {v.tolist()}")
    # (3) projecting twice changes nothing
    r2 = project_impl(G, [r])[0]
    if np.abs(r2 - r).max() > 1e-9 * scale:
        return f"projection is not idempotent: {r.tolist()} -> {r2.tolist()} (v = {v.tolist()})"
    # tiling on this orbit
    u = imgs / scale
    if len(n):
        dots = u @ n.T
        closed = (dots >= -TOL_IN).all(axis=1)
        strict = (dots > MARGIN).all(axis=1)
        near = (np.abs(dots) < MARGIN).any()
    else:
        closed = np.ones(len(u), bool)
        strict = np.ones(len(u), bool)
        near = False
    if not closed.any():
        return f"no symmetry-equivalent of {v.tolist()} lies inside the closed sector (gap in the tiling)"
    # distinct equivalents strictly inside
    inside = u[strict]
    if len(inside) > 1:
        d = np.abs(inside[:, None, :] - inside[None, :, :]).max(axis=-1)
        if (d > 1e-6).any():
            a, b = np.argwhere(d > 1e-6)[0]
            return (f"two distinct equivalents of {v.tolist()} lie strictly inside the sector: "
                    f"{inside[a].tolist()} and {inside[b].tolist()} (overlap in the tiling)")
    # (4) all equivalents project to the same direction unless on the boundary
    if not near and strict.any():
        rs = project_impl(G, imgs)
        d = np.abs(rs - rs[0]).max() / scale
        if d > TOL_SAME:
            j = int(np.argmax(np.abs(rs - rs[0]).max(axis=1)))
            return (f"equivalent directions project differently: {imgs[0].tolist()} -> {rs[0].tolist()} but "
                    f"{imgs[j].tolist()} -> {rs[j].tolist()}")
    return None


CLAUSE_KEYS = [("not s*v", "orbit"), ("outside the closed sector", "outside"), ("not idempotent", "idempotent"),
               ("gap in the tiling", "gap"), ("overlap in the tiling", "overlap"), ("project differently", "differ")]


def prop_check(ctx, c, outs):
    res = clauses(c["k"], c["role"], c["v"])
    if res is None:
        return None
    c["clause"] = next((k for t, k in CLAUSE_KEYS if t in res), "other")
    return f"{c['label']}: {res}"


def batch_check(ctx, c, outs):
    """projecting many directions in one call gives, for each of them, what projecting it alone gives (no direction's
    result may depend on which other directions share the call)"""
    G, fs, n, m = sector_data(c["k"], c["role"])
    vs = np.asarray(c["vs"], float).reshape(-1, 3)
    whole = np.asarray(project_impl(G, vs), float).reshape(-1, 3)
    if whole.shape != vs.shape:
        return f"{c['label']}: {len(vs)} directions projected in one call give an array of shape {whole.shape}"
    for i, v in enumerate(vs):
        one = np.asarray(project_impl(G, [v])[0], float)
        scale = max(1.0, float(np.linalg.norm(v)))
        if not np.abs(whole[i] - one).max() <= 1e-12 * scale:
            # on the sector boundary (some image within the tolerance of a wall) the representative is not unique and the
            # property allows either: then the result of the joint call must still be a projection (an image of v inside the
            # closed sector); off the boundary it must be THE projection
            imgs = np.einsum("gij,j->gi", m, v)
            near_wall = bool(len(n)) and float(np.min(np.abs(imgs @ n.T))) <= 4 * TOL_IN * scale
            is_image = float(np.min(np.abs(imgs - whole[i]).max(axis=1))) <= 1e-9 * scale
            inside = (not len(n)) or float(np.min(n @ whole[i])) >= -TOL_IN * scale
            if near_wall and is_image and inside:
                continue
            return (f"{c['label']}: direction {v.tolist()} projects to {whole[i].tolist()} when projected together with "
                    f"{len(vs) - 1} others but to {one.tolist()} alone"
                    + ("" if not near_wall else " (on the sector boundary, but the joint result is not an image of the direction inside the closed sector)"))
    # the same directions as crystal vectors (Miller) arranged in two dimensions: each position holds the projection of the
    # vector at THAT position
    nn = (len(vs) // 2) * 2
    if nn >= 4:
        from orix.crystal_map import Phase
        from orix.vector import Miller
        with warnings.catch_warnings():
            warnings.simplefilter("ignore")
            # a lattice that is not orthonormal (hexagonal axes for the trigonal / hexagonal groups): the projection acts on
            # the Cartesian vectors whatever the lattice coordinates are
            from diffpy.structure import Lattice, Structure
            lat = Lattice(3, 3, 5, 90, 90, 120) if c.get("basis") == "hex" else Lattice(2.9, 3.6, 4.1, 90, 90, 90)
            m = Miller(xyz=np.array(vs[:nn], float).reshape(2, nn // 2, 3), phase=Phase(point_group="1", structure=Structure(lattice=lat)))
            m.coordinate_format = ["uvw", "hkl"][nn % 4 // 2]
            got = np.asarray(m.in_fundamental_sector(G).data, float)
        want = whole[:nn].reshape(2, nn // 2, 3)
        if got.shape != want.shape:
            return f"{c['label']}: Miller of shape (2, {nn // 2}) projects to an object of shape {got.shape[:-1]}"
        bad = np.argwhere(np.abs(got - want).max(axis=-1) > 1e-12 * np.maximum(1.0, np.linalg.norm(want, axis=-1)))
        if len(bad):
            i, j = (int(t) for t in bad[0])
            return (f"{c['label']}: Miller.in_fundamental_sector on vectors arranged as (2, {nn // 2}): position ({i}, {j}) holds "
                    f"{got[i, j].tolist()} but the vector there, {vs[i * (nn // 2) + j].tolist()}, projects to {want[i, j].tolist()}")
    return None


SITES = {
    "sector_table": sites.Site("sector_table", "corr", table_check, table_lines),
    "proj_model": sites.Site("proj_model", "corr", proj_check, proj_lines),
    "projection": sites.Site("projection", "prop", prop_check),
    "batch": sites.Site("batch", "prop", batch_check),
}


def _members(eid):
    for e in common.load_findings().get("findings", []):
        if e["id"] == eid:
            return e.get("members", [])
    return []


def _label_pred(eid):
    return lambda case: case.get("label") in _members(eid)


PREDICATES = {}


def directions(rng, n_walls_normals, count):
    """stratified directions: both hemispheres, non-unit, on / within 1e-9 of walls, edges, axes"""
    out = []
    N = n_walls_normals
    for i in range(count):
        s = i % 8
        if s in (0, 1, 2):
            v = rng.normal(size=3)
            tag = "random"
        elif s == 3:
            v = rng.normal(size=3) * 10.0 ** rng.integers(-3, 4)
            tag = "nonunit"
        elif s == 4:
            v = rng.integers(-3, 4, size=3).astype(float)
            if not v.any():
                v[2] = 1.0
            tag = "lattice"
        elif s == 5 and len(N):
            # on a wall (mirror plane / sector face), exactly and within 1e-9
            nrm = N[rng.integers(len(N))]
            w = rng.normal(size=3)
            v = w - (w @ nrm) * nrm + nrm * rng.choice([0.0, 1e-9, -1e-9, 1e-12])
            tag = "on_wall"
        elif s == 6 and len(N) >= 2:
            i1, i2 = rng.choice(len(N), 2, replace=False)
            e = np.cross(N[i1], N[i2])
            if np.linalg.norm(e) < 1e-9:
                e = rng.normal(size=3)
            v = e * rng.choice([-1.0, 1.0]) + rng.normal(size=3) * rng.choice([0.0, 1e-9])
            tag = "edge_vertex"
        else:
            v = np.zeros(3)
            v[rng.integers(3)] = rng.choice([-1.0, 1.0])
            if rng.random() < 0.5:
                v[rng.integers(3)] += rng.choice([-1.0, 1.0])
            if not v.any():
                v[0] = 1.0
            tag = "axis"
        out.append(([float(x) for x in v], tag))
    return out


def generate(ctx, status):
    secs = status["sectors"]["sectors"]
    good = status["sectors"]["good"]
    per = 24 if ctx.tier == "quick" else 400
    for r in secs:
        nm = SX.lean_name(r)
        gi = good.index(nm) if nm in good else None
        base = {"k": r["k"], "role": r["role"], "label": r["label"], "status": r["status"], "gi": gi,
                "basis": r.get("basis")}
        ctx.count("sector_table/" + r["status"], ("tab", nm))
        yield "sector_table", dict(base)
        G, fs, n, m = sector_data(r["k"], r["role"])
        batch = []
        for v, tag in directions(ctx.rng, n, per):
            c = dict(base, v=v)
            ctx.count(f"projection/{tag}", ("p", nm, tuple(v)), nontrivial=len(m) > 1)
            yield "projection", c
            batch.append([float(x) for x in v])
            if len(batch) % 3 == 0:   # a hair below / above the equator, same azimuth
                L = float(np.linalg.norm(v)) or 1.0
                batch.append([float(v[0]), float(v[1]), float(ctx.rng.choice([-5e-10, 5e-10, -2e-9, 0.0])) * L])
            if gi is not None and tag in ("random", "nonunit", "lattice"):
                ctx.count(f"proj_model/{tag}", ("m", nm, tuple(v)), nontrivial=len(m) > 1)
                yield "proj_model", c
        ctx.count("batch", ("b", nm, tuple(batch[0])), nontrivial=len(m) > 1)
        yield "batch", dict(base, vs=batch)
        ctx.sample({"site": "projection", "label": r["label"], "v": v})


def run(ctx, status):
    def pred(eid):
        def f(case):
            for e in common.load_findings().get("findings", []):
                if e["id"] == eid:
                    return case.get("label") in e.get("members", []) and \
                        ("clauses" not in e or case.get("clause") in e["clauses"])
            return False
        return f
    for e in common.load_findings().get("findings", []):
        if e.get("property") == ctx.prop:
            PREDICATES[e["predicate"]] = pred(e["id"])
    st = status["sectors"]
    driver_ok = lean_phase(ctx, status, ["OrixProofs.Properties.C07"], gen_theorems=st["theorems"])
    und = [r["label"] + ": " + r.get("why", "") for r in st["sectors"] if r["status"] == "undecided"]
    for u in und:
        ctx.fail("tgen:sector", f"no certificate and no counter-example for the sector of {u}", {"label": u},
                 found_input=False, kind="obligation")
    # refuted sectors must be listed as known findings; the witness direction is the replay
    known = set()
    for e in common.load_findings().get("findings", []):
        if e.get("property") == ctx.prop and e.get("site") == "tiling":
            known |= set(e.get("members", []))
    for r in st["sectors"]:
        if r["status"] == "not_domain":
            B = X.BASES[r["basis"]]
            v = [float(x) for x in np.asarray(r["witness"]["v"], float) @ B]
            ctx.fail("tiling", f"sector of {r['label']} is not a fundamental domain (kernel-checked witness: lattice "
                     f"direction {r['witness']['v']} and its image under {r['witness']['g']} both lie strictly inside)",
                     {"label": r["label"], "k": r["k"], "role": r["role"], "v": v}, found_input=True, kind="prop")
    if ctx.replay:
        site, case, body = sites.load_replay(ctx.replay)
        ctx.failures = [f for f in ctx.failures if f.site == site and f.case.get("label") == case.get("label")] \
            if site == "tiling" else []
        if site in SITES:
            sites.run_cases(ctx, SITES, [(site, case)], driver_ok)
    else:
        sites.run_cases(ctx, SITES, generate(ctx, status), driver_ok)
    return common.finish(
        ctx, "proof", PREDICATES,
        rule="all 38 point-group objects and their Laue groups (76 sectors, complete) x seeded stratified directions "
             "(random both hemispheres, non-unit, lattice, on/within 1e-9 of walls, edges/vertices, axes); non-trivial "
             "= group order > 1; distinct by (sector, direction)",
        assumptions=["the implementation's numeric sector centre may induce a Dirichlet cell that differs from the "
                     "sector on a thin band: 'result inside the sector' for the implementation is measured, not proved",
                     "float wall normals are snapped to integer covectors (residual < 1e-7, checked)"])
