"""C13 — orix HDF5 save/load is lossless.

Sites
  h5_corr (corr)  Lean model of orix_hdf5 (crystalmap2dict ∘ dict2hdf5group, hdf5group2dict ∘ dict2crystalmap ∘
                  CrystalMap.__init__) vs the implementation on the same map: (a) the raw HDF5 tree below
                  /crystal_map read with h5py vs the model's `write m` (ties the writer), (b) the loaded map vs the
                  model's `read (write m)` (ties the reader), (c) second cycle.
  h5_prop (prop)  the property on the implementation alone: save → load equals the original field by field
                  (shape, mask, coordinates, phase ids, rotations as rotations, properties incl. dtype, scan unit,
                  phases with id/name/space group/point group/colour/lattice/atoms), saving does not modify the map,
                  a second cycle gives an equal map again.
"""
from __future__ import annotations

import copy
import os
import warnings

import numpy as np

from .. import common, sites
from ..gen import codecwire as W
from ..gen import maps as G
from ..main import lean_phase

DT = {"float64": 1, "float32": 2, "float16": 3, "int64": 4, "int32": 5, "int16": 6, "int8": 7, "uint64": 8,
      "uint32": 9, "uint16": 10, "uint8": 11, "bool": 12}
DTN = {v: k for k, v in DT.items()}
ROT_TOL = 1e-7     # "the same rotation" (DESIGN 2.3)


# ---------------- exact encodings ----------------------------------------------------------
def arr_rec(a):
    a = np.ascontiguousarray(a)
    name = str(a.dtype)
    if name not in DT:   # outside the model (strings, objects): still comparable
        return {"dt": -1, "shape": list(a.shape), "vals": [repr(v) for v in a.ravel().tolist()], "dtype": name}
    if a.dtype.kind == "f":
        vals = a.view(f"uint{a.dtype.itemsize * 8}").ravel().tolist()
    elif a.dtype.kind == "b":
        vals = a.astype(int).ravel().tolist()
    else:
        vals = a.ravel().tolist()
    return {"dt": DT[name], "shape": list(a.shape), "vals": [int(v) for v in vals]}


def rec_arr(r):
    if r["dt"] == -1:
        return np.array(r["vals"], dtype=object).reshape(r["shape"])
    dt = np.dtype(DTN[r["dt"]])
    if dt.kind == "f":
        a = np.array(r["vals"], dtype=f"uint{dt.itemsize * 8}").view(dt)
    else:
        a = np.array(r["vals"]).astype(dt)
    return a.reshape(r["shape"])


def scalar_rec(v):
    """(dtype code, int payload) of a Python / numpy scalar"""
    if isinstance(v, (bool, np.bool_)):
        return DT["bool"], int(v)
    if isinstance(v, (int,)):
        return DT["int64"], int(v)
    if isinstance(v, float):
        return DT["float64"], int(np.array(v, "float64").view("uint64"))
    r = arr_rec(np.asarray(v))
    return r["dt"], r["vals"][0]


def t_arr(r):
    return [r["dt"]] + W.t_list(r["shape"], W.t_int) + W.t_list(r["vals"], W.t_int)


def phase_rec(i, p):
    lat = p.structure.lattice
    atoms = []
    for a in p.structure:
        odt, o = scalar_rec(a.occupancy)
        atoms.append({"el": a.element, "label": a.label, "occdt": odt, "occ": o, "xyz": arr_rec(np.array(a.xyz)),
                      "u": arr_rec(np.array(a.U))})
    return {"id": int(i), "name": p.name, "sg": None if p.space_group is None else int(p.space_group.number),
            "pg": None if p.point_group is None else p.point_group.name, "color": p.color,
            "abc": arr_rec(np.array(lat.abcABG())), "baserot": arr_rec(np.array(lat.baserot)), "atoms": atoms}


def t_phase(p):
    return (W.t_int(p["id"]) + W.t_str(p["name"]) + W.t_opt(p["sg"], W.t_int) + W.t_opt(p["pg"], W.t_str)
            + W.t_str(p["color"]) + t_arr(p["abc"]) + t_arr(p["baserot"])
            + W.t_list(p["atoms"], lambda a: W.t_str(a["el"]) + W.t_str(a["label"]) + [a["occdt"], a["occ"]]
                       + t_arr(a["xyz"]) + t_arr(a["u"])))


def state(xmap):
    """constructor-level state of a map (all points, masked or not), exact"""
    eu = xmap._rotations.to_euler()
    return {"y": None if xmap._y is None else arr_rec(xmap._y), "x": None if xmap._x is None else arr_rec(xmap._x),
            "in": arr_rec(xmap.is_in_data), "pid": arr_rec(xmap._phase_id),
            "phi1": arr_rec(eu[..., 0]), "Phi": arr_rec(eu[..., 1]), "phi2": arr_rec(eu[..., 2]),
            "props": [{"name": k, "arr": arr_rec(v)} for k, v in dict.items(xmap._prop)],
            "unit": xmap.scan_unit, "phases": [phase_rec(i, p) for i, p in xmap.phases],
            "quat": np.array(xmap._rotations.data), "improper": np.array(xmap._rotations.improper)}


def not_indexed_rec():
    from orix.crystal_map import PhaseList
    pl = PhaseList()
    pl.add_not_indexed()
    return phase_rec(-1, pl[-1])


def h5_lines(c):
    with warnings.catch_warnings():
        warnings.simplefilter("ignore")
        xmap = G.build(c)
    st = state(xmap)
    y, x = xmap._y, xmap._x
    ny = y.size if isinstance(y, np.ndarray) else 1
    nx = x.size if isinstance(x, np.ndarray) else 1
    ysd, ys = scalar_rec(xmap.dy)
    xsd, xs = scalar_rec(xmap.dx)
    toks = [ny, nx, ysd, ys, xsd, xs, int(xmap.rotations_per_point)] + t_arr(arr_rec(xmap._id)) + [DT["int64"]]
    toks += t_phase(not_indexed_rec())
    toks += (W.t_opt(st["y"], t_arr) + W.t_opt(st["x"], t_arr) + t_arr(st["in"]) + t_arr(st["pid"]) + t_arr(st["phi1"])
             + t_arr(st["Phi"]) + t_arr(st["phi2"])
             + W.t_list(st["props"], lambda p: W.t_str(p["name"]) + t_arr(p["arr"])) + W.t_str(st["unit"])
             + W.t_list(st["phases"], t_phase))
    return [W.line("h5", toks)]


# ---------------- the real tree ---------------------------------------------------------------
def real_tree(g):
    import h5py
    items = []
    for k, v in g.items():
        if isinstance(v, h5py.Group):
            items.append([k, real_tree(v)])
        else:
            dt = v.dtype
            if dt.kind == "S":
                raw = v[()]
                b = bytes(raw.reshape(-1)[0]) if isinstance(raw, np.ndarray) else bytes(raw)
                items.append([k, {"cap": int(dt.itemsize), "bytes": list(b), "shape": list(v.shape)}])
            else:
                r = arr_rec(v[()])
                r["shape"] = list(v.shape)
                items.append([k, r])
    return {"g": items}


def model_tree(t):
    if "g" in t:
        out = []
        for k, v in t["g"]:
            name = W.s_of(k["s"]) if "s" in k else str(k["n"])
            out.append([name, model_tree(v)])
        return {"g": out}
    d = t["d"]
    if "cap" in d:
        b = list(d["bytes"])
        while b and b[-1] == 0:
            b.pop()
        return {"cap": d["cap"], "bytes": b, "shape": [1]}
    return {"dt": d["dt"], "shape": d["shape"], "vals": d["vals"]}


def tree_diff(a, b, path=""):
    if ("g" in a) != ("g" in b):
        return f"{path}: group vs dataset"
    if "g" in a:
        ka, kb = [k for k, _ in a["g"]], [k for k, _ in b["g"]]
        if ka != kb:
            return f"{path}: children {ka} vs model {kb}"
        for (k, x), (_, y) in zip(a["g"], b["g"]):
            d = tree_diff(x, y, path + "/" + k)
            if d:
                return d
        return None
    if a != b:
        return f"{path}: dataset {str(a)[:120]} vs model {str(b)[:120]}"
    return None


# ---------------- comparing maps --------------------------------------------------------------
def lat_close(a, b):
    return a["dt"] == b["dt"] and a["shape"] == b["shape"] and np.allclose(rec_arr(a), rec_arr(b), rtol=1e-12, atol=1e-12)


def phases_diff(got, exp, exact_lattice=False):
    if [p["id"] for p in got] != [p["id"] for p in exp]:
        return f"phase ids {[p['id'] for p in got]} vs {[p['id'] for p in exp]}"
    for g, e in zip(got, exp):
        for f in ("name", "sg", "pg", "color"):
            if g[f] != e[f]:
                return f"phase {e['id']}: {f} {e[f]!r} came back as {g[f]!r}"
        if not lat_close(g["abc"], e["abc"]) or not lat_close(g["baserot"], e["baserot"]):
            return f"phase {e['id']}: lattice {rec_arr(e['abc']).tolist()} came back as {rec_arr(g['abc']).tolist()}"
        if len(g["atoms"]) != len(e["atoms"]):
            return f"phase {e['id']}: {len(e['atoms'])} atoms came back as {len(g['atoms'])}"
        for k, (ga, ea) in enumerate(zip(g["atoms"], e["atoms"])):
            if ga["el"] != ea["el"] or ga["label"] != ea["label"]:
                return f"phase {e['id']} atom {k}: {ea['el']}/{ea['label']} came back as {ga['el']}/{ga['label']}"
            if rec_arr({"dt": ga["occdt"], "shape": [1], "vals": [ga["occ"]]})[0] != \
                    rec_arr({"dt": ea["occdt"], "shape": [1], "vals": [ea["occ"]]})[0]:
                return f"phase {e['id']} atom {k}: occupancy changed"
            if not np.allclose(rec_arr(ga["xyz"]), rec_arr(ea["xyz"]), rtol=1e-12, atol=1e-12) or \
                    not np.allclose(rec_arr(ga["u"]), rec_arr(ea["u"]), rtol=1e-12, atol=1e-14):
                return (f"phase {e['id']} atom {k}: xyz/U {rec_arr(ea['xyz']).tolist()} came back as "
                        f"{rec_arr(ga['xyz']).tolist()}")
    return None


def rot_angle(q1, q2):
    """misorientation angle between unit quaternions, elementwise"""
    a, b, c, d = q1[..., 0], -q1[..., 1], -q1[..., 2], -q1[..., 3]
    e, f, g, h = q2[..., 0], q2[..., 1], q2[..., 2], q2[..., 3]
    w = a * e - b * f - c * g - d * h
    x = a * f + b * e + c * h - d * g
    y = a * g - b * h + c * e + d * f
    z = a * h + b * g - c * f + d * e
    return 2 * np.arctan2(np.sqrt(x * x + y * y + z * z), np.abs(w))


def state_vs_model(got, mm, second=False):
    """loaded map (state) vs model MapRec (JSON)"""
    from orix.quaternion import Rotation
    for f in ("y", "x"):
        if (got[f] is None) != (mm[f] is None) or (got[f] is not None and got[f] != mm[f]):
            return f"{f} coordinates {str(got[f])[:80]} vs model {str(mm[f])[:80]}"
    for f, nm in (("in", "is_in_data"), ("pid", "phase ids")):
        if got[f] != mm[f]:
            return f"{nm} {str(got[f])[:100]} vs model {str(mm[f])[:100]}"
    eu = np.stack([rec_arr(mm["phi1"]), rec_arr(mm["Phi"]), rec_arr(mm["phi2"])], axis=-1)
    exp_q = Rotation.from_euler(eu).data
    if exp_q.shape != got["quat"].shape:
        return f"rotations shape {got['quat'].shape[:-1]} vs model {exp_q.shape[:-1]}"
    if exp_q.size and np.abs(exp_q - got["quat"]).max() > 1e-14:
        return "rotations differ from from_euler(stored Euler angles of the model)"
    gp = {p["name"]: p["arr"] for p in got["props"]}
    mp = {W.s_of(p["name"]): p["arr"] for p in mm["props"]}
    if gp != mp:
        bad = sorted(set(gp) ^ set(mp)) or [k for k in gp if gp[k] != mp[k]]
        return f"properties differ from the model at {bad[:3]}"
    if got["unit"] != W.s_of(mm["unit"]):
        return f"scan unit {got['unit']!r} vs model {W.s_of(mm['unit'])!r}"
    exp_ph = [{"id": p["id"], "name": W.s_of(p["name"]), "sg": p["sg"], "pg": W.s_of(p["pg"]), "color": W.s_of(p["color"]),
               "abc": p["abc"], "baserot": p["baserot"],
               "atoms": [{"el": W.s_of(a["el"]), "label": W.s_of(a["label"]), "occdt": a["occdt"], "occ": a["occ"],
                          "xyz": a["xyz"], "u": a["u"]} for a in p["atoms"]]} for p in mm["phases"]]
    d = phases_diff(got["phases"], exp_ph)
    return None if d is None else "phases vs model: " + d


def states_equal(a, b):
    """the property's notion of 'equal maps' (a: loaded, b: original)"""
    for f in ("y", "x"):
        if (a[f] is None) != (b[f] is None):
            return f"{f} coordinates {'absent' if b[f] is None else 'present'} came back {'absent' if a[f] is None else 'present'}"
        if a[f] is not None and (a[f]["shape"] != b[f]["shape"] or not np.array_equal(rec_arr(a[f]), rec_arr(b[f]))):
            return f"{f} coordinates changed"
    if a["in"] != b["in"]:
        return "in-data mask changed"
    if a["pid"]["vals"] != b["pid"]["vals"]:
        return f"phase ids {b['pid']['vals'][:10]} came back as {a['pid']['vals'][:10]}"
    qa, qb = a["quat"], b["quat"]
    if qa.size != qb.size or (qa.shape != qb.shape and not (qb.ndim == 3 and qb.shape[1] == 1)):
        return f"rotations shape {qb.shape[:-1]} came back as {qa.shape[:-1]}"
    qa = qa.reshape(qb.shape)
    ang = rot_angle(qb, qa)
    if ang.size and ang.max() > ROT_TOL:
        i = int(np.argmax(ang))
        return (f"rotation {i} {qb.reshape(-1, 4)[i].tolist()} came back as {qa.reshape(-1, 4)[i].tolist()} "
                f"({ang.reshape(-1)[i]:.3e} rad apart)")
    if not np.array_equal(a["improper"].reshape(-1), b["improper"].reshape(-1)):
        return "improper flags of the rotations were lost"
    pa = {p["name"]: p["arr"] for p in a["props"]}
    pb = {p["name"]: p["arr"] for p in b["props"]}
    if set(pa) != set(pb):
        return f"property names {sorted(pb)} came back as {sorted(pa)}"
    for k in pb:
        if pa[k] != pb[k]:
            return f"property {k!r} ({DTN.get(pb[k]['dt'])}, shape {pb[k]['shape']}) came back changed ({DTN.get(pa[k]['dt'])}, shape {pa[k]['shape']})"
    if a["unit"] != b["unit"]:
        return f"scan unit {b['unit']!r} came back as {a['unit']!r}"
    return phases_diff(a["phases"], b["phases"])


def save_load(ctx, xmap, tag="a"):
    from orix import io
    path = os.path.join(ctx.scratch, f"m{os.getpid()}{tag}.h5")
    with warnings.catch_warnings():
        warnings.simplefilter("ignore")
        io.save(path, xmap, overwrite=True)
        y = io.load(path)
    return path, y


def h5_corr_check(ctx, c, outs):
    import h5py
    res = W.parse(outs[0])
    with warnings.catch_warnings():
        warnings.simplefilter("ignore")
        xmap = G.build(c)
    path = None
    try:
        try:
            path, y = save_load(ctx, xmap)
        except Exception as e:
            if "err" in res or res.get("read") is None:
                ctx.strata["impl-raises/model-fails"] = ctx.strata.get("impl-raises/model-fails", 0) + 1
                return None
            return f"implementation raises {type(e).__name__}: {str(e)[:100]} but the model round trip succeeds"
        if "err" in res:
            return "model says the writer raises but the implementation wrote a file"
        with h5py.File(path, "r") as f:
            rt = real_tree(f["crystal_map"])
        d = tree_diff(rt, model_tree(res["tree"]))
        if d:
            return "HDF5 tree written vs model `write m`: " + d
        if res["read"] is None:
            return "model reader fails but the implementation loads the file"
        d = state_vs_model(state(y), res["read"])
        if d:
            return "loaded map vs model `read (write m)`: " + d
        p2, y2 = save_load(ctx, y, "b")
        os.remove(p2)
        if res["second"] is None:
            return "model second cycle fails but the implementation's succeeds"
        d = state_vs_model(state(y2), res["second"], second=True)
        if d:
            return "second cycle vs model: " + d
        return None
    finally:
        if path and os.path.exists(path):
            os.remove(path)


def h5_prop_check(ctx, c, outs):
    with warnings.catch_warnings():
        warnings.simplefilter("ignore")
        xmap = G.build(c)
    before = state(copy.deepcopy(xmap))
    path, y = save_load(ctx, xmap)
    os.remove(path)
    after = state(xmap)
    d = states_equal(after, before)
    if d or after["phi1"] != before["phi1"]:
        return "saving modified the map in memory: " + (d or "rotations")
    if tuple(y.shape) != tuple(xmap.shape):
        return f"shape {tuple(xmap.shape)} came back as {tuple(y.shape)}"
    d = states_equal(state(y), before)
    if d:
        return d
    p2, y2 = save_load(ctx, y, "b")
    os.remove(p2)
    d = states_equal(state(y2), before)
    if d:
        return "second save/load cycle: " + d
    return None


SITES = {
    "h5_corr": sites.Site("h5_corr", "corr", h5_corr_check, h5_lines),
    "h5_prop": sites.Site("h5_prop", "prop", h5_prop_check),
}


# ---------------- known-finding classifiers ------------------------------------------------------
RESERVED = ["y", "x", "phi1", "Phi", "phi2", "phase_id", "id", "is_in_data"]


def _strings(c):
    out = [c.get("scan_unit") or ""]
    for p in c["phases"] + c.get("extra_phases", []):
        out.append(p["name"])
        for a in p["atoms"]:
            out += [a["element"], a["label"] or ""]
    return out


PREDICATES = {
    "single_point": lambda c: int(np.prod(c["shape"])) == 1,
    "non_ascii_string": lambda c: any(any(ord(ch) > 127 for ch in s) for s in _strings(c)),
    "reserved_property_name": lambda c: any(p["name"] in RESERVED or "/" in p["name"] for p in c["props"]),
    "string_property": lambda c: any(p["dtype"].startswith(("<U", "U", "str", "object")) for p in c["props"]),
    "scan_unit_none": lambda c: "scan_unit" in c and c["scan_unit"] is None,
    "unused_phase": lambda c: bool(c.get("extra_phases")) or bool(c.get("add_not_indexed")),
    "improper_rotation": lambda c: bool(c.get("improper")) and any(c["improper"]),
    "euler_phi_pi": lambda c: any(q[0] == 0.0 and q[3] == 0.0 for q in c["quats"]),
    "not_indexed_customised": lambda c: bool(c.get("ni_color")),
}


# ---------------- generation ---------------------------------------------------------------
def rand_props(rng, k):
    m = int(rng.integers(0, 4))
    pool = ["iq", "dp", "ci", "mask_a", "n_bands", "scores", "sim idx", "Δ", "err-1", "q.r"]
    names = [pool[i] for i in rng.permutation(len(pool))[:m]]
    out = []
    for nm in names:
        dtype = G.PROP_DTYPES[int(rng.integers(len(G.PROP_DTYPES)))]
        # several values per point: (n, k) incl. k = 1, and per-point rows / columns (n, 1, 3), (n, 2, 1)
        pk = [1, 2, 3, 4, [1, 3], [2, 1], 1][int(rng.integers(7))] if rng.random() < 0.4 else 0
        out.append((nm, dtype, pk))
    return out


def generate(ctx):
    rng = ctx.rng
    quick = ctx.tier == "quick"
    reps = 3 if quick else 18

    def emit(stratum, c, both=True, known=False):
        n = int(np.prod(c["shape"]))
        ctx.count(stratum, ("c13", c["shape"], c["phase_id"], c["quats"][:2], [p["name"] for p in c["props"]]),
                  nontrivial=n > 1)
        ctx.sample({"site": "h5_corr" if both else "h5_prop", "shape": c["shape"], "axis": c["axis"],
                    "steps_u": c["steps_u"], "k": c["k"],
                    "phases": [(p["id"], p["name"], p["sg"], p["pg"], len(p["atoms"])) for p in c["phases"]],
                    "props": [(p["name"], p["dtype"], p["k"]) for p in c["props"]],
                    "n_masked": 0 if c["mask"] is None else int(n - sum(c["mask"]))}, cap=4)
        if both:
            yield "h5_corr", c
        yield "h5_prop", c

    def safe_sg(c):   # (space groups 3-9 needed special treatment before 99d4b72)
        return c

    for _ in range(reps):
        for rep in range(30 if quick else 40):
            nd = rep % 5
            if nd == 0:
                shape, axis = [int(rng.integers(2, 13))], "x"
            elif nd == 1:
                shape, axis = [int(rng.integers(2, 9))], "y"
            else:
                shape, axis = [int(rng.integers(1, 7)), int(rng.integers(1, 7))], "x"
                if shape[0] * shape[1] == 1:
                    shape = [2, 3]
            n = int(np.prod(shape))
            k = int(rng.choice([1, 1, 2, 3]))
            nph = int(rng.integers(1, 5))
            # scattered ids, incl. two-digit ones (group names '10' < '2' as strings)
            pool_ids = np.arange(8) if rng.random() < 0.5 else np.array([0, 1, 2, 3, 5, 9, 10, 11, 12, 20, 100])
            ids = sorted(int(x) for x in rng.choice(pool_ids, nph, replace=False)) if rng.random() < 0.5 else None
            mask = None
            if rng.random() < 0.4 and n > 2:
                mask = rng.random(n) < 0.7
                mask[:2] = True
            c = G.grid_case(rng, shape, axis=axis, nphases=min(nph, n), not_indexed=float(rng.choice([0, 0, 0.2, 0.5])),
                            mask=mask, k=k, props=rand_props(rng, k), ids=ids[:min(nph, n)] if ids else None)
            c["scan_unit"] = ["um", "nm", "px", "mm", ""][int(rng.integers(5))]
            # ASCII only here; every phase of the list keeps a point (phase_id covers all ids by construction)
            c["props"] = [p for p in c["props"] if all(ord(ch) < 128 for ch in p["name"])]
            yield from emit(f"ordinary/ndim{len(shape)}{axis if len(shape) == 1 else ''}/k{min(k, 2)}"
                            f"{'/masked' if mask is not None else ''}", safe_sg(c))
        # Euler-singular rotations: Phi = 0 (fine) …
        for rep in range(3 if quick else 6):
            c = safe_sg(G.grid_case(rng, [2, 3], nphases=1))
            for i in range(0, 6, 2):
                w = float(rng.uniform(0, 2 * np.pi))
                c["quats"][i] = [float(np.cos(w / 2)), 0.0, 0.0, float(np.sin(w / 2))]
            yield from emit("euler_singular/Phi=0", c)
        # … and Phi = pi exactly (qu2eu sign defect, C01)
        for rep in range(2 if quick else 4):
            c = safe_sg(G.grid_case(rng, [2, 2], nphases=1))
            w = float(rng.uniform(0.3, 2.8))
            c["quats"][1] = [0.0, float(np.cos(w)), float(np.sin(w)), 0.0]
            yield from emit("known/euler_phi_pi", c, both=False)
        # known findings, inside the model's domain (model and implementation agree, both differ from the spec)
        for shape in ([1], [1, 1]):
            c = safe_sg(G.grid_case(rng, shape, nphases=1))
            yield from emit("known/single_point", c)
        for rep in range(2):
            c = safe_sg(G.grid_case(rng, [2, 3], nphases=1))
            c["phases"][0]["atoms"] = [{"element": G.ELEMENTS[i % 8], "xyz": [round(i / 20, 3), 0.0, 0.5], "occ": 1.0,
                                        "label": f"a{i}", "uiso": 0.0} for i in range(11 + rep * 2)]
            yield from emit("atoms/more_than_ten", c)
        for name in ("α-Ti", "Fe₃C", "é"):
            c = safe_sg(G.grid_case(rng, [2, 2], nphases=1))
            c["phases"][0]["name"] = name
            yield from emit("known/non_ascii_string", c)
        for nm in ("x", "phi1", "id", "phase_id"):
            c = safe_sg(G.grid_case(rng, [2, 3], nphases=1, props=[(nm, "float64", 0)]))
            yield from emit("known/reserved_property_name", c, both=False)
        for sg in (3, 5, 6, 9):
            c = G.grid_case(rng, [2, 2], nphases=1)
            c["phases"][0]["sg"], c["phases"][0]["pg"] = sg, None
            yield from emit("space_group/3_to_9", c)
        for rep in range(2):
            c = safe_sg(G.grid_case(rng, [2, 3], nphases=2))
            names = list(G.PHASE_NAMES)
            if rep == 0:
                c["extra_phases"] = [G.phase(rng, 7, [n for n in names if n not in [p["name"] for p in c["phases"]]])]
            else:
                c["add_not_indexed"] = True
            yield from emit("known/unused_phase", c)
        # names with leading / trailing blanks; two names that differ only by a trailing blank
        for rep in range(2):
            c = safe_sg(G.grid_case(rng, [2, 3], nphases=2))
            c["phases"][0]["name"], c["phases"][1]["name"] = [("Ni ", "Ni"), (" alpha Ti", "alpha Ti  ")][rep]
            yield from emit("phase/name_with_blanks", c)
        # outside the model's domain: prop site only
        c = safe_sg(G.grid_case(rng, [2, 3], nphases=1))
        c["props"] = [{"name": "label", "dtype": "<U1", "k": 0, "vals": list("abcdef")}]
        yield from emit("known/string_property", c, both=False)
        c = safe_sg(G.grid_case(rng, [2, 3], nphases=1))
        c["scan_unit"] = None
        yield from emit("known/scan_unit_none", c, both=False)
        c = safe_sg(G.grid_case(rng, [2, 3], nphases=1))
        c["improper"] = [True, False, False, True, False, False]
        yield from emit("known/improper_rotation", c, both=False)
        c = safe_sg(G.grid_case(rng, [2, 3], nphases=1, props=[("a/b", "float64", 0)]))
        yield from emit("known/reserved_property_name", c, both=False)
        c = safe_sg(G.grid_case(rng, [2, 3], nphases=1, not_indexed=0.0))
        c["phase_id"][0] = -1
        c["ni_color"] = "r"
        yield from emit("known/not_indexed_customised", c, both=False)


def run(ctx, status):
    from ..extract import gen
    io_status = gen.regen_io()
    if "__crash__" in io_status:
        ctx.fail("tgen:io_tables", io_status["__crash__"], {"stage": "I/O table extraction"}, found_input=False, kind="obligation")
        io_status = {}
    for k, v in io_status.items():
        if v not in ("extracted", "extracted (ast)", "extracted (ast+exec agree)") and k.startswith(("h5.", "symmetry.")):
            ctx.note(f"T-gen: {k} {v}")
    ctx.extra["tgen_io_tables"] = {k: v for k, v in io_status.items() if k.startswith(("h5.", "symmetry."))}
    driver_ok = lean_phase(ctx, status, ["OrixProofs.Properties.C13"])
    if ctx.replay:
        site, case, body = sites.load_replay(ctx.replay)
        if site in SITES:
            sites.run_cases(ctx, SITES, [(site, case)], driver_ok)
    else:
        sites.run_cases(ctx, SITES, generate(ctx), driver_ok)
    return common.finish(
        ctx, "proof", PREDICATES,
        rule="seeded stratified maps built through the public API: 1-D along x or y and 2-D grids (incl. single "
             "row/column), random masks, 1-4 phases with contiguous or scattered ids, with space group / point group / "
             "neither, 0-3 atoms with labels/occupancies/Uiso, triclinic..cubic lattices, not-indexed fractions, "
             "1-3 rotations per point (Haar, Phi=0, identity, negative scalar part), 0-3 properties of 8 dtypes with "
             "1 or 2-4 values per point, several scan units; plus one stratum per excluded point of the "
             "well-formedness predicate (known/...); non-trivial = more than one point; distinct by hash",
        assumptions=["the theorems are about the format model (PyTree/H5 records with opaque integer payloads: bit "
                     "patterns + dtype tags); h5py is assumed to return the bytes written and to iterate groups in "
                     "alphabetical order (exercised: the raw tree read with h5py is compared with the model's tree)",
                     "rotations are stored as Euler angles: the model carries the Euler arrays verbatim; that "
                     "from_euler(to_euler(R)) is R is C01's theorem (measured here with tolerance 1e-7 rad)",
                     "the Phase.structure setter re-aligns the lattice on load; lattice, xyz and U are compared with "
                     "relative tolerance 1e-12 instead of bit patterns"])
