"""C02 — quaternion and rotation products form a faithful group action on vectors."""
from __future__ import annotations

import itertools
import math

import numpy as np

from .. import common, sites
from ..common import f2h, h2f
from ..gen import quat as G
from ..main import lean_phase

TOL = 1e-11  # absolute, for unit-scale quantities; scaled by vector length where vectors enter
KERNELS = ["qu_conj_gufunc", "qu_multiply_gufunc", "qu_rotate_vec_gufunc", "qu2om_single", "outer_dask_qq",
           "outer_dask_qv"]


def _imp():
    from orix.quaternion import Quaternion, Rotation, Orientation, Misorientation
    from orix.quaternion import quaternion as qmod
    from orix.vector import Vector3d, Miller
    return Quaternion, Rotation, Orientation, Misorientation, qmod, Vector3d, Miller


def hexes(xs):
    return " ".join(f2h(x) for x in xs)


def close(a, b, tol):
    a, b = np.asarray(a, float), np.asarray(b, float)
    return a.shape == b.shape and (a.size == 0 or np.max(np.abs(a - b)) <= tol)


def same_rot(q1, q2, tol=TOL):
    q1, q2 = np.asarray(q1, float), np.asarray(q2, float)
    return q1.shape == q2.shape and (q1.size == 0 or bool(np.all(
        np.minimum(np.abs(q1 - q2).max(axis=-1), np.abs(q1 + q2).max(axis=-1)) <= tol)))


# ---------------- corr sites ---------------------------------------------------------
def qmul_exact_lines(c):
    a = " ".join(map(str, c["q1"] + c["q2"]))
    return [f"kern m qmul i {a}", f"kern g qu_multiply_gufunc i {a}", f"kern g outer_dask_qq i {a}"]


def qmul_exact_check(ctx, c, outs):
    Q, R, O, M, qmod, V, Mi = _imp()
    model = [int(x) for x in outs[0].split()]
    res = []
    for tag, o in (("generated qu_multiply_gufunc", outs[1]), ("generated dask table", outs[2])):
        if not o.startswith("!err unknown") and [int(x) for x in o.split()] != model:
            res.append(f"{tag} != model on integers: {o} vs {outs[0]}")
    q1, q2 = np.array(c["q1"], float), np.array(c["q2"], float)
    impl = (Q(q1) * Q(q2)).data.reshape(-1)
    fb = qmod.qu_multiply(q1, q2).reshape(-1)
    lazy = Q(q1).outer(Q(q2), lazy=True, chunk_size=1, progressbar=False).data.reshape(-1)
    for tag, v in (("Quaternion.__mul__", impl), ("qu_multiply (built-in path)", fb), ("outer(lazy=True)", lazy)):
        if [float(x) for x in v] != [float(x) for x in model]:
            res.append(f"{tag} = {v.tolist()} but model product = {model}")
    return "; ".join(res) if res else None


def qrot_exact_lines(c):
    a = " ".join(map(str, c["q"] + c["v"]))
    return [f"kern m qrot i {a}", f"kern g qu_rotate_vec_gufunc i {a}", f"kern m matvec i {a}",
            f"kern g outer_dask_qv i {a}", f"kern g qu2om_single i {' '.join(map(str, c['q']))}",
            f"kern m qu2om i {' '.join(map(str, c['q']))}"]


def qrot_exact_check(ctx, c, outs):
    Q, R, O, M, qmod, V, Mi = _imp()
    model = [int(x) for x in outs[0].split()]
    if not outs[1].startswith("!err unknown") and [int(x) for x in outs[1].split()] != model:
        return f"generated qu_rotate_vec_gufunc != model: {outs[1]} vs {outs[0]}"
    if not outs[3].startswith("!err unknown") and outs[3] != outs[2]:
        return f"generated dask q·v table != model matrix·vector: {outs[3]} vs {outs[2]}"
    if not outs[4].startswith("!err unknown") and outs[4] != outs[5]:
        return f"generated qu2om_single != model: {outs[4]} vs {outs[5]}"
    q, v = np.array(c["q"], float), np.array(c["v"], float)
    fb = qmod.qu_rotate_vec(q, v).reshape(-1)
    if [float(x) for x in fb] != [float(x) for x in model]:
        return f"qu_rotate_vec(built-in path) = {fb.tolist()} but model = {model}"
    from orix.quaternion import _conversions as cv
    om = cv.qu2om(q.reshape(1, 4)).reshape(-1)
    if [float(x) for x in om] != [float(x) for x in outs[5].split()]:
        return f"qu2om = {om.tolist()} but model = {outs[5]}"
    lazy = Q(q).outer(V(v), lazy=True, chunk_size=1, progressbar=False).data.reshape(-1)
    if [float(x) for x in lazy] != [float(int(x)) for x in outs[2].split()]:
        return f"outer(lazy) q·v = {lazy.tolist()} but model matrix·vector = {outs[2]}"
    return None


def rot_float_lines(c):
    r1 = c["r1"]["q"] + [1.0 if c["r1"]["i"] else 0.0]
    r2 = c["r2"]["q"] + [1.0 if c["r2"]["i"] else 0.0]
    return [f"kern m rmul f {hexes(r1 + r2)}", f"kern m rinv f {hexes(r1)}", f"kern m rneg f {hexes(r1)}",
            f"kern m ract f {hexes(r1 + c['v'])}", f"kern m qsandwich f {hexes(c['r1']['q'] + c['v'])}"]


def rot_float_check(ctx, c, outs):
    Q, R, O, M, qmod, V, Mi = _imp()
    m = [[h2f(x) for x in o.split()] for o in outs]
    R1 = R(np.array(c["r1"]["q"]))
    R1.improper = c["r1"]["i"]
    R2 = R(np.array(c["r2"]["q"]))
    R2.improper = c["r2"]["i"]
    v = V(np.array(c["v"]))
    scale = max(1.0, float(np.linalg.norm(c["v"])))
    P = R1 * R2
    res = []
    for tag, obj, mod in (("R1*R2", P, m[0]), ("~R1", ~R1, m[1]), ("-R1", -R1, m[2])):
        d = np.abs(obj.data.reshape(-1) - np.array(mod[:4])).max()
        ctx.dev("rot_component_abs", d)
        if d > TOL:
            res.append(f"{tag}: data {obj.data.reshape(-1).tolist()} vs model {mod[:4]}")
        if bool(obj.improper.reshape(-1)[0]) != (mod[4] == 1.0):
            res.append(f"{tag}: improper {bool(obj.improper.reshape(-1)[0])} vs model {mod[4] == 1.0}")
    w = (R1 * v).data.reshape(-1)
    d = np.abs(w - np.array(m[3])).max() / scale
    ctx.dev("act_rel", d)
    if d > TOL:
        res.append(f"R1*v = {w.tolist()} vs model {m[3]}")
    w2 = (Q(np.array(c["r1"]["q"])) * v).data.reshape(-1)
    d = np.abs(w2 - np.array(m[4])).max() / scale
    if d > TOL:
        res.append(f"Quaternion*v = {w2.tolist()} vs model sandwich {m[4]}")
    return "; ".join(res) if res else None


def outer_lines(c):
    A = np.array(c["A"], float).reshape(-1, 4)
    B = np.array(c["B"], float).reshape(-1, 4 if c["kind"] == "qq" else 3)
    op = "qmul" if c["kind"] == "qq" else "qrot"
    return [f"kern m {op} f {hexes(list(a) + list(b))}" for a in A for b in B]


def outer_check(ctx, c, outs):
    Q, R, O, M, qmod, V, Mi = _imp()
    sa, sb = tuple(c["sa"]), tuple(c["sb"])
    A = Q(np.array(c["A"], float).reshape(sa + (4,)))
    if c["kind"] == "qq":
        B = Q(np.array(c["B"], float).reshape(sb + (4,)))
        dim = 4
    else:
        B = V(np.array(c["B"], float).reshape(sb + (3,)))
        dim = 3
    out = A.outer(B, lazy=c["lazy"], chunk_size=c["chunk"], progressbar=False)
    if tuple(out.shape) != sa + sb:
        return f"outer shape {tuple(out.shape)} != self.shape + other.shape = {sa + sb}"
    model = np.array([[h2f(x) for x in o.split()] for o in outs], float).reshape(sa + sb + (dim,))
    if model.size:
        d = np.abs(out.data - model).max()
        ctx.dev("outer_abs", d)
        if d > 1e-10:
            idx = np.unravel_index(np.argmax(np.abs(out.data - model).max(axis=-1)), sa + sb)
            return (f"outer[{tuple(int(i) for i in idx)}] = {out.data[idx].tolist()} but model "
                    f"self[{idx[:len(sa)]}]*other[{idx[len(sa):]}] = {model[idx].tolist()}")
    return None


# ---------------- prop sites (predicates of the property on the implementation) --------
def _rot(R, d):
    # the values in a memory layout chosen by the case (C / Fortran / strided view / read-only / negative stride)
    r = R(common.relayout(np.array(d["q"], float).reshape(tuple(d.get("shape", ())) + (4,)), d["q"]))
    r.improper = np.array(d["i"], bool).reshape(tuple(d.get("shape", ())))
    return r


def compose_check(ctx, c, outs):
    Q, R, O, M, qmod, V, Mi = _imp()
    R1, R2 = _rot(R, c["r1"]), _rot(R, c["r2"])
    v = V(np.array(c["v"], float))
    scale = max(1.0, float(np.abs(v.data).max()))
    lhs = ((R1 * R2) * v).data
    rhs = (R1 * (R2 * v)).data
    d = np.abs(lhs - rhs).max() / scale
    ctx.dev("compose_rel", d)
    if d > 1e-10:
        return f"(R1*R2)*v = {lhs.tolist()} but R1*(R2*v) = {rhs.tolist()}"
    P = R1 * R2
    if not np.array_equal(P.improper, np.logical_xor(R1.improper, R2.improper)):
        return f"improper(R1*R2) = {P.improper.tolist()} is not the parity of the factors"
    if np.abs(P.norm - 1).max() > 1e-12:
        return f"product of unit rotations has norm {P.norm.tolist()}"
    mP = P.to_matrix()
    mm = R1.to_matrix() @ R2.to_matrix()
    if np.abs(mP - mm).max() > 1e-10:
        return f"matrix of product {mP.tolist()} != product of matrices {mm.tolist()}"
    # improper acts as proper part followed by inversion
    Rp = R(R1.data)
    w = (R1 * v).data
    wp = (Rp * v).data
    sgn = np.where(R1.improper, -1.0, 1.0)[..., None]
    if np.abs(w - sgn * wp).max() / scale > 1e-12:
        return f"R*v = {w.tolist()} is not (±)proper part {wp.tolist()} with flags {R1.improper.tolist()}"
    # matrix times vector equals quaternion times vector
    mv = np.einsum("...ij,...j->...i", R1.to_matrix(), v.data) * 1.0
    if np.abs(mv - wp).max() / scale > 1e-10:
        return f"to_matrix()@v = {mv.tolist()} but proper part * v = {wp.tolist()}"
    # inverse, negation
    I = R1 * ~R1
    if np.abs(np.abs(I.data[..., 0]) - 1).max() > 1e-12 or np.abs(I.data[..., 1:]).max() > 1e-12 or I.improper.any():
        return f"R*~R = {I.data.tolist()} improper={I.improper.tolist()} is not the identity"
    if not np.array_equal((~R1).improper, R1.improper):
        return "inverse changed properness"
    N = -R1
    if not np.array_equal(N.improper, ~R1.improper) or not same_rot(N.data, R1.data, 1e-15):
        return "unary minus does not toggle properness / changes the proper part"
    # lengths and mutual angles
    u = V(np.array(c["u"], float))
    a, b = (R1 * v), (R1 * u)
    if np.abs(a.dot(b) - v.dot(u)).max() / max(1.0, float(np.abs(v.dot(u)).max()), scale) > 1e-10:
        return f"dot product changed by rotation: {a.dot(b).tolist()} vs {v.dot(u).tolist()}"
    if np.abs(a.norm - v.norm).max() / scale > 1e-10:
        return "length changed by rotation"
    return None


def outer_prop_check(ctx, c, outs):
    Q, R, O, M, qmod, V, Mi = _imp()
    R1 = _rot(R, c["r1"])
    sa = tuple(c["r1"]["shape"])
    if c["kind"] == "rr":
        R2 = _rot(R, c["r2"])
        sb = tuple(c["r2"]["shape"])
        out = R1.outer(R2, lazy=c["lazy"], chunk_size=c["chunk"], progressbar=False) if c["lazy"] else R1.outer(R2)
        if tuple(out.shape) != sa + sb:
            return f"outer shape {tuple(out.shape)} != {sa + sb}"
        for i in np.ndindex(*sa):
            for j in np.ndindex(*sb):
                e = R1[i] * R2[j]
                if not close(out[i + j].data.reshape(-1), e.data.reshape(-1), 1e-10):
                    return f"outer[{i + j}] = {out[i + j].data.tolist()} != self[{i}]*other[{j}] = {e.data.tolist()}"
                if bool(out.improper[i + j]) != bool(e.improper.reshape(-1)[0]):
                    return f"outer improper[{i + j}] = {bool(out.improper[i + j])} != parity {bool(e.improper.reshape(-1)[0])}"
    else:
        sb = tuple(c["vshape"])
        if c["kind"] == "rm":
            from orix.crystal_map import Phase
            ph = Phase(point_group="m-3m")
            v = Mi(xyz=np.array(c["v"], float).reshape(sb + (3,)), phase=ph)
            v.coordinate_format = "hkl"
        else:
            v = V(common.relayout(np.array(c["v"], float).reshape(sb + (3,)), c["v"]))
        out = R1.outer(v, lazy=c["lazy"], chunk_size=c["chunk"], progressbar=False) if c["lazy"] else R1.outer(v)
        if tuple(out.shape) != sa + sb:
            return f"outer shape {tuple(out.shape)} != {sa + sb}"
        if not isinstance(out, V):
            return f"outer with vectors returned {type(out).__name__}"
        scale = max(1.0, float(np.abs(v.data).max())) if v.size else 1.0
        for i in np.ndindex(*sa):
            for j in np.ndindex(*sb):
                e = (R1[i] * v[j]).data.reshape(-1)
                if not close(out[i + j].data.reshape(-1) / scale, e / scale, 1e-10):
                    return f"outer[{i + j}] = {out[i + j].data.tolist()} != self[{i}]*other[{j}] = {e.tolist()}"
    return None


def bcast_check(ctx, c, outs):
    """element-wise products over broadcastable shapes equal the per-element products"""
    Q, R, O, M, qmod, V, Mi = _imp()
    R1, R2 = _rot(R, c["r1"]), _rot(R, c["r2"])
    sa, sb = tuple(c["r1"]["shape"]), tuple(c["r2"]["shape"])
    P = R1 * R2
    shp = np.broadcast_shapes(sa, sb)
    if tuple(P.shape) != tuple(shp):
        return f"broadcast product shape {tuple(P.shape)} != {tuple(shp)}"
    A = np.broadcast_to(R1.data, shp + (4,))
    B = np.broadcast_to(R2.data, shp + (4,))
    IA = np.broadcast_to(R1.improper, shp)
    IB = np.broadcast_to(R2.improper, shp)
    for i in np.ndindex(*shp):
        e = (Q(A[i]) * Q(B[i])).data.reshape(-1)
        if not close(P.data[i], e, 1e-12) or bool(P.improper[i]) != bool(IA[i] ^ IB[i]):
            return f"(R1*R2)[{i}] = {P.data[i].tolist()}/{bool(P.improper[i])} != R1[..]*R2[..] = {e.tolist()}/{bool(IA[i] ^ IB[i])}"
    return None


def bcast_vec_check(ctx, c, outs):
    """rotation (mixed proper/improper) times vectors over broadcastable shapes = per-element products"""
    Q, R, O, M, qmod, V, Mi = _imp()
    R1 = _rot(R, c["r1"])
    sa, sb = tuple(c["r1"]["shape"]), tuple(c["vshape"])
    v = V(common.relayout(np.array(c["v"], float).reshape(sb + (3,)), c["v"]))
    out = (R1 * v).data
    shp = np.broadcast_shapes(sa, sb)
    if tuple(out.shape[:-1]) != tuple(shp):
        return f"broadcast product shape {tuple(out.shape[:-1])} != {tuple(shp)}"
    A = np.broadcast_to(R1.data, shp + (4,))
    IA = np.broadcast_to(R1.improper, shp)
    B = np.broadcast_to(v.data, shp + (3,))
    scale = max(1.0, float(np.abs(v.data).max()))
    for i in np.ndindex(*shp):
        e = (Q(A[i]) * V(B[i])).data.reshape(3) * (-1.0 if IA[i] else 1.0)
        if np.abs(out[i] - e).max() / scale > 1e-12:
            return (f"(R*v)[{i}] = {out[i].tolist()} but the element-wise product of R[..] (improper={bool(IA[i])}) and v[..] is "
                    f"{e.tolist()} (shapes {sa} x {sb})")
    # an improper rotation acts as its proper part followed by inversion: what kind of object comes back (class, phase,
    # coordinate format of crystal vectors) must be the same as for the proper parts
    from orix.crystal_map import Phase
    m = Mi(xyz=np.array(v.data, copy=True), phase=Phase(point_group="m-3m"))
    m.coordinate_format = "hkl"
    Rp = R(np.array(R1.data, copy=True))
    got, ref = R1 * m, Rp * m
    if type(got) is not type(ref) or getattr(got, "coordinate_format", None) != getattr(ref, "coordinate_format", None) \
            or (getattr(got, "phase", None) is None) != (getattr(ref, "phase", None) is None):
        return (f"Rotation * Miller returns {type(got).__name__} (format {getattr(got, 'coordinate_format', None)}, phase "
                f"{'kept' if getattr(got, 'phase', None) is not None else 'lost'}) for improper flags {R1.improper.reshape(-1).tolist()} "
                f"but {type(ref).__name__} (format {getattr(ref, 'coordinate_format', None)}, phase "
                f"{'kept' if getattr(ref, 'phase', None) is not None else 'lost'}) for the proper parts")
    return None


def quat_vec_check(ctx, c, outs):
    """plain `Quaternion` objects (NOT normalised by the constructor) acting on vectors: the action is that of the rotation
    the quaternion denotes (q / |q|), so lengths and mutual angles are kept, it agrees with `to_matrix`, and the eager outer
    product holds exactly the pairwise element-wise products"""
    Q, R, O, M, qmod, V, Mi = _imp()
    qd = np.array(c["q"], float)
    sa, sb = tuple(c["qshape"]), tuple(c["vshape"])
    A = Q(common.relayout(qd.reshape(sa + (4,)), c["q"]))
    v = V(common.relayout(np.array(c["v"], float).reshape(sb + (3,)), c["v"]))
    scale = max(1.0, float(np.abs(v.data).max()))

    def ref(q, x):                     # rotation by the unit quaternion q/|q| = (a, r): x + 2a r×x + 2 r×(r×x)
        q = np.asarray(q, float) / math.sqrt(float(np.dot(q, q)))
        a, r = q[0], q[1:]
        t = np.cross(r, x)
        return x + 2 * a * t + 2 * np.cross(r, t)

    out = A.outer(v)
    if tuple(out.shape) != sa + sb:
        return f"Quaternion.outer(Vector3d) shape {tuple(out.shape)} != {sa + sb}"
    for i in np.ndindex(*sa):
        for j in np.ndindex(*sb):
            e = ref(A.data[i], v.data[j])
            one = (A[i] * v[j]).data.reshape(-1)
            if np.abs(one - e).max() / scale > 1e-12:
                return (f"Quaternion {A.data[i].tolist()} (norm {float(np.linalg.norm(A.data[i]))}) * vector {v.data[j].tolist()} = "
                        f"{one.tolist()} but the rotation it denotes gives {e.tolist()}")
            if abs(float(np.linalg.norm(one)) - float(np.linalg.norm(v.data[j]))) / scale > 1e-12:
                return f"length changed by Quaternion * vector: {float(np.linalg.norm(one))} vs {float(np.linalg.norm(v.data[j]))}"
            if np.abs(out.data[i + j] - one).max() / scale > 1e-12:
                return (f"Quaternion.outer(Vector3d)[{i + j}] = {out.data[i + j].tolist()} != self[{i}] * other[{j}] = {one.tolist()} "
                        f"(quaternion {A.data[i].tolist()})")
            m = A[i].to_matrix().reshape(3, 3)
            if np.abs(m @ v.data[j] - one).max() / scale > 1e-12:
                return f"Quaternion {A.data[i].tolist()}: to_matrix() @ v = {(m @ v.data[j]).tolist()} but Q * v = {one.tolist()}"
    if sa == sb or int(np.prod(sa)) == 1 or int(np.prod(sb)) == 1:
        try:
            P = (A * v).data
        except ValueError:
            P = None
        if P is not None:
            shp = np.broadcast_shapes(sa, sb)
            AA, BB = np.broadcast_to(A.data, shp + (4,)), np.broadcast_to(v.data, shp + (3,))
            for i in np.ndindex(*shp):
                if np.abs(P[i] - ref(AA[i], BB[i])).max() / scale > 1e-12:
                    return (f"(Quaternion * Vector3d)[{i}] = {P[i].tolist()} but the rotation denoted by {AA[i].tolist()} maps "
                            f"{BB[i].tolist()} to {ref(AA[i], BB[i]).tolist()}")
    return None


def rotation_misc_check(ctx, c, outs):
    """less travelled members of `Rotation` that carry the product / properness clauses: multiplication by +-1 (toggles the
    improper flag element-wise, nothing else), `Rotation * Quaternion`, rotation angles between rotations (`angle_with`,
    `angle_with_outer`, `degrees`) = the angle of `~R1 * R2`, and `dot_outer` = |<q1, q2>| with 0 across different properness"""
    Q, R, O, M, qmod, V, Mi = _imp()
    R1, R2 = _rot(R, c["r1"]), _rot(R, c["r2"])
    n1, n2 = R1.size, R2.size
    signs = np.array(c["signs"], int).reshape(R1.shape)
    # (a numpy array of signs is not accepted by the unchanged code - `ndarray * Rotation` is refused - so lists are used)
    for fac, want in ((-1, ~R1.improper), (1, R1.improper), (signs.tolist(), np.logical_xor(R1.improper, signs == -1))):
        P = R1 * fac
        if not isinstance(P, R) or not np.array_equal(P.improper, want) or not same_rot(P.data, R1.data, 1e-15):
            return (f"Rotation * {np.asarray(fac).tolist()} has improper flags {np.asarray(P.improper).tolist()} (expected "
                    f"{np.asarray(want).tolist()}) or changed its quaternions")
    # the same rotations seen as another class (Orientation(R), Misorientation(R), Orientation(Misorientation(R)),
    # Rotation(Orientation(R))): same improper flags, same action on vectors, same flags under ~ and products
    vv = V(np.array([0.3, -1.2, 2.0]))
    base_act = (R1 * vv).data
    for label, conv in (("Orientation(R)", lambda r: O(r)), ("Misorientation(R)", lambda r: M(r)),
                        ("Orientation(Misorientation(R))", lambda r: O(M(r))), ("Rotation(Orientation(R))", lambda r: R(O(r))),
                        ("Misorientation(Orientation(R))", lambda r: M(O(r)))):
        X = conv(R1)
        if not np.array_equal(np.asarray(X.improper), np.asarray(R1.improper)):
            return (f"{label} has improper flags {np.asarray(X.improper).tolist()} but the rotation has "
                    f"{np.asarray(R1.improper).tolist()}")
        if not close((X * vv).data, base_act, 1e-12):
            return f"{label} * v = {np.asarray((X * vv).data).tolist()} but R * v = {base_act.tolist()} (flags {np.asarray(R1.improper).tolist()})"
        if not np.array_equal(np.asarray((~X).improper), np.asarray(R1.improper)):
            return f"~{label} has improper flags {np.asarray((~X).improper).tolist()}, expected {np.asarray(R1.improper).tolist()}"
        if not np.array_equal(np.asarray(X.outer(R2).improper), np.logical_xor.outer(R1.improper, R2.improper)):
            return f"{label}.outer(R2): improper flags are not the parity of the operands' flags"
    try:
        R1 * 2
        return "Rotation * 2 is accepted (only +-1 are)"
    except ValueError:
        pass
    q = Q(np.array(R2.data, copy=True))
    if R1.shape == R2.shape:
        P = R1 * q
        ref = np.stack([(Q(R1.data[i]) * Q(R2.data[i])).data.reshape(4) for i in np.ndindex(*R1.shape)]).reshape(R1.shape + (4,))
        if isinstance(P, R) or not close(P.data, ref, 1e-12):
            return f"Rotation * Quaternion = {type(P).__name__} {np.asarray(P.data).tolist()} but the quaternion products are {ref.tolist()}"
        a = R1.angle_with(R2)
        ad = R1.angle_with(R2, degrees=True)
        want = np.array([float(np.atleast_1d((~R(R1.data[i]) * R(R2.data[i])).angle)[0]) for i in np.ndindex(*R1.shape)]).reshape(R1.shape)
        same = R1.improper == R2.improper          # pairs of different properness: no rotation relates them, nothing demanded
        if a.shape != R1.shape or (same.any() and np.abs(a - want)[same].max() > 1e-7):
            return f"Rotation.angle_with = {a.tolist()} but the rotation angles of ~R1 * R2 are {want.tolist()} (same properness: {same.tolist()})"
        if np.abs(np.deg2rad(ad) - a).max() > 1e-12:
            return "Rotation.angle_with(degrees=True) is not the angle in radians rescaled"
    A = R1.angle_with_outer(R2)
    Ad = R1.angle_with_outer(R2, degrees=True)
    D = R1.dot_outer(R2)
    if A.shape != R1.shape + R2.shape or D.shape != R1.shape + R2.shape:
        return f"outer angle / dot shapes {A.shape}, {D.shape} for rotations of shapes {R1.shape}, {R2.shape}"
    if np.abs(np.deg2rad(Ad) - A).max() > 1e-12:
        return "Rotation.angle_with_outer(degrees=True) is not the angle in radians rescaled"
    for i in np.ndindex(*R1.shape):
        for j in np.ndindex(*R2.shape):
            dq = abs(float(np.dot(R1.data[i], R2.data[j])))
            wa = 2 * math.acos(min(1.0, dq))
            if bool(R1.improper[i]) == bool(R2.improper[j]) and abs(A[i + j] - wa) > 1e-7:
                return (f"Rotation.angle_with_outer[{i + j}] = {float(A[i + j])!r} but the rotation angle between self[{i}] and "
                        f"other[{j}] is {wa!r}")
            wd = dq if bool(R1.improper[i]) == bool(R2.improper[j]) else 0.0
            if abs(D[i + j] - wd) > 1e-12:
                return (f"Rotation.dot_outer[{i + j}] = {float(D[i + j])!r} but |<q1, q2>| = {dq!r} with improper flags "
                        f"{bool(R1.improper[i])}, {bool(R2.improper[j])} (expected {wd!r})")
    return None


def reuse_check(ctx, c, outs):
    """products of an object that was used before and then edited IN PLACE (setitem / data / component setters, also
    strided views) equal the products of a freshly constructed object with the same content"""
    Q, R, O, M, qmod, V, Mi = _imp()
    cls = {"Q": Q, "R": R}[c["cls"]]
    a0 = np.array(c["a"], float)
    b = cls(np.array(c["b"], float))
    v = V(np.array(c["v"], float))
    A = cls(a0.copy())
    if c["cls"] == "R":
        A.improper = np.array(c["fa"], bool)
    if c.get("strided"):
        A = A[::2]
        a0 = A.data.copy()
    _ = A.outer(b), A * v[: A.size] if v.size >= A.size else None   # first use
    if A.shape == b.shape:
        _ = A * b
    new = np.array(c["new"], float)
    k = c["k"] % A.size
    if c["edit"] == "setitem":
        A[k] = cls(new[None, :])
    elif c["edit"] == "data":
        d = A.data.copy()
        d[k] = new
        A.data = d
    elif c["edit"] == "setter":
        for nm, val in zip("abcd", new):         # whole-component assignment through the property setters
            comp = np.array(getattr(A, nm), copy=True)
            comp[k] = val
            setattr(A, nm, comp)
    else:
        A.a[k], A.b[k], A.c[k], A.d[k] = new
    cur = A.data.copy()
    fresh = cls(cur.copy())
    if c["cls"] == "R":
        fresh.improper = A.improper.copy()
    for name, f in (("outer", lambda X: X.outer(b).data), ("outer_v", lambda X: X.outer(v).data),
                    ("mul", (lambda X: (X * b).data) if A.shape == b.shape else None),
                    ("inv_mul", lambda X: (X * ~X).data)):
        if f is None:
            continue
        got, want = f(A), f(fresh)
        if got.shape != want.shape or np.abs(got - want).max() > 1e-12:
            return (f"{c['cls']}: {name} after an in-place edit ({c['edit']}, element {k}, strided={bool(c.get('strided'))}) "
                    f"differs from the same product of a freshly constructed object by {np.abs(got - want).max():.3e}")
    return None


def align_check(ctx, c, outs):
    Q, R, O, M, qmod, V, Mi = _imp()
    q = np.array(c["q"], float)
    init = V(np.array(c["vs"], float))
    target = Q(q) * init
    for cls in (Q, R):
        est = cls.from_align_vectors(target, init)
        got = (est * init).data
        scale = np.abs(target.data).max()
        d = np.abs(got - target.data).max() / scale
        ctx.dev("align_rel", d)
        # the estimate passes through the thresholded matrix -> quaternion kernel (eps on squared quantities),
        # whose accuracy is sqrt(eps) ~ 3e-5 rad by design: tau = 1e-4 for this path (DESIGN 2.3)
        if d > 1e-4:
            return (f"{cls.__name__}.from_align_vectors(other, initial)*initial = {got.tolist()} but other = "
                    f"{target.data.tolist()} (exact rotation {q.tolist()} exists)")
    # crystal vectors: Orientation / Misorientation estimates map the initial set onto the target set as well, carry the
    # point group(s) of the phases, and report a vanishing root-mean-square distance
    from orix.crystal_map import Phase
    pg_t, pg_i = ["m-3m", "432", "mmm", "4/mmm"][len(c["vs"]) % 4], ["222", "m-3m", "4", "mmm"][len(c["vs"]) % 4]
    mt = Mi(xyz=np.array(target.data, copy=True), phase=Phase(point_group=pg_t))
    mi = Mi(xyz=np.array(init.data, copy=True), phase=Phase(point_group=pg_i))
    scale = np.abs(target.data).max()
    est, rmsd = O.from_align_vectors(mt, init, return_rmsd=True)
    if not isinstance(est, O) or est.symmetry.name != pg_t:
        return f"Orientation.from_align_vectors returns {type(est).__name__} with symmetry {getattr(est, 'symmetry', None)!r}, expected {pg_t}"
    if np.abs((est * init).data - target.data).max() / scale > 1e-4 or abs(float(rmsd)) > 1e-4 * scale * math.sqrt(len(c["vs"])):
        return (f"Orientation.from_align_vectors(other, initial)*initial = {(est * init).data.tolist()} (rmsd {float(rmsd)!r}) but other = "
                f"{target.data.tolist()}")
    est2 = M.from_align_vectors(mt, mi)
    if not isinstance(est2, M) or [g.name for g in est2.symmetry] != [pg_i, pg_t]:
        return (f"Misorientation.from_align_vectors returns {type(est2).__name__} with symmetry "
                f"{[g.name for g in getattr(est2, 'symmetry', [])]}, expected {[pg_i, pg_t]}")
    if np.abs((est2 * init).data - target.data).max() / scale > 1e-4:
        return f"Misorientation.from_align_vectors(other, initial)*initial = {(est2 * init).data.tolist()} but other = {target.data.tolist()}"
    return None


SITES = {
    "qmul_exact": sites.Site("qmul_exact", "corr", qmul_exact_check, qmul_exact_lines),
    "qrot_exact": sites.Site("qrot_exact", "corr", qrot_exact_check, qrot_exact_lines),
    "rot_float": sites.Site("rot_float", "corr", rot_float_check, rot_float_lines),
    "outer_model": sites.Site("outer_model", "corr", outer_check, outer_lines),
    "compose": sites.Site("compose", "prop", compose_check),
    "outer_index": sites.Site("outer_index", "prop", outer_prop_check),
    "broadcast": sites.Site("broadcast", "prop", bcast_check),
    "broadcast_vec": sites.Site("broadcast_vec", "prop", bcast_vec_check),
    "quat_vec": sites.Site("quat_vec", "prop", quat_vec_check),
    "rotation_misc": sites.Site("rotation_misc", "prop", rotation_misc_check),
    "align": sites.Site("align", "prop", align_check),
    "reuse_after_edit": sites.Site("reuse_after_edit", "prop", reuse_check),
}
PREDICATES = {}


BROADCAST_PAIRS = [((3, 1), (4,)), ((2, 1), (3,)), ((1, 3), (2, 1)), ((2, 1), (1, 3)), ((3,), (2, 1)), ((2, 1, 2), (3, 1)),
                   ((2, 3), (3,)), ((3,), (2, 3)), ((1,), (4,)), ((4,), (1,)), ((2, 2), (2, 1)), ((2, 1), (2, 2)), ((1, 2), (3, 2)),
                   ((2, 1, 1), (3, 2)), ((3, 1), (3, 3)), ((2, 2), (2, 2))]


def rot_arr(rng, shape):
    n = int(np.prod(shape)) if len(shape) else 1
    qs = [G.unit_quat(rng)[0] for _ in range(n)]
    return {"q": qs, "i": [bool(rng.integers(2)) for _ in range(n)], "shape": list(shape)}


def generate(ctx):
    rng = ctx.rng
    n = 150 if ctx.tier == "quick" else 3000
    basis = [[1, 0, 0, 0], [0, 1, 0, 0], [0, 0, 1, 0], [0, 0, 0, 1]]
    for a, b in itertools.product(basis, basis):
        c = {"q1": a, "q2": b}
        ctx.count("qmul_exact/basis", ("qm", a, b), nontrivial=(a != basis[0] and b != basis[0]))
        yield "qmul_exact", c
    for _ in range(n):
        c = {"q1": G.int_quat(rng), "q2": G.int_quat(rng)}
        ctx.count("qmul_exact/int", ("qm", c["q1"], c["q2"]))
        ctx.sample({"site": "qmul_exact", **c})
        yield "qmul_exact", c
        c = {"q": G.int_quat(rng), "v": [int(x) for x in rng.integers(-5, 6, size=3)]}
        ctx.count("qrot_exact/int", ("qr", c["q"], c["v"]), nontrivial=any(c["v"]))
        yield "qrot_exact", c
    for _ in range(n):
        q1, s1 = G.unit_quat(rng)
        q2, s2 = G.unit_quat(rng)
        c = {"r1": {"q": q1, "i": bool(rng.integers(2))}, "r2": {"q": q2, "i": bool(rng.integers(2))},
             "v": G.vec(rng)}
        ctx.count(f"rot_float/{s1}", ("rf", q1, q2, c["v"]), nontrivial=(s1 != "identity" or s2 != "identity"))
        ctx.sample({"site": "rot_float", **c})
        yield "rot_float", c
        c2 = {"r1": {"q": [q1], "i": [c["r1"]["i"]], "shape": []}, "r2": {"q": [q2], "i": [c["r2"]["i"]], "shape": []},
              "v": c["v"], "u": G.vec(rng)}
        c2["r1"]["shape"] = [1]
        c2["r2"]["shape"] = [1]
        ctx.count(f"compose/{s2}", ("co", q1, q2, c["v"]), nontrivial=(s1 != "identity" or s2 != "identity"))
        yield "compose", c2
    # fixed broadcasting strata, every run: a size-1 axis of the rotations against a longer axis of the other operand in
    # every position, flags guaranteed mixed along every axis of the rotation object (a tiled / flattened / transposed
    # flag array then differs from the broadcast one)
    for sa, sb in BROADCAST_PAIRS:
        for rep in range(2):
            r1 = rot_arr(rng, sa)
            n1 = len(r1["i"])
            r1["i"] = [bool((sum(ix) + rep) % 2) for ix in np.ndindex(*sa)]     # checkerboard: mixed along every axis
            c = {"r1": r1, "vshape": list(sb), "v": [G.vec(rng) for _ in range(int(np.prod(sb)))]}
            ctx.count("broadcast_vec/fixed_pairs", ("bvf", sa, sb, rep), nontrivial=(sa != sb))
            yield "broadcast_vec", c
            r2 = rot_arr(rng, sb)
            n2 = len(r2["i"])
            r2["i"] = [bool((j + 1 + rep) % 2) for j in range(n2)]
            c = {"r1": dict(r1), "r2": r2}
            ctx.count("broadcast/fixed_pairs", ("bcf", sa, sb, rep), nontrivial=(sa != sb))
            yield "broadcast", c
    for k in range(10 if ctx.tier == "quick" else 150):
        sa = [(3,), (2, 2), (1,), (2, 3)][k % 4]
        sb = sa if k % 2 == 0 else [(2,), (1, 3), (2, 2)][k % 3]
        r1, r2 = rot_arr(rng, sa), rot_arr(rng, sb)
        c = {"r1": r1, "r2": r2, "signs": [int(rng.choice([-1, 1])) for _ in r1["i"]]}
        ctx.count("rotation_misc", ("rmisc", k, tuple(r1["q"][0])), nontrivial=True)
        yield "rotation_misc", c
    for k in range(12 if ctx.tier == "quick" else 200):
        sa = [(2,), (1,), (2, 2), (3,)][k % 4]
        sb = [sa, (1,), (3,), (2, 1)][(k // 4) % 4]
        qs = []
        for j in range(int(np.prod(sa))):
            q = np.array(G.unit_quat(rng)[0], float)
            qs.append([float(t) for t in q * [1.0, 2.0, 0.5, 3.75, 1e-3, 40.0][(j + k) % 6]])
        if k % 3 == 0:
            qs[0] = [[1.0, 1.0, 0.0, 0.0], [0.0, 0.0, 2.0, 0.0], [1.0, -1.0, 1.0, -1.0], [-3.0, 0.0, 0.0, 4.0]][(k // 3) % 4]
        c = {"q": qs, "qshape": list(sa), "vshape": list(sb), "v": [G.vec(rng) for _ in range(int(np.prod(sb)))]}
        ctx.count("quat_vec/non_unit", ("qv", k, qs[0]), nontrivial=True)
        yield "quat_vec", c
    m = 40 if ctx.tier == "quick" else 600
    for k in range(m):
        sa, sb = G.shape(rng), G.shape(rng)
        kind = ["qq", "qv"][k % 2]
        A = [G.unit_quat(rng)[0] for _ in range(int(np.prod(sa)))]
        B = [G.unit_quat(rng)[0] if kind == "qq" else G.vec(rng) for _ in range(int(np.prod(sb)))]
        lazy = bool(k % 3 == 0)
        c = {"kind": kind, "sa": list(sa), "sb": list(sb), "A": A, "B": B, "lazy": lazy,
             "chunk": int(rng.choice([1, 2, 3, 20]))}
        ctx.count(f"outer_model/{kind}/{'lazy' if lazy else 'eager'}/ndim{len(sa)}x{len(sb)}", ("om", A, B, sa, sb),
                  nontrivial=(len(A) * len(B) > 1))
        if not (lazy and (0 in sa or 0 in sb)):
            yield "outer_model", c
        sa, sb = G.shape(rng), G.shape(rng)
        kind = ["rr", "rv", "rm"][k % 3]
        lazy = bool(k % 4 == 1) and 0 not in sa and 0 not in sb
        c = {"kind": kind, "r1": rot_arr(rng, sa), "lazy": lazy, "chunk": int(rng.choice([1, 2, 20]))}
        if kind == "rr":
            c["r2"] = rot_arr(rng, sb)
        else:
            c["vshape"] = list(sb)
            c["v"] = [G.vec(rng) for _ in range(int(np.prod(sb)))]
        ctx.count(f"outer_index/{kind}/{'lazy' if lazy else 'eager'}", ("oi", k, c["r1"]["q"]),
                  nontrivial=(int(np.prod(sa)) * int(np.prod(sb)) > 1))
        yield "outer_index", c
        sa, sb = G.broadcast_pair(rng)
        c = {"r1": rot_arr(rng, sa), "r2": rot_arr(rng, sb)}
        ctx.count("broadcast", ("bc", sa, sb, c["r1"]["q"]), nontrivial=(sa != sb))
        yield "broadcast", c
        sa, sb = G.broadcast_pair(rng)
        c = {"r1": rot_arr(rng, sa), "vshape": list(sb), "v": [G.vec(rng) for _ in range(int(np.prod(sb)))]}
        ctx.count("broadcast_vec", ("bv", sa, sb, c["r1"]["q"]), nontrivial=(sa != sb))
        yield "broadcast_vec", c
        na = int(rng.integers(2, 6))
        c = {"cls": ["Q", "R"][k % 2], "a": [G.unit_quat(rng)[0] for _ in range(na)], "fa": [bool(rng.integers(2)) for _ in range(na)],
             "b": [G.unit_quat(rng)[0] for _ in range([na, 3][k % 2])], "v": [G.vec(rng) for _ in range(na)],
             "new": G.unit_quat(rng)[0], "k": int(rng.integers(na)), "edit": ["setitem", "data", "component", "setter"][k % 4],
             "strided": bool(k % 4 == 0 and na >= 4)}
        if c["strided"]:
            c["b"] = c["b"][: (na + 1) // 2] if k % 2 == 0 else c["b"]
        ctx.count(f"reuse_after_edit/{c['cls']}/{c['edit']}", ("re", k, tuple(c["a"][0])))
        yield "reuse_after_edit", c
        nv = int(rng.integers(2, 7))
        vs = [G.vec(rng) for _ in range(nv)]
        if np.linalg.matrix_rank(np.array(vs)) < 2:
            continue
        q, s = G.unit_quat(rng)
        c = {"q": q, "vs": vs}
        ctx.count(f"align/{s}", ("al", q, vs), nontrivial=(s != "identity"))
        yield "align", c


def run(ctx, status):
    driver_ok = lean_phase(ctx, status, ["OrixProofs.Properties.C02"], kernels=KERNELS)
    if ctx.replay:
        site, case, body = sites.load_replay(ctx.replay)
        if site in SITES:
            sites.run_cases(ctx, SITES, [(site, case)], driver_ok)
    else:
        sites.run_cases(ctx, SITES, generate(ctx), driver_ok)
    return common.finish(
        ctx, "proof", PREDICATES,
        rule="seeded stratified generation (unit quaternions: Haar, lower hemisphere, angle near 0/pi, pi, axis, "
             "plane, rational, identity; integer quaternions for exact comparison; all shape pairs incl. empty and "
             "size-1 axes); a case is non-trivial when not all operands are identities / single elements; distinct "
             "by hash of the canonical input",
        assumptions=["numpy-quaternion arithmetic, dask einsum/store and scipy align_vectors are modelled by their "
                     "contracts and exercised by the correspondence check, not verified",
                     "floating-point rounding is outside the theorems (measured: worst_model_impl_deviation)"])
