"""C19 — sampling grids lie in and cover their target region.
The subset / no-duplicate / unit / local / reduced-sample clauses are theorems about the model and predicates on the
implementation; the covering radius is MEASURED against method-specific bounds fixed in advance (category `other`)."""
from __future__ import annotations

import warnings

import numpy as np

from .. import common, sites
from ..main import lean_phase
from .c04 import hmul

# covering-radius bounds in degrees as functions of the resolution r (degrees); measured once on the unchanged tree
# (probe at r = 6, 9, 13 / 3, 6, 10) and committed with >= 25 % margin; haar_euler and equal_area shrink like sqrt(r)
SO3_BOUND = {"cubochoric": lambda r: 1.5 * r, "quaternion": lambda r: 2.2 * r, "haar_euler": lambda r: 10.0 * np.sqrt(r)}
S2_BOUND = {"uv": lambda r: 0.9 * r, "equal_area": lambda r: 5.4 * np.sqrt(r), "spherified_cube_corner": lambda r: 0.9 * r,
            "spherified_cube_edge": lambda r: 0.9 * r, "icosahedral": lambda r: 0.9 * r, "hexagonal": lambda r: 0.9 * r,
            "normalized_cube": lambda r: 0.9 * r}
PROPER = ["1", "211", "121", "112", "222", "4", "422", "3", "321", "312", "32", "6", "622", "23", "432"]
ELEVEN = ["1", "112", "222", "4", "422", "3", "32", "6", "622", "23", "432"]


def group(name):
    from orix.quaternion import symmetry as S
    for g in S._groups:
        if g.name == name:
            return g
    raise KeyError(name)


def targets(rng, n):
    """stratified target orientations: Haar, near identity, two-fold, cubochoric pyramid edges (|x|=|y|=|z| axes)"""
    t = rng.normal(size=(n, 4))
    k = n // 5
    t[:k, 1:] *= 1e-2                       # small angles
    t[k:2 * k, 0] = 0.0                     # angle pi
    ax = np.sign(rng.normal(size=(k, 3)))   # body diagonals = pyramid edges
    ang = rng.uniform(0, np.pi, size=k)
    t[2 * k:3 * k] = np.concatenate([np.cos(ang / 2)[:, None], np.sin(ang / 2)[:, None] * ax / np.sqrt(3)], axis=1)
    return t / np.linalg.norm(t, axis=1, keepdims=True)


def so3_check(ctx, c, outs):
    from orix.quaternion.orientation_region import OrientationRegion
    from orix.sampling import get_sample_fundamental
    G = group(c["group"])
    with warnings.catch_warnings():
        warnings.simplefilter("ignore")
        R = get_sample_fundamental(c["resolution"], point_group=G, method=c["method"])
        reg = OrientationRegion.from_symmetry(G)
        inside = R < reg
    if R.size == 0:
        return "empty sample"
    if not bool(np.all(inside)):
        return f"{int((~inside).sum())} sampled rotations lie outside the fundamental zone of {G.name}"
    q = R.data.reshape(-1, 4)
    if np.abs(np.linalg.norm(q, axis=1) - 1).max() > 1e-12:
        return "sample contains non-unit quaternions"
    # no duplicates (as rotations: q ~ -q); neighbours in a sorted order are enough to expose exact duplicates
    key = np.round(q * np.sign(q[np.arange(len(q)), np.argmax(np.abs(q) > 1e-9, axis=1)])[:, None], 9)
    if len(np.unique(key, axis=0)) != len(q):
        return f"sample of {G.name} ({c['method']}, {c['resolution']} deg) contains duplicate rotations"
    # covering: every orientation has an equivalent within bound(r) of a grid point
    rng = np.random.default_rng(c["seed"])
    t = targets(rng, c["n_targets"])
    g = G.data.reshape(-1, 4)
    eq = hmul(g[:, None, :], t[None, :, :]).reshape(-1, 4)
    d = np.abs(eq @ q.T).max(axis=1).reshape(len(g), len(t)).max(axis=0)
    rad = np.rad2deg(2 * np.arccos(np.clip(d, 0, 1)))
    worst = float(rad.max())
    ctx.dev(f"covering_deg/{c['method']}/r{c['resolution']}", worst)
    bound = float(SO3_BOUND[c["method"]](c["resolution"]))
    if worst > bound:
        j = int(np.argmax(rad))
        return (f"covering radius of the {c['method']} sample of {G.name} at {c['resolution']} deg is {worst:.2f} deg > bound "
                f"{bound:.2f} deg (target {t[j].tolist()})")
    return None


def s2_check(ctx, c, outs):
    from orix.sampling import sample_S2
    with warnings.catch_warnings():
        warnings.simplefilter("ignore")
        v = sample_S2(c["resolution"], method=c["method"]).data.reshape(-1, 3)
    if np.abs(np.linalg.norm(v, axis=1) - 1).max() > 1e-12:
        return f"sample_S2({c['method']}) returns non-unit vectors"
    rng = np.random.default_rng(c["seed"])
    t = rng.normal(size=(c["n_targets"], 3))
    t[: len(t) // 6, :2] *= 1e-3  # poles
    t[len(t) // 6: len(t) // 3, 2] *= 1e-3  # equator
    t /= np.linalg.norm(t, axis=1, keepdims=True)
    rad = np.rad2deg(np.arccos(np.clip((t @ v.T).max(axis=1), -1, 1)))
    worst = float(rad.max())
    ctx.dev(f"s2_covering_deg/{c['method']}/r{c['resolution']}", worst)
    bound = float(S2_BOUND[c["method"]](c["resolution"]))
    if worst > bound:
        return (f"covering radius of sample_S2({c['method']}, {c['resolution']} deg) is {worst:.2f} deg > bound {bound:.2f} deg "
                f"(direction {t[int(np.argmax(rad))].tolist()})")
    return None


def reduced_check(ctx, c, outs):
    from orix.sampling import get_sample_reduced_fundamental
    from orix.vector import Vector3d
    G = group(c["group"])
    with warnings.catch_warnings():
        warnings.simplefilter("ignore")
        R = get_sample_reduced_fundamental(c["resolution"], point_group=G)
        fs = G.fundamental_sector
        z = (R * Vector3d.zvector()).data.reshape(-1, 3)
    n = fs.data.reshape(-1, 3)
    if len(n):
        nn = n / np.linalg.norm(n, axis=1, keepdims=True)
        if (z @ nn.T).min() < -1e-7:
            return (f"reduced fundamental sample of {G.name}: rotated Z axis {z[int(np.argmin((z @ nn.T).min(axis=1)))].tolist()} "
                    "lies outside the fundamental sector")
    if np.abs(np.linalg.norm(z, axis=1) - 1).max() > 1e-12:
        return "rotated Z axis is not a unit vector"
    # phi1 = 0 and R*z equals the (theta, phi) direction (theorem reduced_sample_maps_z)
    eu = R.to_euler()
    want = np.stack([np.sin(eu[:, 1]) * np.sin(eu[:, 2]), np.sin(eu[:, 1]) * np.cos(eu[:, 2]), np.cos(eu[:, 1])], axis=1)
    if np.abs(want - z).max() > 1e-7:
        return "R*z differs from the direction given by the Euler angles (0, Phi, phi2)"
    # covering of the sector
    rng = np.random.default_rng(c["seed"])
    t = rng.normal(size=(4 * c["n_targets"], 3))
    t /= np.linalg.norm(t, axis=1, keepdims=True)
    if len(n):
        t = t[((t @ nn.T) >= 0).all(axis=1)]
    if len(t):
        rad = np.rad2deg(np.arccos(np.clip((t @ z.T).max(axis=1), -1, 1)))
        worst = float(rad.max())
        ctx.dev(f"reduced_covering_deg/r{c['resolution']}", worst)
        if worst > 1.5 * c["resolution"]:
            return (f"reduced fundamental sample of {G.name} at {c['resolution']} deg leaves direction "
                    f"{t[int(np.argmax(rad))].tolist()} {worst:.2f} deg from the nearest sampled direction")
    return None


def local_check(ctx, c, outs):
    from orix.quaternion import Rotation
    from orix.sampling import get_sample_local
    centre = Rotation(np.asarray(c["centre"], float))
    with warnings.catch_warnings():
        warnings.simplefilter("ignore")
        R = get_sample_local(c["resolution"], center=centre, grid_width=c["width"], method=c["method"])
    if R.size == 0:
        ctx.note("a local sample was empty (resolution coarse relative to the width): vacuously within the angle")
        return None
    a = np.rad2deg(R.angle_with(centre))
    if a.max() > c["width"] + 1e-6:
        return (f"local sample ({c['method']}) contains a rotation {a.max():.4f} deg from its centre, more than the requested "
                f"{c['width']} deg")
    return None


SITES = {
    "so3_sample": sites.Site("so3_sample", "prop", so3_check),
    "s2_sample": sites.Site("s2_sample", "prop", s2_check),
    "reduced_sample": sites.Site("reduced_sample", "prop", reduced_check),
    "local_sample": sites.Site("local_sample", "prop", local_check),
}


def _sector_label(case):
    bad = set()
    for e in common.load_findings().get("findings", []):
        if e.get("id") == "C07-sector-not-domain":
            bad |= set(e.get("members", []))
    return case.get("group") in bad


PREDICATES = {"c19_bad_sector": _sector_label}


def generate(ctx):
    rng = ctx.rng
    from ..gen import quat as GQ
    quick = ctx.tier == "quick"
    so3_res = [12.0] if quick else [12.0, 9.0, 6.0]
    nt = 200 if quick else 600
    for name in ELEVEN:
        for m in ("cubochoric", "haar_euler", "quaternion"):
            for r in so3_res:
                c = {"group": name, "method": m, "resolution": r, "n_targets": nt, "seed": int(rng.integers(1 << 30))}
                ctx.count(f"so3_sample/{m}", ("so3", name, m, r))
                yield "so3_sample", c
    ctx.sample({"site": "so3_sample", **c})
    for m in S2_BOUND:
        for r in ([8.0, 4.0] if quick else [8.0, 4.0, 2.0]):
            ctx.count(f"s2_sample/{m}", ("s2", m, r))
            yield "s2_sample", {"method": m, "resolution": r, "n_targets": 1500 if quick else 6000,
                                "seed": int(rng.integers(1 << 30))}
    from orix.quaternion import symmetry as S
    for G in S._groups:
        ctx.count("reduced_sample", ("red", G.name))
        yield "reduced_sample", {"group": G.name, "resolution": 5.0 if quick else 3.0, "n_targets": 400,
                                 "seed": int(rng.integers(1 << 30))}
    for m in ("cubochoric", "haar_euler", "quaternion"):
        for k in range(2 if quick else 6):
            ctx.count(f"local_sample/{m}", ("loc", m, k))
            yield "local_sample", {"method": m, "resolution": 4.0, "width": float(rng.choice([8.0, 15.0])),
                                   "centre": GQ.unit_quat(rng)[0]}


def run(ctx, status):
    driver_ok = lean_phase(ctx, status, ["OrixProofs.Properties.C19"])
    if ctx.replay:
        site, case, body = sites.load_replay(ctx.replay)
        if site in SITES:
            sites.run_cases(ctx, SITES, [(site, case)], driver_ok)
    else:
        sites.run_cases(ctx, SITES, generate(ctx), driver_ok)
    return common.finish(
        ctx, "other", PREDICATES,
        rule="11 proper point groups x 3 SO(3) methods x resolutions; all S2 methods x resolutions; all 38 point groups for "
             "the reduced sample; local samples about random centres; covering measured over stratified random targets "
             "(Haar, small angle, angle pi, cubochoric pyramid edges; poles and equator for S2)",
        assumptions=["the covering bounds (cubochoric 1.5 r, quaternion 2.2 r, haar_euler 10 sqrt(r); S2 0.9 r, equal_area "
                     "5.4 sqrt(r); reduced sample 1.5 r) are constants measured once on the unchanged tree with >= 25 % margin"],
        explanation="Theorems (Lean, all inputs): a sample built as unique(filter inside grid) lies in the region, has no "
                    "duplicates and keeps every grid point inside; local samples stay within the requested angle; the "
                    "three-uniform-samples quaternion is unit; from_euler(0, theta, pi/2 - phi) rotates Z exactly onto the "
                    "direction (theta, phi); an L-Lipschitz image of a grid of mesh h covers within L*h. NOT proved: the "
                    "Lipschitz constants of the cubochoric/homochoric/Euler parametrisations, hence the covering radius "
                    "itself, which is measured on every run (worst values in worst_model_impl_deviation) against bounds "
                    "fixed in advance. This is why the level is 'other' and not 'proof'.")
